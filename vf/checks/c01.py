"""C01 — deserialize accepts exactly conforming data and builds the typed image.
Boundary monitor on deserialization_method(T, **opts)(d) / deserialize(T, d, **opts); oracle = reference model (vf/spec.py)."""
import itertools

from vf import gen_data, gen_types, harness
from vf.spec import Ctx, Err, Ok, Program, Unspecified, canon, jtype, match_img

PROP = "C01"
SHARDS = {"quick": 8, "thorough": 16}
TIME_CAP = {"quick": 70, "thorough": 900}
REQUIRED = ["generic_inheritance_checks", "agree_accept", "agree_reject", "programs", "per_call_schema_programs", "per_call_validators_programs", "generic_programs"]
# compiled-tree node classes this workload is expected to reach: reported as coverage gaps when missing, never a verdict
# (a renamed internal class must not turn into an alarm)
EXPECTED_NODES = ["node:ObjectMethod", "node:SimpleObjectMethod", "node:UnionByTypeMethod", "node:UnionMethod", "node:OptionalMethod", "node:ListMethod", "node:ListCheckOnlyMethod", "node:TupleMethod", "node:SetMethod", "node:LiteralMethod", "node:MappingMethod"]
RULE = ("programs: every type of constructor depth<=2 over 21 atoms x 13 constructors (sliced per shard; thorough: all) + seeded random "
        "TypeSpecs (depth<=4, objects<=5 fields incl. alias/flatten/pattern/additional/required/skip/none_as_undefined/Undefined/init=False/"
        "InitVar/dependent_required/class aliaser, recursion); data per program: type-relevant atoms, model-valid data, one-step boundary "
        "mutants, random deep JSON; options additional_properties x fall_back_on_default x aliaser. A case = (type signature, options, datum); "
        "it is non-trivial when the type is not a bare primitive or the outcome is a rejection; distinct = distinct hashes of (sig, options, datum).")
ASSUMPTIONS = ["reference model written from the documented data model (vf/spec.py); it abstains (counted) on integer-valued floats for "
               "integer literals, cross-class numeric equality in sets/keys, NaN under numeric constraints, float multipleOf, keys equal to an aggregate field name",
               "union images: any accepting alternative's image is accepted here (ordering belongs to C13)",
               "caches reset per program (type-keyed caches conflate Union[A,B]/Union[B,A])"]


def opt_combos(rng, n):
    allc = [Ctx(additional_properties=ap, aliaser=al, fall_back_on_default=fb)
            for ap, fb, al in itertools.product([False, True], [False, True], ["identity", "camel", "custom"])]
    first = allc[0]
    rest = rng.sample(allc[1:], n - 1) if n > 1 else []
    return [first] + rest


def feat_errs(errs, d):
    out = []
    for loc, kind, exp in errs[:3]:
        try:
            x = gen_data.get_at(d, loc)
            jt = jtype(x) or type(x).__name__
        except Exception:
            jt = "absent"
        out.append(f"{kind}@{exp}/{jt}")
    return sorted(set(out))


def first_diff(a, b, path=()):
    """First position where two canonical images differ -> short description."""
    if a == b:
        return None
    if not (isinstance(a, tuple) and isinstance(b, tuple) and len(a) == 2 and len(b) == 2):
        return f"{a!r:.40} vs {b!r:.40}"
    if a[0] != b[0]:
        return f"class {a[0]} vs {b[0]}"
    pa, pb = a[1], b[1]
    if isinstance(pa, tuple) and isinstance(pb, tuple) and len(pa) == len(pb):
        for x, y in zip(pa, pb):
            if x != y:
                if isinstance(x, tuple) and isinstance(y, tuple) and len(x) == 2 and len(y) == 2 and isinstance(x[0], str) and x[0] == y[0] and isinstance(x[1], tuple):
                    return first_diff(x[1], y[1])
                r = first_diff(x, y)
                if r:
                    return r
    return f"{a[0]}: payload differs"


def veto_always(value):
    from apischema import ValidationError
    raise ValidationError("§veto")


def veto_never(value):
    return None


def per_call_args(rng, t):
    from vf.spec import Ann, AnyT, Coll, MapT, ObjectT, Prim, Union_, strip
    cons, veto = None, None
    if rng.random() < 0.14:
        from vf.gen_types import ARR_CONS2, NUM_CONS2, OBJ_CONS2, STR_CONS2
        b = strip(t)
        if isinstance(b, Prim) and b.p in ("int", "float"):
            cons = dict(rng.choice(NUM_CONS2 + [{"min": 0}]))
        elif isinstance(b, Prim) and b.p == "str":
            cons = dict(rng.choice(STR_CONS2 + [{"min_len": 1}]))
        elif isinstance(b, Coll) and b.c not in ("set", "absset", "mutset", "frozenset"):
            cons = dict(rng.choice(ARR_CONS2 + [{"max_items": 2}]))
        elif isinstance(b, (ObjectT, MapT)):
            cons = dict(rng.choice(OBJ_CONS2 + [{"min_props": 1}]))
        # over an already annotated type the two constraint sets are merged (both apply); only one level below is modelled
        if isinstance(t, Ann) and (isinstance(t.t, Ann) or isinstance(strip(t), Union_) or isinstance(t.t, AnyT)):
            cons = None
        if not isinstance(t, Ann) and isinstance(getattr(t, "t", None), Ann):
            cons = None  # NewType over an annotated type: not modelled
    if rng.random() < 0.1 and not isinstance(strip(t), (ObjectT, Union_)) and not any(isinstance(n, ObjectT) for n in (strip(t),)):
        # (a validator reading no field of an object has no provided dependency and legitimately never runs: C10)
        veto = rng.random() < 0.5
    return cons, veto


def check_program(env, prog, nopts, ndata, label):
    from apischema import deserialization_method, deserialize

    rng = env.rng
    t = prog.t
    sig = t.sig()
    for cx in opt_combos(rng, nopts):
        cx.objects = prog.objects
        harness.reset_all()
        kw = harness.options(cx)
        t = prog.t
        # per-call schema= / validators= arguments (the model sees them as constraints on the top-level type / a final veto)
        percall, veto = per_call_args(rng, prog.t)
        if percall:
            from apischema import schema as mk_schema
            from vf.spec import Ann
            kw["schema"] = mk_schema(**percall)
            t = Ann(prog.t, percall)
            env.count("per_call_schema_programs")
        if veto is not None:
            kw["validators"] = [veto_always if veto else veto_never]
            env.count("per_call_validators_programs")
        o = harness.call(deserialization_method, prog.T, **kw)
        if o.kind != "ok":
            env.violation({"kind": "compile", "exc": o.exc or "ValidationError"}, {"program": prog.source, "options": repr(kw), "outcome": o.brief()})
            continue
        method = o.value
        env.counters["treesig:" + str(hash(harness.tree_classes(method, env.counters)) % 10**6)] = 1
        atoms = gen_data.atoms_for(t, cx)
        valid = gen_data.valid_data(t, cx, rng, max(2, ndata // 6))
        data = list(atoms) + valid
        for v in valid:
            data += gen_data.mutants(v, rng, atoms, max(2, ndata // 8))
        data += [gen_data.deep_json(rng) for _ in range(max(1, ndata // 10))]
        if len(data) > ndata + len(atoms):
            data = data[: ndata + len(atoms)]
        use_function = rng.random() < 0.15
        for d in data:
            try:
                r = t.deser(d, cx)
            except Unspecified as u:
                env.count("unspecified:" + str(u))
                continue
            except RecursionError:
                env.count("unspecified:model recursion")
                continue
            real = harness.call(deserialize, prog.T, d, **kw) if use_function else harness.call(method, d)
            if veto and isinstance(r, Ok):
                r = Err([((), "veto", "validator")])  # an always-failing per-call validator rejects every conforming datum
            optsig = (cx.additional_properties, cx.fall_back_on_default, cx.aliaser)
            env.case(sig, optsig, repr(d), nontrivial=not (len(sig) < 6 and isinstance(r, Ok)))
            wit = {"program": prog.source, "label": label, "options": {"additional_properties": cx.additional_properties, "fall_back_on_default": cx.fall_back_on_default, "aliaser": cx.aliaser}, "datum": d}
            if real.kind == "exc":
                env.violation({"kind": "exception", "exc": real.exc, "model": "accept" if isinstance(r, Ok) else feat_errs(r.errs, d)}, {**wit, "observed": real.brief()})
            elif isinstance(r, Ok):
                if real.kind == "verr":
                    kinds = sorted({f"{harness.err_kind(e['err'])}" for e in real.errors})[:4]
                    env.violation({"kind": "false-reject", "real_err_kinds": kinds, "top": type(t).__name__}, {**wit, "expected": "accept " + repr(r.v)[:300], "observed": real.brief()})
                else:
                    try:
                        c = canon(real.value)
                    except Unspecified:
                        env.count("unspecified:canon")
                        continue
                    if match_img(r.v, c):
                        env.count("agree_accept")
                    else:
                        env.violation({"kind": "image", "diff": first_diff(r.v, c)}, {**wit, "expected_image": repr(r.v)[:600], "observed_image": repr(c)[:600]})
            else:
                if real.kind == "ok":
                    env.violation({"kind": "false-accept", "model_errs": feat_errs(r.errs, d)}, {**wit, "expected": "reject " + repr(r.errs)[:300], "observed": real.brief()})
                else:
                    env.count("agree_reject")
    env.count("programs")
    if "Generic[" in prog.source:
        env.count("generic_programs")


GENERIC_INHERITANCE = """
from dataclasses import dataclass, field
from typing import Dict, Generic, List, Optional, Tuple, TypeVar
T = TypeVar("T"); U = TypeVar("U"); V = TypeVar("V")

@dataclass
class GBase(Generic[T]):
    b: T

@dataclass
class GReordered(GBase[T], Generic[U, T]):      # class parameters (U, T): another order than their first appearance in the bases
    a: U

@dataclass
class GFixed(GBase[int]):                        # non-generic child of a specialised base
    c: str

@dataclass
class GWrapped(GBase[List[T]], Generic[T]):      # the base is specialised with a type built from the parameter
    d: T

@dataclass
class GPair(Generic[T, U]):
    first: T
    second: U

@dataclass
class GSwapped(GPair[U, T], Generic[T, U]):      # parameters handed to the base in swapped order
    extra: Optional[T] = None

@dataclass
class GTwoLevels(GReordered[V, str], Generic[V]):
    e: V
"""

# (type expression, field -> kind of its value); kinds: i = int, s = str, li = list of int, oi = optional int
GENERIC_CASES = [
    ("GReordered[int, str]", {"a": "i", "b": "s"}), ("GReordered[str, int]", {"a": "s", "b": "i"}), ("GFixed", {"b": "i", "c": "s"}),
    ("GWrapped[int]", {"b": "li", "d": "i"}), ("GSwapped[int, str]", {"first": "s", "second": "i", "extra": "oi"}),
    ("GSwapped[str, int]", {"first": "i", "second": "s"}), ("GTwoLevels[int]", {"a": "i", "b": "s", "e": "i"}),
    ("List[GReordered[int, str]]", None), ("GPair[int, str]", {"first": "i", "second": "s"}),
]
_GOOD = {"i": 3, "s": "x", "li": [1, 2], "oi": None}
_BAD = {"i": "x", "s": 3, "li": ["a"], "oi": "x"}


def check_generic_inheritance(env):
    """generic classes inheriting from specialised generic bases: the type of every field is the one obtained by substituting
    the class parameters (direct expectations; the TypeSpec grammar only has single generic classes)"""
    import sys
    import types
    from apischema import deserialize

    mod = types.ModuleType(f"vfgeninh_{env.shard}")
    sys.modules[mod.__name__] = mod
    try:
        exec(compile(GENERIC_INHERITANCE, "<vfgeninh>", "exec"), mod.__dict__)
        harness.reset_all()
        for expr, kinds in GENERIC_CASES:
            if kinds is None:
                continue
            T_ = eval(expr, mod.__dict__)
            good = {f: _GOOD[k] for f, k in kinds.items()}
            cases = [("all-valid", good, True)]
            for f, k in kinds.items():
                cases.append((f"bad-{f}", {**good, f: _BAD[k]}, False))
            if len({k for k in kinds.values()} & {"i", "s"}) == 2:
                sw = {f: _GOOD["s" if k == "i" else "i" if k == "s" else k] for f, k in kinds.items()}
                cases.append(("int-and-str-swapped", sw, False))
            for label, d, ok in cases:
                for wrap in (False, True):
                    o = harness.call(deserialize, mod.List[T_] if wrap else T_, [d] if wrap else d)
                    env.count("generic_inheritance_checks")
                    env.case("generic-inheritance", expr, label, wrap)
                    if o.kind == "exc" or (o.kind == "ok") != ok:
                        env.violation({"kind": "false-reject" if ok else "false-accept" if o.kind == "ok" else "exception", "family": "generic-inheritance"},
                                      {"program": GENERIC_INHERITANCE + f"\nT = {expr}\n", "type": expr, "datum": d, "case": label, "observed": o.brief(), "expected": "accept" if ok else "reject"})
                    elif ok:
                        v = o.value[0] if wrap else o.value
                        if any(getattr(v, f) != d[f] for f in d):
                            env.violation({"kind": "image", "family": "generic-inheritance"}, {"type": expr, "datum": d, "observed": o.brief()})
    finally:
        sys.modules.pop(mod.__name__, None)


def run(env):
    harness.tag_errors(True)
    rng = env.rng
    if env.shard == 0:
        check_generic_inheritance(env)
    # ---- part A: bounded-exhaustive small types, sliced by shard (quick: every 4th of the slice, rotating with the seed)
    small = list(gen_types.enumerate_small())
    env.count("small_space", 0)
    stride = 3 if env.quick() else 1
    g = gen_types.Gen(rng, pattern_overlap=True)
    idx = 0
    for i, (label, build) in enumerate(small):
        if i % env.nshards != env.shard:
            continue
        idx += 1
        if (idx + env.seed) % stride:
            continue
        if env.out_of_time():
            env.notes.append("time cap reached in exhaustive part")
            break
        t = build(g)
        if t is None:
            env.count("illformed_skipped")
            continue
        run_one(env, t, label, nopts=1 if env.quick() else 2, ndata=30)
    env.counters["small_space"] = len(small)
    for i, (label, build) in enumerate(gen_types.directed_shapes()):
        if i % env.nshards == env.shard:
            run_one(env, build(gen_types.Gen(rng, max_depth=2)), "directed:" + label, nopts=2, ndata=40)
            env.count("directed_shape_programs")
    # ---- part B: random programs
    n = env.n(9000, 150000)
    for j in range(n):
        if env.out_of_time():
            env.notes.append("time cap reached in random part")
            break
        g = gen_types.Gen(rng, max_depth=rng.choice([2, 3, 4, 4]), pattern_overlap=True, std=rng.random() < 0.15)  # std: UUID, date, Decimal, bytes, deque, ...
        t = g.type(0) if rng.random() < 0.5 else g.object(0)
        run_one(env, t, f"random#{env.shard}.{j}", nopts=2, ndata=40)


def run_one(env, t, label, nopts, ndata):
    prog = Program(t)
    try:
        prog.load()
    except Exception as e:
        env.count("program_load_failed")
        env.count("program_load_failed:" + type(e).__name__)
        if env.counters["program_load_failed"] <= 3:
            env.notes.append(f"load failed: {type(e).__name__}: {e} :: {prog.source[-400:]}")
        return
    try:
        check_program(env, prog, nopts, ndata, label)
        if len(env.samples) < 4 and env.rng.random() < 0.02:
            env.sample({"type": t.ann(), "sig": t.sig(), "label": label})
    finally:
        prog.unload()


def finish_coverage(cov, counters, tier):
    cov["distinct_compiled_tree_signatures"] = sum(1 for k in counters if k.startswith("treesig:"))
    cov["counters"] = {k: v for k, v in cov["counters"].items() if not k.startswith("treesig:")}
    cov["exhaustive"] = False
    cov["exhaustive_subspace"] = ("depth<=2 small grammar enumerated completely" if tier == "thorough" else "1/3 slice of the depth<=2 small grammar (rotating with VERIF_SEED)")


def replay(env, rep):
    """Re-run the datum of a witness against its program source."""
    import types
    from apischema import deserialize
    w = rep["witness"]
    print("replay: re-executing program source and datum; model verdict is recorded in the witness")
    mod = types.ModuleType("vfreplay")
    import sys
    sys.modules["vfreplay"] = mod
    exec(compile(w["program"], "<replay>", "exec"), mod.__dict__)
    from vf.spec import ALIASERS
    o = w["options"]
    kw = dict(additional_properties=o["additional_properties"], fall_back_on_default=o["fall_back_on_default"])
    if o["aliaser"] != "identity":
        kw["aliaser"] = ALIASERS[o["aliaser"]]
    real = harness.call(deserialize, mod.T, w["datum"], **kw)
    print("observed now:", real.brief())
    print("recorded    :", w.get("observed") or w.get("observed_image"), "| expected:", w.get("expected") or w.get("expected_image"))
    if repr(real.brief()) == repr(w.get("observed")):
        env.violation(rep["features"], w)
