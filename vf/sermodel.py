"""Reference model of serialization (documented image of a value), used by C04 / C05 / C07.
ser(t, v, sx) -> JSON image; raises Unspecified where the statement is silent (class-ambiguous unions, ...)."""
import dataclasses
import enum
from dataclasses import dataclass, field as dfield
from typing import Dict

from vf.spec import (ALIASERS, AnyT, Ann, Coll, EnumT, Lit, MapT, NewT, ObjectT, Prim, Ref, Std, SubPrim, Tup, UNDEF, Union_, Unspecified, flat_alts)


@dataclass
class SerCtx:
    exclude_none: bool = False
    exclude_defaults: bool = False
    exclude_unset: bool = True
    additional_properties: bool = False
    aliaser: str = "identity"
    objects: Dict[str, ObjectT] = dfield(default_factory=dict)

    def al(self, s):
        return ALIASERS[self.aliaser](s)


def is_undefined(v):
    return type(v).__name__ == "UndefinedType"


def ser_any(v):
    """image of a value at an Any position, by its runtime class (only JSON-like data are generated there)"""
    if v is None or type(v) in (bool, int, float, str):
        return v
    if type(v) is list:
        return [ser_any(x) for x in v]
    if type(v) is dict:
        return {k: ser_any(x) for k, x in v.items()}
    raise Unspecified("non JSON-like value at an Any position")


def class_match(a, v, sx):
    """does the runtime class of v match alternative a (what a class-based dispatch can see)"""
    from vf.spec import strip
    a = strip(a)
    if isinstance(a, Ref):
        a = sx.objects[a.name]
    if isinstance(a, Prim):
        return {"none": v is None, "bool": type(v) is bool, "int": isinstance(v, int), "float": isinstance(v, float), "str": isinstance(v, str)}[a.p]
    if isinstance(a, SubPrim):
        return type(v).__name__ == a.name
    if isinstance(a, Lit):
        return any(type(x) is type(v) for x in a.vals) or any(isinstance(v, type(x)) for x in a.vals)
    if isinstance(a, EnumT):
        return isinstance(v, enum.Enum) and type(v).__name__ == a.name
    if isinstance(a, Coll):
        import collections.abc as abc
        return {"list": isinstance(v, list), "blist": isinstance(v, list), "mutseq": isinstance(v, abc.MutableSequence), "seq": isinstance(v, abc.Sequence),
                "coll": isinstance(v, abc.Collection), "vartuple": isinstance(v, tuple), "set": isinstance(v, set), "mutset": isinstance(v, abc.MutableSet),
                "absset": isinstance(v, abc.Set), "frozenset": isinstance(v, frozenset), "deque": type(v).__name__ == "deque"}[a.c]
    if isinstance(a, Tup):
        return isinstance(v, tuple)
    if isinstance(a, MapT):
        import collections.abc as abc
        return isinstance(v, dict) if a.c in ("dict", "bdict") else isinstance(v, abc.Mapping)
    if isinstance(a, ObjectT):
        import collections.abc as abc
        return isinstance(v, abc.Mapping) if a.kind == "typeddict" else type(v).__name__ == a.name
    if isinstance(a, AnyT):
        return True
    if isinstance(a, Std):
        return type(v).__name__ in {"uuid": ("UUID",), "date": ("date",), "datetime": ("datetime",), "time": ("time",), "decimal": ("Decimal",), "bytes": ("bytes",),
                                     "path": ("PosixPath", "Path"), "ipv4": ("IPv4Address",), "ipv6": ("IPv6Address",), "pattern": ("Pattern",)}[a.s]
    return False


def ser(t, v, sx: SerCtx):
    if isinstance(t, Ref):
        t = sx.objects[t.name]
    if isinstance(t, (Ann, NewT)):
        return ser(t.t, v, sx)
    if isinstance(t, Prim):
        return v
    if isinstance(t, SubPrim):
        return v
    if isinstance(t, AnyT):
        return ser_any(v)
    if isinstance(t, Lit):
        return v
    if isinstance(t, EnumT):
        return v.value
    if isinstance(t, Std):
        import base64
        return {"uuid": str, "date": lambda x: x.isoformat(), "datetime": lambda x: x.isoformat(), "time": lambda x: x.isoformat(), "decimal": float,
                "bytes": lambda b: base64.b64encode(b).decode(), "path": str, "ipv4": str, "ipv6": str, "pattern": lambda p: p.pattern}[t.s](v)
    if isinstance(t, Coll):
        return [ser(t.e, x, sx) for x in v]
    if isinstance(t, Tup):
        if len(v) != len(t.es):
            raise Unspecified("ill-typed tuple value")
        return [ser(e, x, sx) for e, x in zip(t.es, v)]
    if isinstance(t, MapT):
        return {ser(t.k, k, sx): ser(t.v, x, sx) for k, x in v.items()}
    if isinstance(t, Union_):
        alts = flat_alts(t)
        matching = [a for a in alts if class_match(a, v, sx)]
        if not matching:
            raise Unspecified("value matches no union alternative by class")
        images = []
        for a in matching:
            try:
                img = ser(a, v, sx)
            except Unspecified:
                raise
            except Exception:
                img = ("<error>",)
            if img not in images:
                images.append(img)
        if len(images) > 1:
            raise Unspecified("class-ambiguous union: alternatives matching by class give different images")
        return images[0]
    if isinstance(t, ObjectT):
        return ser_object(t, v, sx)
    raise Unspecified("unknown node")


def ser_object(o: ObjectT, v, sx: SerCtx):
    from vf.spec import Ctx
    cx = Ctx(aliaser=sx.aliaser)
    out = {}
    td = o.kind == "typeddict"
    fset = None
    if o.fields_set and sx.exclude_unset:
        from apischema.fields import fields_set
        fset = fields_set(v)
    for f in o.fields:
        if f.skip_ser or f.initvar:
            continue
        if td:
            if f.name not in v:
                if o.f_required(f):
                    raise Unspecified("TypedDict value lacks a required key")
                continue
            val = v[f.name]
        else:
            val = getattr(v, f.name)
        if fset is not None and f.name not in fset:
            continue
        from vf.spec import strip
        ut = f.t
        while isinstance(ut, Ann):  # Annotated[Optional[X], ...] is still an Optional field
            ut = ut.t
        non_none = [a for a in (flat_alts(ut) if isinstance(ut, Union_) else [ut]) if not (isinstance(strip(a), Prim) and strip(a).p == "none")]
        has_none = isinstance(ut, Union_) and len(non_none) < len(flat_alts(ut))
        if val is None and sx.exclude_none and f.undefined and isinstance(f.t, Ann):
            raise Unspecified("exclude_none on Union[Annotated[Optional[X], ...], UndefinedType] (typing does not flatten the nested union)")
        if val is None and sx.exclude_none and not non_none:
            raise Unspecified("exclude_none on a field whose type is exactly None")
        if is_undefined(val):
            if f.undefined or (f.has_default and f.default_value() is UNDEF) or td:
                continue
            raise Unspecified("Undefined value in a field not declared Undefined-able")
        if val is None and ((sx.exclude_none and has_none) or f.none_as_undefined):
            continue
        if not td:
            if f.has_default and not f.required_md and (sx.exclude_defaults or f.ser_default):  # a `required` field is always emitted
                dv = f.default_value()
                if dv is not UNDEF and _eq_default(val, dv):
                    continue
            if f.ser_if and {"vf_is_falsy": lambda x: not x, "vf_is_negative": lambda x: isinstance(x, (int, float)) and not isinstance(x, bool) and x < 0}[f.ser_if](val):
                continue
        ft = f.t  # (none_as_undefined only matters for None, handled above)
        if f.flatten or f.pattern is not None or f.additional:
            sub = ser(ft, val, sx)
            if not isinstance(sub, dict):
                raise Unspecified("aggregate field image is not an object")
            out.update(sub)
        else:
            out[o.ext(f, cx)] = ser(ft, val, sx)
    for m in o.methods:
        val = eval(m["expr"], {"Undefined": UNDEF, "self": v, "len": len, "repr": repr})
        if val is UNDEF:
            if m.get("undefined"):
                continue
            raise Unspecified("method returns Undefined without declaring it")
        has_none = isinstance(m["ret"], Union_)
        if val is None and sx.exclude_none and has_none:
            continue
        out[sx.al(m["alias"] or m["name"])] = ser(m["ret"], val, sx)
    if td and sx.additional_properties:
        names = {f.name for f in o.fields}
        for k, x in v.items():
            if isinstance(k, str) and k not in names and k not in out:
                out[k] = ser_any(x)
    return out


def _eq_default(val, dv):
    try:
        return bool(val == dv)
    except Exception:
        return False


def json_only(x, depth=0):
    """dict with str keys, list, str, int, float, bool, None only (exact classes or enum-free subclasses)"""
    if depth > 200:
        return True
    if x is None or type(x) in (bool, int, float, str):
        return True
    if isinstance(x, enum.Enum):
        return isinstance(x, (str, int))  # str / int mix-in members are str / int instances equal to their value
    if isinstance(x, (bool, int, float, str)):
        return True  # sub-primitives are str/int/float instances
    if type(x) is list:
        return all(json_only(e, depth + 1) for e in x)
    if type(x) is dict:
        return all(isinstance(k, str) and json_only(e, depth + 1) for k, e in x.items())
    return False
