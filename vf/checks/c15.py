"""C15 — field-set tracking reflects the input and drives exclude_unset.

History checker: every generated history (create an instance by constructor call / deserialize, then assign,
set_fields, unset_fields, apischema.dataclasses.replace, new instances ...) is executed on the real classes and,
in lock step, on a set-valued state machine written from the statement and docs/de_serialization.md ("Fields set",
"Exclude unset fields").  After each step the monitors read

  * fields_set(obj)                         == model (restricted to the names of the dataclass fields),
  * is_set(obj).<f>                         == f in fields_set(obj),
  * serialize(T, obj)            (default)  emits exactly the set fields,
  * serialize(T, obj, exclude_unset=False)  emits every field,
  * earlier instances (source of replace, superseded instances) still have the set the model gives them,
  * the same data deserialized as a list item / as a field of an undecorated wrapper gives the same set on the nested instance.

The model is three-valued per field (set / unset / unspecified); unspecified memberships are not compared and counted.
"""
import itertools
import json
import time

from vf import harness

PROP = "C15"
SHARDS = {"quick": 8, "thorough": 16}
TIME_CAP = {"quick": 600, "thorough": 2700}   # wall-clock guard only (loaded machines); budgets are counts
CPU_CAP = {"quick": 150, "thorough": 900}      # CPU seconds per worker (nominal: ~8 s quick, ~80 s thorough)
REQUIRED = ["non_field_name_checks", "initvar_not_a_field_checks", "histories", "steps_checked", "fields_set_checks", "is_set_checks", "serialize_default_checks", "serialize_all_checks",
            "op:ctor", "op:deser", "op:assign", "op:set", "op:set_overwrite", "op:unset", "op:replace",
            "override_constructors_histories", "old_instance_checks", "nested_serialize_checks", "nested_deserialize_checks", "global_setting_checks",
            "undecorated_class_checks", "nonempty_unset_observed", "random_histories"]
RULE = ("enumerated with_fields_set dataclass families (plain, default_as_set, init=False, __post_init__ assigning fields, InitVar (default / required), "
        "undecorated base -> decorated, decorated -> undecorated dataclass, decorated -> undecorated -> decorated, decorated -> decorated, plain subclass of a decorated class, "
        "alias + default_factory (+ default_as_set), fields with a never-true skip condition, frozen, all-optional, never decorated) x creators {constructor call, deserialize} over every subset of the optional init parameters (+ positional calls) "
        "x every sequence of mutators {assign f, set_fields (one / two / no field, overwrite or not), unset_fields, replace(no / one / two changes)}; "
        "exhaustive for histories of length <= 3 (quick) / <= 4 (thorough), random histories of length <= 8 with several live instances; "
        "all of it repeated for the deserialize-created histories with settings.deserialization.override_dataclass_constructors = True. "
        "A case = (class family, override flag, op sequence); non-trivial when it has at least one mutator or a strict subset of keys; distinct by hash.")
ASSUMPTIONS = [
    "model written from the statement + docs: constructor/deserialize => passed init fields + init=False fields + default_as_set fields; assignment adds; "
    "set_fields adds (overwrite: replaces); unset_fields removes; apischema.dataclasses.replace => old set + changed fields",
    "unspecified (not compared, counted): the set right after constructing an instance of an *undecorated dataclass subclass* of a decorated class "
    "(adopted from the observation, later steps are exact); after replace, membership of an init=False / default_as_set field that had been explicitly unset; "
    "names that are not dataclass fields (InitVar names, other attributes)",
    "other omission rules (skip, exclude_none, exclude_defaults, Undefined) are off or never apply; aliases only rename keys",
]

# --------------------------------------------------------------------------------------------------------------
# class families


class F:
    def __init__(self, name, kind="n", req=False, das=False, alias=None, factory=False, default=0, md=None, tp=None):
        self.name, self.kind, self.req, self.das, self.alias, self.factory, self.default, self.md = name, kind, req, das, alias, factory, default, md
        self.tp = tp  # annotation override (the type variable of a generic class)

    def decl(self):
        if self.kind == "iv":
            return f"    {self.name}: InitVar[int]" + ("" if self.req else f" = {self.default}")
        args, md = [], []
        if self.kind == "nf":
            args.append("init=False")
        if self.factory:
            args.append("default_factory=list")
        elif not self.req and self.default is not None:
            args.append(f"default={self.default}")
        if self.das:
            md.append("default_as_set")
        if self.alias:
            md.append(f"alias({self.alias!r})")
        if self.md:
            md.append(self.md)
        if md:
            args.append("metadata=" + " | ".join(md))
        tp = self.tp or ("List[int]" if self.factory else "int")
        if not args:
            return f"    {self.name}: {tp}"
        if args == [f"default={self.default}"]:
            return f"    {self.name}: {tp} = {self.default}"
        return f"    {self.name}: {tp} = field({', '.join(args)})"


class C:
    def __init__(self, name, fields=(), base=None, deco=True, dc=True, frozen=False, post=(), post_params=(), generic=False):
        self.name, self.fields, self.base, self.deco, self.dc, self.frozen, self.post, self.post_params = name, list(fields), base, deco, dc, frozen, list(post), list(post_params)
        self.generic = generic  # class K(Generic[TG]); used as K[int]

    def source(self, suffix):
        lines = []
        if self.deco:
            lines.append("@with_fields_set")
        if self.dc:
            lines.append("@dataclass(frozen=True)" if self.frozen else "@dataclass")
        bases = ([f"{self.base}{suffix}"] if self.base else []) + (["Generic[TG]"] if self.generic else [])
        lines.append(f"class {self.name}{suffix}" + (f"({', '.join(bases)})" if bases else "") + ":")
        body = [f.decl() for f in self.fields]
        if self.post:
            body.append(f"    def __post_init__(self{''.join(', ' + p for p in self.post_params)}):")
            body += [f"        {stmt}" for stmt in self.post]
        if not self.dc:
            body.append("    def helper(self):\n        return 1")
        if not body:
            body.append("    pass")
        return "\n".join(lines + body)


def families():
    """name -> list of class specs (base first, last one is the class under test)"""
    fam = {}
    fam["basic"] = [C("K", [F("a", req=True), F("b"), F("c", default=5), F("d", default=7)])]
    fam["default_as_set"] = [C("K", [F("a", req=True), F("b", das=True), F("c"), F("d", das=True, default=3)])]
    fam["init_false"] = [C("K", [F("a", req=True), F("b"), F("c", kind="nf", default=5), F("d")])]
    fam["post_init"] = [C("K", [F("a", req=True), F("b"), F("c", kind="nf", default=None), F("d", das=True)],
                          post=["self.c = self.a + self.b", "if self.b == 0:", "    self.b = 9"])]
    fam["initvar_default"] = [C("K", [F("a", req=True), F("iv", kind="iv", default=3), F("b"), F("c", kind="nf", default=None)],
                                post=["self.c = iv"], post_params=["iv"])]
    fam["initvar_required"] = [C("K", [F("a", req=True), F("iv", kind="iv", req=True), F("b"), F("c", kind="nf", default=None), F("d", das=True)],
                                 post=["self.c = iv + 1"], post_params=["iv"])]
    fam["plainbase_to_decorated"] = [C("B", [F("a", req=True), F("b", das=True)], deco=False),
                                     C("K", [F("c"), F("d", das=True), F("e", kind="nf", default=4)], base="B")]
    fam["decorated_to_undecorated"] = [C("B", [F("a", req=True), F("b", das=True), F("c")]),
                                       C("K", [F("d"), F("e")], base="B", deco=False)]
    fam["decorated_undecorated_decorated"] = [C("A", [F("a", req=True), F("b")]),
                                              C("B", [F("c", das=True)], base="A", deco=False),
                                              C("K", [F("d"), F("e", kind="nf", default=2)], base="B")]
    fam["decorated_to_decorated"] = [C("B", [F("a", req=True), F("b", das=True), F("c", kind="nf", default=1)]),
                                     C("K", [F("d"), F("e")], base="B")]
    fam["plain_subclass"] = [C("B", [F("a", req=True), F("b", das=True), F("c"), F("d", kind="nf", default=6)]),
                             C("K", [], base="B", deco=False, dc=False)]
    fam["alias_factory"] = [C("K", [F("a", req=True, alias="A"), F("b", alias="bee"), F("c", factory=True), F("d", das=True, alias="D"), F("e", factory=True, das=True)])]
    # a never-true skip condition: no omission, but the field is serialised by the general (conditional) field serialiser also when exclude_unset=False
    fam["conditional_field_serializer"] = [C("K", [F("a", req=True, md="skip(serialization_if=never)"), F("b", md="skip(serialization_if=never)"), F("c", das=True, md="skip(serialization_if=never)"), F("d")])]
    fam["frozen"] = [C("K", [F("a", req=True), F("b"), F("c", das=True), F("d", kind="nf", default=5)], frozen=True)]
    fam["all_optional"] = [C("K", [F("a"), F("b", default=1), F("c", default=2)])]
    # generic class used through its parametrized alias K[int] (typing sets __orig_class__ on the instances it builds)
    fam["generic"] = [C("K", [F("a", req=True, tp="TG"), F("b"), F("c", das=True), F("d", kind="nf", default=5)], generic=True)]
    fam["never_decorated"] = [C("K", [F("a", req=True), F("b"), F("c", kind="nf", default=5)], deco=False)]
    return fam


PRELUDE = """from dataclasses import dataclass, field, InitVar
from typing import Generic, TypeVar
TG = TypeVar("TG")
from typing import List, Optional
from apischema import alias
from apischema.fields import with_fields_set
from apischema.metadata import default_as_set, skip


def never(value):
    return False
"""

_counter = [0]


class Family:
    """A loaded class family + the static facts the model needs (derived from the spec, not from apischema)."""

    def __init__(self, fid, specs):
        self.fid, self.specs = fid, specs
        _counter[0] += 1
        self.suffix = f"_{fid}_{_counter[0]}"
        last = specs[-1].name + self.suffix
        self.source = PRELUDE + "\n\n".join(c.source(self.suffix) for c in specs) + (
            f"\n\n@dataclass\nclass W{self.suffix}:\n    item: {last}\n    n: int = 0\n")
        allf = [f for c in specs for f in c.fields]
        self.fields = [f for f in allf if f.kind != "iv"]          # dataclass fields, declaration order
        self.names = [f.name for f in self.fields]
        self.by_name = {f.name: f for f in allf}
        self.params = [f for f in allf if f.kind != "nf"]           # __init__ parameters in order
        self.initvars = [f.name for f in allf if f.kind == "iv"]
        self.always = {f.name for f in self.fields if f.kind == "nf" or f.das}
        self.frozen = specs[-1].frozen
        self.tracked = any(c.deco for c in specs)
        # the class whose __init__ runs: the most derived dataclass; exact model iff that class is decorated
        provider = [c for c in specs if c.dc][-1]
        self.ctor_exact = provider.deco
        self.alias = {f.name: (f.alias or f.name) for f in allf}

    def load(self):
        import linecache
        import sys
        import types

        name = f"vfc15{self.suffix}"
        mod = types.ModuleType(name)
        fn = f"<{name}>"
        mod.__file__ = fn
        linecache.cache[fn] = (len(self.source), None, self.source.splitlines(True), fn)
        sys.modules[name] = mod
        exec(compile(self.source, fn, "exec"), mod.__dict__)
        self.module = mod
        self.T = getattr(mod, self.specs[-1].name + self.suffix)
        if self.specs[-1].generic:
            self.T = self.T[int]
        self.W = getattr(mod, "W" + self.suffix)
        return self

    def field_kind(self, name):
        f = self.by_name.get(name)
        if f is None:
            return "unknown"
        return {"n": "default_as_set" if f.das else ("required" if f.req else "optional"), "nf": "init_false", "iv": "initvar"}[f.kind]


# --------------------------------------------------------------------------------------------------------------
# op alphabets


def creators(fam):
    req = [p.name for p in fam.params if p.req]
    opt = [p.name for p in fam.params if not p.req]
    out = []
    for r in range(len(opt) + 1):
        for sub in itertools.combinations(opt, r):
            names = req + list(sub)
            out.append(("ctor", tuple(names), 0))
            out.append(("deser", tuple(names)))
    for k in range(1, len(fam.params) + 1):                        # first k parameters passed positionally
        out.append(("ctor", tuple(p.name for p in fam.params[:k]) + tuple(r for r in req if r not in [p.name for p in fam.params[:k]]), k))
    return out


def mutators(fam):
    names = fam.names
    out = []
    if not fam.frozen:
        out += [("assign", n) for n in names]
    if fam.tracked:
        out += [("set", (n,), ow) for n in names for ow in (False, True)]
        out += [("set", (), True), ("set", tuple(names[:2]), False), ("set", tuple(names[-2:]), True)]
        out += [("unset", (n,)) for n in names] + [("unset", tuple(names[1:3]))]
    rep = [p.name for p in fam.params if p.kind == "n"]
    out += [("replace", ())] + [("replace", (n,)) for n in rep]
    if len(rep) >= 2:
        out.append(("replace", (rep[0], rep[-1])))
    return out


# --------------------------------------------------------------------------------------------------------------
# the model: S = surely set, U = unspecified membership


class MState:
    __slots__ = ("S", "U")

    def __init__(self, S=(), U=()):
        self.S, self.U = set(S), set(U)

    def copy(self):
        return MState(self.S, self.U)


def model_create(fam, passed):
    """constructor call / deserialization with exactly `passed` init parameters"""
    if not fam.ctor_exact:
        return None                                                  # adopt the observation
    return MState({n for n in passed if n in fam.names} | fam.always)


def model_apply(fam, st, op):
    k = op[0]
    if k == "assign":
        st.S.add(op[1])
        st.U.discard(op[1])
    elif k == "set":
        if op[2]:
            st.S, st.U = set(op[1]), set()
        else:
            st.S |= set(op[1])
            st.U -= set(op[1])
    elif k == "unset":
        st.S -= set(op[1])
        st.U -= set(op[1])
    return st


def model_replace(fam, st, changes):
    new = MState(st.S | {c for c in changes if c in fam.names}, st.U - set(changes))
    # a field the constructor always marks (init=False / default_as_set) that had been unset by hand: unspecified
    for n in fam.always:
        if n not in new.S:
            new.U.add(n)
    return new


# --------------------------------------------------------------------------------------------------------------
# execution + monitors


class Runner:
    def __init__(self, env, fam, override):
        from apischema import deserialize, serialize
        from apischema.dataclasses import replace
        from apischema.fields import fields_set, is_set, set_fields, unset_fields

        self.env, self.fam, self.override = env, fam, override
        self.deserialize, self.serialize, self.replace = deserialize, serialize, replace
        self.fields_set, self.is_set, self.set_fields, self.unset_fields = fields_set, is_set, set_fields, unset_fields
        self.value = 10

    def fresh(self):
        self.value += 1
        return self.value

    def val(self, name):
        return [self.fresh()] if self.fam.by_name[name].factory else self.fresh()

    def violation(self, kind, ops, step, extra_feat=None, **wit):
        fam = self.fam
        feats = {"kind": kind, "family": fam.fid, "op": ops[step][0] if step is not None and step < len(ops) else None,
                 "override_dataclass_constructors": self.override}
        feats.update(extra_feat or {})
        self.env.violation(feats, {"family": fam.fid, "source": fam.source, "class": fam.T.__name__, "ops": json.loads(json.dumps(ops)), "step": step,
                                   "override_dataclass_constructors": self.override, **wit})

    # ---- one step on the real object
    def real_create(self, op):
        fam = self.fam
        if op[0] == "ctor":
            names, npos = op[1], op[2]
            pos_names = [p.name for p in fam.params[:npos]]
            args = [self.val(n) for n in pos_names]
            kwargs = {n: self.val(n) for n in names if n not in pos_names}
            return fam.T(*args, **kwargs)
        data = {fam.alias[n]: self.val(n) for n in op[1]}
        return self.deserialize(fam.T, data)

    def real_apply(self, obj, op):
        k = op[0]
        if k == "assign":
            setattr(obj, op[1], self.val(op[1]))
        elif k == "set":
            r = self.set_fields(obj, *op[1], overwrite=op[2])
            assert r is obj
        elif k == "unset":
            r = self.unset_fields(obj, *op[1])
            assert r is obj
        return obj

    def real_replace(self, obj, changes):
        kw = {n: self.val(n) for n in changes}
        for iv in self.fam.initvars:
            if self.fam.by_name[iv].req:
                kw[iv] = self.fresh()
        new = self.replace(obj, **kw)
        return new, kw

    # ---- monitors
    def observe_set(self, obj):
        try:
            fs = self.fields_set(obj)
        except Exception as e:
            return e, False
        ok = isinstance(fs, (set, frozenset)) and all(type(x) is str for x in fs)
        return fs, ok

    def check(self, obj, st, ops, step, full=True):
        """compare the real instance with the model state; returns the observed set restricted to field names"""
        env, fam = self.env, self.fam
        fs, ok = self.observe_set(obj)
        if not ok:
            if isinstance(fs, Exception):
                self.violation("exception", ops, step, {"exc": type(fs).__name__, "observer": "fields_set"}, message=str(fs)[:300])
            else:
                self.violation("fields_set-not-a-set-of-str", ops, step, observed=repr(fs))
            return None
        obs = set(fs) & set(fam.names)
        env.count("fields_set_checks")
        # an InitVar is a constructor argument, not a field: its name is never "set" by construction / deserialization
        # nor by apischema.dataclasses.replace (which passes the InitVar default again to the constructor: F115);
        # only after an explicit set_fields / assignment naming it is its membership unspecified
        others = sorted(set(fs) - set(fam.names) - set(fam.initvars))
        env.count("non_field_name_checks")
        if others:  # e.g. an attribute set by the machinery around the class (typing's __orig_class__)
            self.violation("fields_set-contains-non-field", ops, step, {"names": others[:3]}, observed=sorted(fs))
        if fam.initvars:
            env.count("initvar_not_a_field_checks")
            named = any((op[0] in ("set", "assign") and set(fam.initvars) & set(op[1] if isinstance(op[1], (tuple, list, set)) else (op[1],))) for op in ops[: step + 1])
            ivs = sorted(set(fam.initvars) & set(fs))
            if ivs and not named:
                self.violation("fields_set-contains-initvar", ops, step, {"created_by": ops[0][0]}, observed=sorted(fs), initvars=ivs)
        if st.U:
            env.count("abstain:unspecified-membership", len(st.U))
        missing = sorted(n for n in st.S - st.U if n not in obs)
        extra = sorted(n for n in obs if n not in st.S and n not in st.U)
        if missing or extra:
            self.violation("fields_set-mismatch", ops, step,
                           {"missing": sorted({fam.field_kind(n) for n in missing}), "extra": sorted({fam.field_kind(n) for n in extra})},
                           expected=sorted(st.S), unspecified=sorted(st.U), observed=sorted(fs))
        if len(obs) < len(fam.names):
            env.count("nonempty_unset_observed")
        if not full:
            return obs
        # is_set
        try:
            view = self.is_set(obj)
            bad = [n for n in fam.names if bool(getattr(view, n)) != (n in fs)]
        except Exception as e:
            self.violation("exception", ops, step, {"exc": type(e).__name__, "observer": "is_set"}, message=str(e)[:300])
            bad = []
        env.count("is_set_checks")
        if bad:
            self.violation("is_set-mismatch", ops, step, fields=bad, observed=sorted(fs))
        self.check_serialize(obj, obs, ops, step)
        return obs

    def check_serialize(self, obj, obs, ops, step):
        env, fam = self.env, self.fam
        for mode, kw, want in (("default", {}, [n for n in fam.names if n in obs]), ("all", {"exclude_unset": False}, list(fam.names)),
                               ("explicit", {"exclude_unset": True}, [n for n in fam.names if n in obs])):
            if mode == "explicit" and step != len(ops) - 1:
                continue
            o = harness.call(self.serialize, fam.T, obj, **kw)
            env.count("serialize_default_checks" if mode != "all" else "serialize_all_checks")
            if o.kind != "ok":
                self.violation("serialize-exception", ops, step, {"exc": o.exc or "ValidationError", "mode": mode}, outcome=o.brief())
                continue
            out = o.value
            want_keys = {fam.alias[n] for n in want}
            if not isinstance(out, dict) or set(out) != want_keys:
                got = set(out) if isinstance(out, dict) else set()
                self.violation("serialize-exclude_unset-mismatch", ops, step,
                               {"mode": mode, "missing": bool(want_keys - got), "extra": bool(got - want_keys)},
                               expected_keys=sorted(want_keys), observed=out, fields_set=sorted(obs))
                continue
            bad = [n for n in want if out[fam.alias[n]] != getattr(obj, n)]
            if bad:
                self.violation("serialize-wrong-value", ops, step, {"mode": mode}, fields=bad, observed=out)

    def check_nested(self, obj, obs, ops):
        """the same instance inside a list and inside an undecorated wrapper dataclass"""
        from typing import List

        env, fam = self.env, self.fam
        want = {fam.alias[n] for n in fam.names if n in obs}
        full = {fam.alias[n] for n in fam.names}
        for label, tp, val, pick in (("list", List[fam.T], [obj], lambda r: r[0]), ("wrapper", fam.W, fam.W(obj), lambda r: r["item"])):
            for kw, exp in (({}, want), ({"exclude_unset": False}, full)):
                o = harness.call(self.serialize, tp, val, **kw)
                env.count("nested_serialize_checks")
                if o.kind != "ok":
                    self.violation("serialize-exception", ops, len(ops) - 1, {"exc": o.exc or "ValidationError", "mode": "nested-" + label}, outcome=o.brief())
                    continue
                got = pick(o.value)
                if set(got) != exp:
                    self.violation("serialize-exclude_unset-mismatch", ops, len(ops) - 1,
                                   {"mode": "nested-" + label + ("-all" if kw else ""), "missing": bool(exp - set(got)), "extra": bool(set(got) - exp)},
                                   expected_keys=sorted(exp), observed=o.value)
                if label == "wrapper" and set(o.value) != {"item", "n"}:
                    self.violation("serialize-exclude_unset-mismatch", ops, len(ops) - 1, {"mode": "undecorated-wrapper-own-fields"}, observed=o.value)

    def check_nested_deser(self, op, st, ops):
        """the same data deserialized as an item of a list and as a field of an undecorated wrapper dataclass"""
        from typing import List

        env, fam = self.env, self.fam
        data = {fam.alias[n]: self.val(n) for n in op[1]}
        for label, tp, datum, pick in (("list", List[fam.T], [data], lambda r: r[0]), ("wrapper", fam.W, {"item": data}, lambda r: r.item)):
            o = harness.call(self.deserialize, tp, datum)
            env.count("nested_deserialize_checks")
            if o.kind != "ok":
                self.violation("exception", ops, 0, {"exc": o.exc or "ValidationError", "observer": "nested-deserialize-" + label}, outcome=o.brief())
                continue
            fs, ok = self.observe_set(pick(o.value))
            obs = set(fs) & set(fam.names) if ok else None
            if obs is None or obs != st.S:
                self.violation("fields_set-mismatch", ops, 0, {"nested": label, "missing": sorted({fam.field_kind(n) for n in st.S - (obs or set())}),
                                                               "extra": sorted({fam.field_kind(n) for n in (obs or set()) - st.S})},
                               expected=sorted(st.S), observed=repr(fs))

    def check_untracked(self, obj, ops, step):
        """never decorated class: exclude_unset has no effect (docs note)"""
        env, fam = self.env, self.fam
        full = {fam.alias[n] for n in fam.names}
        for kw in ({}, {"exclude_unset": True}, {"exclude_unset": False}):
            o = harness.call(self.serialize, fam.T, obj, **kw)
            env.count("undecorated_class_checks")
            if o.kind != "ok" or set(o.value) != full:
                self.violation("undecorated-class-serialize", ops, step, {"exc": o.exc, "exclude_unset": kw.get("exclude_unset", "default")},
                               outcome=o.brief(), expected_keys=sorted(full))

    # ---- a whole history
    def run(self, ops, check_from=0):
        env, fam = self.env, self.fam
        cur, st, olds = None, None, []
        for step, op in enumerate(ops):
            k = op[0]
            env.count("op:" + ("set_overwrite" if k == "set" and op[2] else k))
            try:
                if k in ("ctor", "deser"):
                    if cur is not None and fam.tracked:
                        olds.append((cur, st))
                    cur = self.real_create(op)
                    st = model_create(fam, op[1]) if fam.tracked else None
                    if st is not None and k == "deser" and len(ops) == 1:
                        self.check_nested_deser(op, st, ops)
                    if st is None and fam.tracked:
                        fs, ok = self.observe_set(cur)
                        env.count("abstain:constructor-of-undecorated-subclass")
                        st = MState(set(fs) & set(fam.names) if ok else ())
                elif k == "replace":
                    new, kw = self.real_replace(cur, op[1])
                    bad = [n for n in fam.names if (getattr(new, n) != kw[n] if n in kw else (fam.by_name[n].kind == "n" and getattr(new, n) != getattr(cur, n)))]
                    if bad or new is cur:
                        self.violation("replace-wrong-values", ops, step, fields=bad)
                    if fam.tracked:
                        olds.append((cur, st))
                        st = model_replace(fam, st, op[1])
                    cur = new
                else:
                    self.real_apply(cur, op)
                    if fam.tracked:
                        model_apply(fam, st, op)
            except Exception as e:
                self.violation("exception", ops, step, {"exc": type(e).__name__}, message=str(e)[:300], site=harness._site(e))
                return
            if step < check_from:
                continue
            env.count("steps_checked")
            if not fam.tracked:
                self.check_untracked(cur, ops, step)
                continue
            obs = self.check(cur, st, ops, step)
            if obs is None:
                return
            for old, ost in olds:
                env.count("old_instance_checks")
                self.check(old, ost, ops, step, full=False)
        if fam.tracked and cur is not None:
            fs, ok = self.observe_set(cur)
            if ok:
                self.check_nested(cur, set(fs) & set(fam.names), ops)
        env.count("histories")
        if self.override:
            env.count("override_constructors_histories")
        env.case(fam.fid, self.override, ops, nontrivial=len(ops) > 1 or len(ops[0][1]) < len(fam.params))


# --------------------------------------------------------------------------------------------------------------


def enumerate_histories(fam, max_len):
    cr, mu = creators(fam), mutators(fam)
    for c in cr:
        yield (c,)
    for n in range(1, max_len):
        for c in cr:
            for seq in itertools.product(mu, repeat=n):
                yield (c,) + seq


def random_history(rng, fam, max_len):
    cr, mu = creators(fam), mutators(fam)
    ops = [rng.choice(cr)]
    for _ in range(rng.randint(2, max_len - 1)):
        ops.append(rng.choice(cr) if rng.random() < 0.15 else rng.choice(mu))
    return tuple(ops)


def check_global_setting(env, fam):
    """settings.serialization.exclude_unset = False makes the default emit everything; the parameter still wins"""
    from apischema import serialize, settings

    if not fam.tracked or not fam.ctor_exact:
        return
    req = [p.name for p in fam.params if p.req]
    obj = fam.T(**{n: 1 for n in req})
    want = {fam.alias[n] for n in fam.names if n in req or n in fam.always}
    full = {fam.alias[n] for n in fam.names}
    old = settings.serialization.exclude_unset
    try:
        settings.serialization.exclude_unset = False
        for kw, exp in (({}, full), ({"exclude_unset": True}, want), ({"exclude_unset": False}, full)):
            o = harness.call(serialize, fam.T, obj, **kw)
            env.count("global_setting_checks")
            if o.kind != "ok" or set(o.value) != exp:
                env.violation({"kind": "serialize-exclude_unset-mismatch", "family": fam.fid, "mode": "settings.serialization.exclude_unset=False", "param": kw.get("exclude_unset", "default")},
                              {"source": fam.source, "expected_keys": sorted(exp), "outcome": o.brief()})
    finally:
        settings.serialization.exclude_unset = old
        harness.reset_all()


def over_budget(env):
    """CPU-time guard (robust against a loaded machine) + the framework's wall-clock guard"""
    return time.process_time() > CPU_CAP[env.tier] or env.out_of_time()


def run(env):
    from apischema import settings

    harness.tag_errors(False)
    fams = [Family(fid, specs).load() for fid, specs in families().items()]
    max_len = 3 if env.quick() else 4
    idx = 0
    saved = settings.deserialization.override_dataclass_constructors
    try:
        for override in (False, True):
            settings.deserialization.override_dataclass_constructors = override
            harness.reset_all()
            for fam in fams:
                runner = Runner(env, fam, override)
                if not override and env.shard == 0:
                    env.count("families")
                    env.count("alphabet_creators", len(creators(fam)))
                    env.count("alphabet_mutators", len(mutators(fam)))
                for ops in enumerate_histories(fam, max_len):
                    if override and ops[0][0] != "deser":
                        continue
                    if override and len(ops) > 3:
                        continue
                    idx += 1
                    if idx % env.nshards != env.shard:
                        continue
                    if over_budget(env):
                        env.notes.append("budget guard reached during the exhaustive part")
                        env.count("exhaustive_truncated")
                        break
                    # every proper prefix is a history of its own: longer histories check their last two steps only
                    runner.run(ops, check_from=max(0, len(ops) - 2))
                    env.count("exhaustive_histories")
                    if len(env.samples) < 2 and len(ops) == 3 and idx % 977 == 0:
                        env.sample({"family": fam.fid, "ops": json.loads(json.dumps(ops))})
            # random long histories
            n = env.n(6000, 120000) // (2 if not override else 4)
            for j in range(n):
                if over_budget(env):
                    env.notes.append("budget guard reached during the random part")
                    break
                fam = env.rng.choice(fams)
                ops = random_history(env.rng, fam, 8)
                if override and not any(o[0] == "deser" for o in ops):
                    continue
                Runner(env, fam, override).run(ops)
                env.count("random_histories")
    finally:
        settings.deserialization.override_dataclass_constructors = saved
        harness.reset_all()
    for fam in fams:
        check_global_setting(env, fam)


def finish_coverage(cov, counters, tier):
    cov["exhaustive"] = counters.get("exhaustive_truncated", 0) == 0
    cov["exhaustive_subspace"] = (f"all histories creator x mutator^k, k <= {2 if tier == 'quick' else 3}, over the {counters.get('families', 0)} class families "
                                  "(creators: every subset of optional init parameters by constructor and by deserialize + positional calls); "
                                  "with override_dataclass_constructors=True: the deserialize-created ones with k <= 2")


def replay(env, rep):
    w = rep["witness"]
    fid = w["family"]
    fam = Family(fid, families()[fid]).load()
    from apischema import settings

    saved = settings.deserialization.override_dataclass_constructors
    try:
        settings.deserialization.override_dataclass_constructors = bool(w.get("override_dataclass_constructors"))
        harness.reset_all()
        ops = tuple(tuple(tuple(x) if isinstance(x, list) else x for x in o) for o in w.get("ops") or [])
        if ops:
            Runner(env, fam, bool(w.get("override_dataclass_constructors"))).run(ops)
        else:
            check_global_setting(env, fam)
    finally:
        settings.deserialization.override_dataclass_constructors = saved
        harness.reset_all()
    print(json.dumps(rep["features"]))
