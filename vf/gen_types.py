"""Generators of TypeSpecs: seeded random (deep, recursive) and bounded-exhaustive (small)."""
import itertools

from vf.spec import (STD, Ann, AnyT, Coll, EnumT, F, Lit, MapT, NewT, ObjectT, Prim, Ref, Std, SubPrim, T, TVar, Tup, Union_, opt, strip)

PRIMS = ["none", "bool", "int", "float", "str"]
NUM_CONS = [{"min": 0}, {"max": 10}, {"exc_min": 0}, {"exc_max": 10}, {"mult_of": 3}, {"min": 1, "max": 5}, {"min": 0, "mult_of": 2}]
STR_CONS = [{"min_len": 1}, {"max_len": 3}, {"pattern": "^a"}, {"pattern": "^[a-z]+$"}, {"min_len": 2, "max_len": 4}, {"pattern": "^\\d{2}"}]
ARR_CONS = [{"min_items": 1}, {"max_items": 2}, {"unique": True}, {"min_items": 1, "max_items": 3}, {"min_items": 2, "unique": True}]
OBJ_CONS = [{"min_props": 1}, {"max_props": 2}, {"min_props": 1, "max_props": 3}]
# second-level constraints (no pattern: two patterns cannot be merged)
NUM_CONS2 = [{"exc_min": 0}, {"exc_max": 10}, {"min": 0}, {"max": 10}, {"min": 2}, {"max": 4}, {"max": 20}, {"min": -5}, {"exc_min": 1}, {"exc_max": 3}, {"mult_of": 2}, {"min": 0, "max": 3}]
STR_CONS2 = [{"min_len": 2}, {"max_len": 10}, {"max_len": 2}, {"min_len": 0}, {"min_len": 1, "max_len": 3}]
ARR_CONS2 = [{"min_items": 2}, {"max_items": 1}, {"max_items": 5}, {"unique": True}, {"min_items": 0}]
OBJ_CONS2 = [{"min_props": 2}, {"max_props": 1}, {"max_props": 5}]
KEY_PATTERNS = ["^x-", "^k_"]
DEFAULTS = {"none": ["None"], "bool": ["False", "True"], "int": ["0", "7"], "float": ["0.5", "2.0"], "str": ["''", "'dflt'"]}


class Gen:
    def __init__(self, rng, max_depth=4, feats=None, recursion=True, std=False, pattern_overlap=False):
        # pattern_overlap: a regular field may be named like the keys of a properties(pattern) field ("properties not mapped on
        # regular fields" go to the pattern field: deserialization-side rule; the generated schema applies both, so the
        # schema-side checks leave it off)
        self.pattern_overlap = pattern_overlap
        self.std = std  # also draw standard-library converted types (UUID, date, ...)
        self.rng = rng
        self.max_depth = max_depth
        self.n = 0
        self.feats = feats  # None = everything; else a set of allowed feature names
        self.recursion = recursion

    def on(self, feat, p=0.5):
        return (self.feats is None or feat in self.feats) and self.rng.random() < p

    def fresh(self, prefix):
        self.n += 1
        return f"{prefix}{self.n}"

    # ---- atoms
    def prim(self, kinds=PRIMS):
        return Prim(self.rng.choice(kinds))

    def literal(self, str_only=False):
        r = self.rng
        pool = [["a", "b"], ["x"], ["a", "b", "c"], [""]] if str_only else [["a", "b"], [1, 2], ["a", 1], [0, "x", 2], [True, "t"], [5], ["on", "off", "auto"], [0], [False], [""], [1, True], [0, False, "a"], [True, 1, "x"]]
        return Lit(list(r.choice(pool)))

    def enum(self, str_only=False):
        r = self.rng
        pool = [([("A", "a"), ("B", "b")], None), ([("A", "a"), ("B", "b")], "str")] if str_only else [
            ([("A", "a"), ("B", "b")], None), ([("ONE", 1), ("TWO", 2)], None), ([("ONE", 1), ("TWO", 2)], "int"),
            ([("A", "a"), ("B", "b")], "str"), ([("X", "x"), ("N", 3)], None)]
        members, mixin = r.choice(pool)
        return EnumT(self.fresh("E"), list(members), mixin)

    def strlike(self):
        r = self.rng.random()
        if r < 0.55:
            return Prim("str")
        if r < 0.65:
            return NewT(self.fresh("NS"), Prim("str"))
        if r < 0.8:
            return self.literal(str_only=True)
        if r < 0.9:
            return self.enum(str_only=True)
        return Ann(Prim("str"), self.rng.choice([{"pattern": "^a"}, {"min_len": 1}, {"max_len": 3}]))

    def hashable(self, depth):
        r = self.rng.random()
        if r < 0.5 or depth >= self.max_depth:
            return self.prim(["bool", "int", "float", "str", "int", "str"])
        if r < 0.6:
            return self.literal()
        if r < 0.7:
            return self.enum()
        if r < 0.8:
            return Tup([self.hashable(depth + 1) for _ in range(self.rng.randint(1, 2))])
        if r < 0.87:
            return Coll("frozenset", self.hashable(depth + 1))
        if r < 0.93:
            return Coll("vartuple", self.hashable(depth + 1))
        return NewT(self.fresh("N"), self.prim(["int", "str"]))

    def constrained(self, depth, scope):
        t = self.constrained1(depth, scope)
        r = self.rng
        if isinstance(t, Ann) and not isinstance(strip(t), Union_) and not isinstance(t.t, AnyT) and r.random() < 0.18:
            # a second level of constraints on the same type (nested Annotated): both apply
            b = strip(t)
            pool = NUM_CONS2 if isinstance(b, Prim) and b.p in ("int", "float") else STR_CONS2 if isinstance(b, Prim) and b.p == "str" else ARR_CONS2 if isinstance(b, Coll) else OBJ_CONS2 if isinstance(b, MapT) else None
            if pool:
                outer = dict(r.choice(pool))
                if isinstance(b, Coll) and b.c in ("set", "frozenset"):
                    outer.pop("unique", None)
                if outer:
                    return Ann(t, outer)
        return t

    def constrained1(self, depth, scope):
        r = self.rng
        k = r.random()
        if k < 0.35:
            return Ann(Prim(r.choice(["int", "float", "int"])), dict(r.choice(NUM_CONS)))
        if k < 0.6:
            return Ann(Prim("str"), dict(r.choice(STR_CONS)))
        if k < 0.8:
            c = r.choice(["list", "seq", "vartuple", "set", "frozenset"])
            cons = dict(r.choice(ARR_CONS))
            e = self.hashable(depth + 1) if c in ("set", "frozenset") else self.type(depth + 1, scope)
            if c in ("set", "frozenset"):
                cons.pop("unique", None)
                if not cons:
                    cons = {"min_items": 1}
            return Ann(Coll(c, e), cons)
        if k < 0.86:
            return Ann(MapT("dict", self.strlike(), self.type(depth + 1, scope)), dict(r.choice(OBJ_CONS)))
        if k < 0.95:
            # constraints attached to a multi-type union: they apply to each alternative, by the JSON type of the datum
            pool = [Prim("int"), Prim("str"), Prim("float"), Coll("list", Prim("int")), Prim("bool"), MapT("dict", Prim("str"), Prim("int")), Prim("none")]
            alts = r.sample(pool[:-1], r.choice([2, 2, 3]))
            if any(isinstance(a, Prim) and a.p == "float" for a in alts):
                alts = [a for a in alts if not (isinstance(a, Prim) and a.p == "int")] or alts
            if r.random() < 0.3:
                alts.append(Prim("none"))
            cons = {}
            for a in alts:
                if isinstance(a, Prim) and a.p in ("int", "float"):
                    cons.update(r.choice(NUM_CONS[:4]))
                elif isinstance(a, Prim) and a.p == "str":
                    cons.update(r.choice(STR_CONS[:2] + STR_CONS[4:5]))
                elif isinstance(a, Coll):
                    cons.update(r.choice(ARR_CONS[:2]))
                elif isinstance(a, MapT):
                    cons.update(r.choice(OBJ_CONS))
            if len(alts) >= 2 and cons:
                return Ann(Union_(alts), cons)
        return Ann(AnyT(), dict(r.choice(NUM_CONS + STR_CONS + ARR_CONS)))

    def union(self, depth, scope, n=None):
        r = self.rng
        n = n or r.choice([2, 2, 3, 4])
        alts, sigs = [], set()
        for _ in range(n * 3):
            a = self.type(depth + 1, scope, no_union=True)
            sg = a.sig()  # a NewType and its supertype are distinct alternatives
            if sg in sigs or (isinstance(a, Prim) and a.p == "none"):
                continue
            sigs.add(sg)
            alts.append(a)
            if len(alts) == n:
                break
        if r.random() < 0.3:
            alts.append(Prim("none"))
        if len(alts) < 2:
            return opt(Prim("int"))
        return Union_(alts)

    # ---- general
    def type(self, depth=0, scope=(), no_union=False) -> T:
        r = self.rng
        if depth >= self.max_depth:
            return self.prim()
        k = r.random()
        if self.std and r.random() < 0.12:
            return Std(r.choice(sorted(STD)))
        if k < 0.27:
            return self.prim()
        if k < 0.30:
            return AnyT()
        if k < 0.42:
            c = r.choice(["list", "list", "seq", "coll", "mutseq", "blist", "vartuple"] + (["deque", "deque"] if self.std else []))
            return Coll(c, self.type(depth + 1, scope))
        if k < 0.47:
            return Coll(r.choice(["set", "absset", "frozenset", "mutset"]), self.hashable(depth + 1))
        if k < 0.53:
            return Tup([self.type(depth + 1, scope) for _ in range(r.choice([1, 1, 2, 2, 3]))])
        if k < 0.60:
            return MapT(r.choice(["dict", "mapping", "bdict"]), self.strlike(), self.type(depth + 1, scope))
        if k < 0.64:
            return self.literal()
        if k < 0.68:
            return self.enum()
        if k < 0.71:
            inner = self.type(depth + 1, (), no_union=True)  # no forward reference inside NewType
            if isinstance(inner, Prim) and inner.p == "none":
                inner = Prim("int")  # NewType over None is not a sensible program
            return NewT(self.fresh("N"), inner)
        if k < 0.73:
            return SubPrim(self.fresh("SP"), r.choice(["str", "int", "float"]))
        if k < 0.80:
            return self.constrained(depth, scope)
        if k < 0.90:
            if no_union:
                return self.prim()
            if r.random() < 0.5:
                inner = self.type(depth + 1, scope, no_union=True)
                return opt(inner) if not (isinstance(strip(inner), Prim) and strip(inner).p == "none") else opt(Prim("int"))
            return self.union(depth, scope)
        if scope and self.recursion and r.random() < 0.25:
            return self._rec_ref(scope)
        return self.object(depth, scope)

    def _rec_ref(self, scope):
        r = self.rng
        ref = Ref(r.choice(scope))
        if r.random() < 0.25:
            ref = Ann(ref, dict(r.choice(OBJ_CONS)))  # constraints attached to the recursive reference itself
        k = r.random()
        if k < 0.4:
            return opt(ref)
        if k < 0.7:
            return Coll("list", ref)
        if k < 0.85:
            return MapT("dict", Prim("str"), ref)
        return opt(Coll("vartuple", ref))

    def object(self, depth=0, scope=(), kind=None, nfields=None, allow_flatten=True, allow_aggregates=True) -> ObjectT:
        r = self.rng
        kind = kind or r.choice(["dataclass", "dataclass", "dataclass", "namedtuple", "typeddict"])
        name = self.fresh({"dataclass": "D", "namedtuple": "NT", "typeddict": "TD"}[kind])
        scope2 = (*scope, name) if kind == "dataclass" or True else scope
        n = nfields if nfields is not None else r.choice([0, 1, 2, 2, 3, 3, 4, 5])
        fields = []
        has_additional = False
        used_patterns = set()
        for _ in range(n):
            fname = self.fresh("f")
            f = F(fname, Prim("int"))
            k = r.random()
            agg = kind == "dataclass" and depth + 1 < self.max_depth
            agg_props = agg and allow_aggregates  # a flattened object receives nothing for its own properties fields
            if agg and allow_flatten and k < 0.08 and self.on("flatten", 1):
                f.t = self.object(depth + 1, scope2, kind="dataclass", allow_flatten=r.random() < 0.3, allow_aggregates=False)
                f.flatten = True
                if r.random() < 0.2:
                    f.factory = None  # required flattened
            elif agg_props and k < 0.13 and self.on("pattern", 1) and len(used_patterns) < len(KEY_PATTERNS):
                pat = r.choice([p for p in KEY_PATTERNS if p not in used_patterns])
                used_patterns.add(pat)
                f.t = MapT(r.choice(["dict", "mapping"]), Prim("str"), self.type(depth + 2, scope2))
                f.pattern = pat
                if r.random() < 0.6:
                    f.factory = "dict"
            elif agg_props and k < 0.17 and not has_additional and self.on("additional", 1):
                has_additional = True
                f.t = MapT(r.choice(["dict", "mapping"]), Prim("str"), self.type(depth + 2, scope2))
                f.additional = True
                if r.random() < 0.6:
                    f.factory = "dict"
            else:
                f.t = self.type(depth + 1, scope2)
                self._field_features(f, kind)
            fields.append(f)
        if kind in ("dataclass", "namedtuple"):
            # required first (initvar / init=False do not matter for namedtuple since they are never set there)
            fields.sort(key=lambda f: (f.has_default and not f.init_false) * 1)
        o = ObjectT(kind, name, fields)
        if kind == "typeddict":
            o.total = r.random() < 0.6
        if self.on("class_aliaser", 0.1):
            o.class_aliaser = r.choice(["upper", "prefix"])
        if kind == "dataclass" and self.on("frozen", 0.1):
            o.frozen = True
        if kind == "dataclass" and self.on("generic", 0.1) and not o.frozen and not any(isinstance(n, Ref) for f in o.fields for n in f.t.walk()):
            # (a forward reference to a generic class names its unspecialised form: recursion is kept out of generic classes)
            cands = [f for f in o.fields if not f.aggregate and not f.initvar and f.default is None and f.factory is None and not f.undefined and not f.none_as_undefined
                     and not any(isinstance(n, Ref) for n in f.t.walk())]
            for f in r.sample(cands, min(len(cands), r.choice([1, 1, 2]))):
                tv = TVar(self.fresh("TV"), f.t)
                f.t = r.choice([tv, tv, Coll("list", tv), opt(tv)]) if not isinstance(strip(f.t), Prim) or strip(f.t).p != "none" else tv
        if kind == "dataclass" and self.on("methods", 0.2):
            for _ in range(r.choice([1, 1, 2])):
                mk = r.random()
                m = {"name": self.fresh("m"), "alias": None, "prop": r.random() < 0.3}
                if mk < 0.35:
                    m.update(ret=Prim("int"), expr=r.choice(["1", "len(repr(self)) * 0 + 7"]))
                elif mk < 0.55:
                    m.update(ret=Prim("str"), expr="'m'")
                elif mk < 0.75:
                    m.update(ret=opt(Prim("int")), expr=r.choice(["None", "3"]))
                elif mk < 0.9:
                    m.update(ret=Prim("int"), expr=r.choice(["Undefined", "5"]), undefined=True)
                else:
                    m.update(ret=Coll("list", Prim("str")), expr="['x', 'y']")
                if self.recursion and r.random() < 0.15:
                    # a method returning the class itself: the type is recursive only through its serialized method
                    m.update(ret=r.choice([Coll("list", Ref(name)), opt(Ref(name))]), expr=None, undefined=False)
                    m["expr"] = "[]" if isinstance(m["ret"], Coll) else "None"
                if r.random() < 0.3:
                    m["alias"] = m["name"] + "Alias"
                o.methods.append(m)
        if kind == "dataclass" and self.on("fields_set", 0.12) and not o.frozen:
            o.fields_set = True
            for f in o.fields:
                if f.has_default and not f.aggregate and r.random() < 0.2:
                    f.default_as_set = True
        if kind == "dataclass" and self.on("dep_req", 0.12):
            normal = [f for f in fields if not f.aggregate and not f.skip_deser and not f.init_false and f.has_default and not f.required_md and not f.initvar]
            if len(normal) >= 2:
                a, b = r.sample(normal, 2)
                o.dep_req = {a.name: [b.name]}
                if len(normal) >= 3 and r.random() < 0.2:
                    x, y, z = r.sample(normal, 3)
                    o.dep_req = {x.name: [y.name, z.name]}
                    o.dep_req_split = ({x.name: [y.name]}, {x.name: [z.name]})
                elif r.random() < 0.35:
                    grp = [f.name for f in r.sample(normal, min(len(normal), r.choice([2, 2, 3])))]
                    o.dep_req = {x: [y for y in grp if y != x] for x in grp}
                    o.dep_req_groups = [grp]
        if self.pattern_overlap and kind == "dataclass" and r.random() < 0.4:
            pats = [f.pattern for f in o.fields if f.pattern is not None]
            plain = [f for f in o.fields if not f.aggregate and f.alias is None and not f.initvar and not f.init_false]
            if pats and plain:
                f = r.choice(plain)
                f.alias = r.choice(pats).lstrip("^") + f.name  # matches the pattern, but belongs to the regular field
        if kind == "dataclass" and len(o.fields) >= 2 and not o.tvars() and not any(f.initvar for f in o.fields) and r.random() < 0.12:
            o.inherit = r.randint(1, len(o.fields) - 1)  # leading fields declared in a base dataclass
            if o.fields_set:
                o.fs_on_base = r.random() < 0.5
        elif kind == "dataclass" and o.fields and not o.tvars() and not any(f.initvar for f in o.fields) and r.random() < (0.3 if o.fields_set else 0.04):
            o.inherit, o.plain_sub, o.fs_on_base = len(o.fields), True, r.random() < 0.8  # plain subclass of a (tracking) dataclass: everything inherited
        return o

    def _field_features(self, f: F, kind):
        r = self.rng
        base = strip(f.t)
        if kind == "typeddict":
            if self.on("alias", 0.2):
                f.alias = f.name + "Alias"
            if self.on("field_cons", 0.1):
                self._field_cons(f, base)
            elif r.random() < 0.08 and self.on("undefined", 1):
                f.undefined = f.undef_nodefault = True  # key typed Union[X, UndefinedType]: Undefined only by construction, then omitted
                f.undef_annotated = r.random() < 0.35
            return
        # default?
        if r.random() < 0.5:
            self._give_default(f, base)
        if kind == "namedtuple":
            if f.factory:  # NamedTuple cannot have factories
                f.factory, f.default = None, None
            if self.on("alias", 0.2):
                f.alias = f.name + "Alias"
            if self.on("field_cons", 0.1):
                self._field_cons(f, base)
            return
        if self.on("alias", 0.25):
            f.alias = r.choice([f.name + "Alias", f.name.upper(), "$" + f.name, "class_" + f.name[1:], f.name + "-x"])
            if self.on("alias_no_override", 0.2):
                f.alias_override = False
        if self.on("field_cons", 0.12):
            self._field_cons(f, base)
        if f.has_default and not f.undefined:
            k2 = r.random()
            if k2 < 0.08 and self.on("ser_default", 1):
                f.ser_default = True
            elif k2 < 0.16 and self.on("ser_if", 1):
                f.ser_if = r.choice(["vf_is_falsy", "vf_is_negative"])
        if f.has_default:
            k = r.random()
            if k < 0.08 and self.on("required_md", 1):
                f.required_md = True
            elif k < 0.14 and self.on("skip", 1):
                f.skip_deser = True
                f.skip_ser = r.random() < 0.5
            elif k < 0.20 and self.on("init_false", 1):
                f.init_false = True
            elif k < 0.28 and self.on("fbod", 1):
                f.fbod = True
        else:
            k = r.random()
            if k < 0.06 and self.on("initvar", 1) and not any(isinstance(n, Ref) for n in f.t.walk()):
                f.initvar = True  # (forward references inside InitVar[...] are never resolved by typing)
            elif k < 0.12 and self.on("undefined", 1):
                f.undefined = True
                f.undef_annotated = r.random() < 0.35
                if kind == "dataclass" and r.random() < 0.35:
                    f.undef_nodefault = True  # required key; the value Undefined can only be given by construction
            elif k < 0.18 and self.on("none_as_undefined", 1) and _non_none_alts(f.t) and not (isinstance(f.t, Ann) and isinstance(strip(f.t), Union_)):
                # (an Annotated union wrapped again in Optional is not flattened by typing: which None none_as_undefined removes is unclear)
                if not isinstance(f.t, Union_):
                    f.t = opt(f.t)
                elif not any(isinstance(a, Prim) and a.p == "none" for a in f.t.alts):
                    f.t = Union_([*f.t.alts, Prim("none")])
                if kind != "dataclass" or r.random() < 0.65:
                    f.default = "None"
                # else: required key; None can only be given by construction (then serialized as absent)
                f.none_as_undefined = True

    def _give_default(self, f, base):
        r = self.rng
        t = f.t
        if any(isinstance(n, Ann) for n in t.walk()):
            return  # a default must be a value of the (constrained) type: keep such fields required
        if isinstance(base, Prim):
            f.default = r.choice(DEFAULTS[base.p])
        elif isinstance(base, Coll) and base.c in ("list", "seq", "coll", "mutseq", "blist"):
            f.factory = "list"
        elif isinstance(base, Coll) and base.c in ("set", "absset", "mutset"):
            f.factory = "set"
        elif isinstance(base, MapT):
            f.factory = "dict"
        elif isinstance(base, Union_) and any(isinstance(a, Prim) and a.p == "none" for a in base.alts):
            f.default = "None"
        elif isinstance(base, Lit):
            f.default = repr(base.vals[0])
        elif isinstance(base, AnyT):
            f.default = r.choice(["None", "0", "'x'"])
        elif isinstance(base, Coll) and base.c == "vartuple":
            f.default = "()"
        elif isinstance(base, Coll) and base.c == "frozenset":
            f.default = "frozenset()"
        if isinstance(t, Ann) and f.has_default:
            # defaults are not validated; keep them anyway (they are part of the image)
            pass

    def _field_cons(self, f, base):
        r = self.rng
        t = f.t
        if f.has_default:
            return  # the default would have to satisfy the constraint
        while isinstance(t, (Ann, NewT)):  # constraints are merged: two patterns cannot be (by design)
            if isinstance(t, Ann):
                return
            t = t.t
        if isinstance(base, Prim) and base.p in ("int", "float"):
            f.cons = dict(r.choice(NUM_CONS))
        elif isinstance(base, Prim) and base.p == "str":
            f.cons = dict(r.choice(STR_CONS))
        elif isinstance(base, Coll) and base.c not in ("set", "absset", "frozenset", "mutset"):
            f.cons = dict(r.choice(ARR_CONS))
        elif isinstance(base, MapT):
            f.cons = dict(r.choice(OBJ_CONS))


def _non_none_alts(t):
    alts = t.alts if isinstance(t, Union_) else [t]
    return [a for a in alts if not (isinstance(strip(a), Prim) and strip(a).p == "none")]


# ---------------------------------------------------------------- bounded-exhaustive
def small_atoms():
    """Deterministic list of atom factories (name, builder(counter))."""
    def mk_enum(vals, mixin):
        def b(g):
            return EnumT(g.fresh("E"), list(vals), mixin)
        return b

    out = [(f"prim:{p}", (lambda p: lambda g: Prim(p))(p)) for p in PRIMS]
    out += [("any", lambda g: AnyT()),
            ("lit:str", lambda g: Lit(["a", "b"])), ("lit:int", lambda g: Lit([1, 2])), ("lit:mix", lambda g: Lit([0, "x"])),
            ("enum:str", mk_enum([("A", "a"), ("B", "b")], None)), ("enum:int", mk_enum([("ONE", 1), ("TWO", 2)], None)),
            ("enum:strmix", mk_enum([("A", "a"), ("B", "b")], "str")),
            ("new:int", lambda g: NewT(g.fresh("N"), Prim("int"))),
            ("ann:int", lambda g: Ann(Prim("int"), {"min": 1, "max": 5})), ("ann:str", lambda g: Ann(Prim("str"), {"min_len": 1, "pattern": "^a"})),
            ("ann:float", lambda g: Ann(Prim("float"), {"exc_min": 0})),
            ("obj:simple", lambda g: ObjectT("dataclass", g.fresh("D"), [F(g.fresh("f"), Prim("int")), F(g.fresh("f"), Prim("str"), default="'d'")])),
            ("obj:float", lambda g: ObjectT("dataclass", g.fresh("D"), [F(g.fresh("f"), Prim("float"))])),
            ("obj:td", lambda g: ObjectT("typeddict", g.fresh("TD"), [F(g.fresh("f"), Prim("int")), F(g.fresh("f"), Prim("str"))], total=False)),
            ("obj:nt", lambda g: ObjectT("namedtuple", g.fresh("NT"), [F(g.fresh("f"), Prim("int")), F(g.fresh("f"), Prim("bool"), default="True")])),
            ]
    return out


def small_constructors():
    def c1(name, fn, need=None):
        return (name, 1, fn, need)

    cs = [c1(f"coll:{c}", (lambda c: lambda g, a: Coll(c, a))(c)) for c in ("list", "seq", "vartuple")]
    cs += [c1(f"coll:{c}", (lambda c: lambda g, a: Coll(c, a))(c), "hashable") for c in ("set", "frozenset")]
    cs += [c1("opt", lambda g, a: opt(a), "not-none"), c1("map", lambda g, a: MapT("dict", Prim("str"), a)),
           c1("tup1", lambda g, a: Tup([a])), c1("annlist", lambda g, a: Ann(Coll("list", a), {"min_items": 1, "max_items": 2})),
           c1("field", lambda g, a: ObjectT("dataclass", g.fresh("D"), [F(g.fresh("f"), a)])),
           c1("field_alias_default", lambda g, a: ObjectT("dataclass", g.fresh("D"), [F(g.fresh("f"), Prim("int"), alias="x"), F(g.fresh("f"), opt(a) if not _is_none(a) else a, default="None")])),
           ("tup2", 2, lambda g, a, b: Tup([a, b]), None), ("union2", 2, lambda g, a, b: Union_([a, b]), "distinct"),
           ("map2", 2, lambda g, a, b: MapT("mapping", a, b), "strlike-first")]
    return cs


def _is_none(a):
    return isinstance(a, Prim) and a.p == "none"


def enumerate_small(depth2=True):
    """Yield (label, builder) for every type of constructor depth <= 2 over the small atoms.
    builder(gen) -> T; labels are stable so shards can slice the list deterministically."""
    atoms = small_atoms()
    cons = small_constructors()
    for name, b in atoms:
        yield name, b

    def ok(need, ts):
        if need == "hashable":
            return ts[0].hashable()
        if need == "not-none":
            return not _is_none(ts[0]) and not isinstance(ts[0], Union_)
        if need == "distinct":
            return strip(ts[0]).sig() != strip(ts[1]).sig() and not _is_none(ts[0]) and not any(isinstance(t, Union_) for t in ts)
        if need == "strlike-first":
            return ts[0].str_like()
        return True

    level1 = []
    for cname, ar, fn, need in cons:
        for combo in itertools.product(atoms, repeat=ar):
            label = f"{cname}({','.join(n for n, _ in combo)})"

            def build(g, fn=fn, combo=combo, need=need):
                ts = [b(g) for _, b in combo]
                if not ok(need, ts):
                    return None
                return fn(g, *ts)

            level1.append((label, build))
            yield label, build
    if depth2:
        unary = [(c, fn, need) for c, ar, fn, need in cons if ar == 1]
        for cname, fn, need in unary:
            for label1, b1 in level1:
                label = f"{cname}({label1})"

                def build2(g, fn=fn, b1=b1, need=need):
                    t1 = b1(g)
                    if t1 is None or not ok(need, [t1]):
                        return None
                    return fn(g, t1)

                yield label, build2


def directed_shapes():
    """[(label, builder(gen) -> T)]: small fixed shapes of feature interactions that the random draw reaches too rarely to rely on
    (each was the place of a stored seeded change); run in full by the schema / behaviour checks before their random programs"""
    def rec(wrap, cons, default=None, factory=None):
        def build(g):
            name = g.fresh("D")
            ref = Ann(Ref(name), dict(cons)) if cons else Ref(name)
            f = F(g.fresh("f"), wrap(ref))
            f.default, f.factory = default, factory
            return ObjectT("dataclass", name, [F(g.fresh("f"), Prim("int")), f])
        return build

    def holder(inner, default="None"):
        def build(g):
            f = F(g.fresh("f"), inner())
            f.default = default
            fields = [F(g.fresh("f"), Prim("int")), f]
            return ObjectT("dataclass", g.fresh("D"), fields if default is not None else fields[::-1][::-1])
        return build

    out = []
    for cname, cons in (("min_props1", {"min_props": 1}), ("max_props1", {"max_props": 1}), ("min_props2", {"min_props": 2}), ("none", None)):
        out.append((f"rec-opt:{cname}", rec(opt, cons, default="None")))
        out.append((f"rec-list:{cname}", rec(lambda r: Coll("list", r), cons, factory="list")))
        out.append((f"rec-dict:{cname}", rec(lambda r: MapT("dict", Prim("str"), r), cons, factory="dict")))
        out.append((f"rec-opt-list:{cname}", rec(lambda r: opt(Coll("list", r)), cons, default="None")))
    def dep_req(g):
        a, b, c = F(g.fresh("f"), Prim("int")), F(g.fresh("f"), Prim("str")), F(g.fresh("f"), opt(Prim("int")))
        a.default, b.default, c.default = "0", "''", "None"
        o = ObjectT("dataclass", g.fresh("D"), [a, b, c])
        o.dep_req = {a.name: [b.name], c.name: [a.name, b.name]}
        return o

    out.append(("dependent-required", dep_req))

    def dep_req_group(g):
        o = dep_req(g)
        names = [f.name for f in o.fields]
        o.dep_req = {x: [y for y in names if y != x] for x in names}
        o.dep_req_groups = [names]
        return o

    out.append(("dependent-required-group", dep_req_group))

    def dep_req_twice(g):
        o = dep_req(g)
        a, b, c = [f.name for f in o.fields]
        o.dep_req = {a: [b, c]}
        o.dep_req_split = ({a: [b]}, {a: [c]})
        return o

    out.append(("dependent-required-twice", dep_req_twice))
    tup = lambda: Tup([Prim("int"), Prim("str")])  # noqa: E731
    out.append(("list-of-fixed-tuples", lambda g: Coll("list", tup())))
    out.append(("dict-of-fixed-tuples", lambda g: MapT("dict", Prim("str"), tup())))
    out.append(("list-of-tuple-or-str", lambda g: Coll("list", Union_([tup(), Prim("str")]))))
    out.append(("field-of-fixed-tuples", holder(lambda: Coll("list", tup()), default=None)))
    for vals in (["a"], [1], [True], ["a", "b"], [0, ""]):
        out.append((f"opt-literal:{vals!r}", lambda g, vals=vals: opt(Lit(list(vals)))))
        out.append((f"opt-literal-field:{vals!r}", holder(lambda vals=vals: opt(Lit(list(vals))))))
        out.append((f"list-opt-literal:{vals!r}", lambda g, vals=vals: Coll("list", opt(Lit(list(vals))))))
    return out
