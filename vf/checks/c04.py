"""C04 — serialization yields the JSON image prescribed by the type.
Boundary monitor on serialize / serialization_method; oracle = reference serialization model (vf/sermodel.py) + JSON-only walker."""
import itertools
import json

from vf import gen_data, gen_types, harness
from vf.checks.c08 import ambiguous_union
from vf.sermodel import SerCtx, json_only, ser
from vf.spec import ALIASERS, ObjectT, Program, Unspecified

PROP = "C04"
SHARDS = {"quick": 8, "thorough": 16}
TIME_CAP = {"quick": 70, "thorough": 900}
REQUIRED = ["agree", "programs", "json_only_walks", "omission:undefined", "omission:none", "omission:default", "omission:condition", "omission:unset", "serialized_method_programs", "fields_set_programs", "typeless_calls", "check_type_calls", "fall_back_on_any_calls"]
# compiled-tree node classes this workload is expected to reach: reported as coverage gaps when missing, never a verdict
# (a renamed internal class must not turn into an alarm)
EXPECTED_NODES = ["node:ObjectMethod", "node:SimpleObjectMethod"]
RULE = ("C01 program space + serialized methods / properties (incl. Undefined / None results), skip(serialization_if / serialization_default), none_as_undefined, "
        "default_as_set / with_fields_set classes; values = images of model-valid data through deserialize (so every omission trigger occurs: value = default, None, Undefined, "
        "unset, condition true/false); options exclude_none x exclude_defaults x exclude_unset x additional_properties x aliaser, + check_type, fall_back_on_any, typeless serialize(v). "
        "A case = (type signature, options, value repr); distinct by hash; non-trivial when the value is an object or a container.")
ASSUMPTIONS = ["reference model (vf/sermodel.py) transcribes the statement's omission rule; key order is C16's; unions whose alternatives overlap by runtime class with different images are abstentions",
               "values are drawn from the image of deserialize, hence well-typed"]


def dumps(x):
    return json.dumps(x, sort_keys=True)


def trigger_counts(env, o, v, sx):
    """coverage evidence: which omission triggers the value exercises"""
    from vf.sermodel import is_undefined
    if not isinstance(o, ObjectT) or o.kind == "typeddict":
        return
    for f in o.fields:
        if f.skip_ser or f.initvar:
            continue
        try:
            val = getattr(v, f.name)
        except Exception:
            continue
        if is_undefined(val):
            env.count("omission:undefined")
        elif val is None and (sx.exclude_none or f.none_as_undefined):
            env.count("omission:none")
        if f.has_default and (sx.exclude_defaults or f.ser_default):
            env.count("omission:default")
        if f.ser_if:
            env.count("omission:condition")
    if o.fields_set and sx.exclude_unset:
        env.count("omission:unset")


def check_program(env, prog, label, ndata):
    from apischema import deserialization_method, serialization_method, serialize

    rng = env.rng
    t, T = prog.t, prog.T
    sig = t.sig()
    harness.reset_all()
    cxd = prog.ctx(additional_properties=True)
    od = harness.call(deserialization_method, T, additional_properties=True, no_copy=False)
    if od.kind != "ok":
        env.count("inconclusive:deserialization method failed")
        return
    valid = gen_data.valid_data(t, cxd, rng, max(3, ndata))
    values = []
    for d in valid:
        r = harness.call(od.value, d)
        if r.kind == "ok":
            values.append(r.value)
    if not values:
        return
    extra = [c for v in values[:3] for c in harness.undefined_variants(t, v)] + [c for v in values[:3] for c in harness.sequence_variants(t, v)]
    if extra:
        env.count("undefined_by_construction_values", len(extra))
        values += extra
    if any(isinstance(n, ObjectT) and n.methods for n in t.walk()):
        env.count("serialized_method_programs")
    if any(isinstance(n, ObjectT) and n.fields_set for n in t.walk()):
        env.count("fields_set_programs")
    combos = [dict(exclude_none=a, exclude_defaults=b, exclude_unset=c, additional_properties=d, aliaser=e)
              for a, b, c, d, e in itertools.product([False, True], [False, True], [True, False], [False, True], ["identity", "camel", "custom"])]
    chosen = [combos[0]] + rng.sample(combos[1:], 3 if env.quick() else 8)
    for opts in chosen:
        sx = SerCtx(objects=prog.objects, **opts)
        kw = {k: v for k, v in opts.items() if k != "aliaser"}
        if opts["aliaser"] != "identity":
            kw["aliaser"] = ALIASERS[opts["aliaser"]]
        om = harness.call(serialization_method, T, **kw)
        wit0 = {"program": prog.source, "label": label, "options": opts}
        if om.kind != "ok":
            env.violation({"kind": "compile", "exc": om.exc or "ValidationError", "site": om.site}, {**wit0, "outcome": om.brief()})
            continue
        harness.tree_classes(om.value, env.counters)
        oct_ = harness.call(serialization_method, T, check_type=True, **kw)
        ofb = harness.call(serialization_method, T, fall_back_on_any=True, **kw)
        for v in values:
            try:
                want = ser(t, v, sx)
                want_s = dumps(want)
            except Unspecified as u:
                env.count("unspecified:" + str(u))
                continue
            except RecursionError:
                continue
            real = harness.call(om.value, v)
            env.case(sig, tuple(sorted(opts.items())), harness.safe_repr(v)[:300], nontrivial=not isinstance(v, (bool, int, float, str, type(None))))
            wit = {**wit0, "value": harness.safe_repr(v)[:500], "expected": want, "observed": real.brief()}
            if real.kind != "ok":
                env.violation({"kind": "exception", "exc": real.exc or "ValidationError", "site": real.site}, wit)
                continue
            env.count("json_only_walks")
            if not json_only(real.value):
                env.violation({"kind": "non-json-output"}, wit)
                continue
            try:
                got_s = dumps(real.value)
            except Exception as e:
                env.violation({"kind": "non-json-output", "exc": type(e).__name__}, wit)
                continue
            if got_s != want_s:
                feats = {"kind": "image-differs"}
                if isinstance(real.value, dict) and isinstance(want, dict):
                    feats["missing_keys"] = len(set(want) - set(real.value)) > 0
                    feats["extra_keys"] = len(set(real.value) - set(want)) > 0
                env.violation(feats, {**wit, "observed_json": got_s[:600], "expected_json": want_s[:600]})
                continue
            env.count("agree")
            trigger_counts(env, t if isinstance(t, ObjectT) else None, v, sx)
            # check_type=True / fall_back_on_any=True change nothing on well-typed values
            for name, o2, ctr in (("check_type", oct_, "check_type_calls"), ("fall_back_on_any", ofb, "fall_back_on_any_calls")):
                if o2.kind != "ok":
                    env.violation({"kind": "compile", "variant": name, "exc": o2.exc or "ValidationError", "site": o2.site}, {**wit0, "outcome": o2.brief()})
                    continue
                r2 = harness.call(o2.value, v)
                env.count(ctr)
                try:
                    same = r2.kind == "ok" and dumps(r2.value) == got_s
                except Exception:
                    same = False
                if not same:
                    env.violation({"kind": "option-changes-well-typed-result", "option": name, "variant": r2.kind, "exc": r2.exc}, {**wit, "variant": r2.brief()})
            # serialize(v) without a type == serialize(type(v), v) for non-generic classes
            if isinstance(t, ObjectT) and t.kind == "dataclass":
                r3 = harness.call(serialize, v, **kw)
                env.count("typeless_calls")
                try:
                    same = r3.kind == "ok" and dumps(r3.value) == got_s
                except Exception:
                    same = False
                if not same:
                    env.violation({"kind": "typeless-serialize-differs", "variant": r3.kind, "exc": r3.exc}, {**wit, "typeless": r3.brief()})
    env.count("programs")


def run(env):
    harness.tag_errors(False)
    rng = env.rng
    n = env.n(3000, 60000)
    small = [b for _, b in gen_types.enumerate_small(depth2=False)]
    for j in range(n):
        if env.out_of_time():
            env.notes.append("time cap reached")
            break
        g = gen_types.Gen(rng, max_depth=rng.choice([2, 3, 4]), std=rng.random() < 0.2)
        k = rng.random()
        if k < 0.15:
            t = rng.choice(small)(g)
            if t is None:
                continue
        elif k < 0.4:
            t = g.type(0)
        else:
            t = g.object(0, kind="dataclass" if rng.random() < 0.7 else None)
        if ambiguous_union(t):
            env.count("abstain:class-ambiguous union")  # "first alternative whose class matches" may legitimately be another alternative
            continue
        prog = Program(t)
        try:
            prog.load()
        except Exception:
            env.count("program_load_failed")
            continue
        try:
            check_program(env, prog, f"random#{env.shard}.{j}", ndata=6)
            if len(env.samples) < 3 and rng.random() < 0.03:
                env.sample({"type": t.ann(), "sig": t.sig()})
        finally:
            prog.unload()


def finish_coverage(cov, counters, tier):
    cov["exhaustive"] = False


def replay(env, rep):
    from vf.replay import generic
    generic(env, rep)
