#!/bin/bash
# tools/run_examples.sh [tree] : every documentation example (examples/**/*.py, each a script full of assertions) must still run on the
# tree (default /repo).  They are not part of the pinned 283-test suite; run after each `fix:` commit: a repair that changes a documented
# behaviour fails here (this is how the first repair of F63 was found to drop `step: float = 1` defaults).
tree=${1:-/repo}
cd "$tree" || exit 3
bad=0; n=0
for f in $(find examples -name "*.py" | sort); do
  n=$((n+1))
  if ! PYTHONPATH="$tree" timeout 120 /venv/bin/python "$f" >/dev/null 2>/tmp/run_examples.err; then echo "EXAMPLE FAILS: $f"; tail -3 /tmp/run_examples.err; bad=1; fi
done
rm -f /tmp/run_examples.err
[ $bad = 0 ] && echo "all $n examples run on $tree"
exit $bad
