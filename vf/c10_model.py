"""C10 executable model of the documented run / skip / discard / merge rule (docs/validation.md + the property statement).

predict(spec, case, ...) -> Prediction for one (class, datum, outcome table) case.
case = {"status": {"a": "A|V|I"}, "fail": [validator names], "extra": None|"zz"|"<field name>"}
"""
from vf.c10_gen import (DEFAULT, INVALID, POST_INIT_DELTA, VALID, aliaser_fn, error_paths, ext_name, field_of, field_validator_names, is_initvar,
                        is_required)


def datum(spec, case):
    d = {}
    for f in spec["fields"]:
        st = case["status"][f["n"]]
        if st == "V":
            d[ext_name(spec, f["n"])] = VALID[f["n"]]
        elif st == "I":
            d[ext_name(spec, f["n"])] = INVALID
    if case.get("extra"):
        d[case["extra"]] = 0
    return d


def validator_order(spec, mode="sub-first"):
    own = [v for v in spec["validators"] if v["where"] == "own"] + [v for v in spec["validators"] if v["where"] == "ext"]
    base = [v for v in spec["validators"] if v["where"] == "base"]
    return own + base if mode == "sub-first" else base + own


def deps_of(v):
    return {fn for fn, _ in v["reads"]} | set(v.get("params") or [])


def discard_of(v):
    if v.get("discard_empty"):
        return set()  # field= with an explicit empty discard: the error goes under the field, nothing is discarded
    if v.get("discard"):
        return set(v["discard"])
    if v.get("field"):
        return {v["field"]}
    return set()


class Prediction:
    __slots__ = ("field_runs", "class_runs", "why_skipped", "errors", "structural", "ctor", "value", "bad", "provided_ok", "f16_shape",
                 "arg_validator_runs")

    def brief(self):
        return {"field_validators_run": sorted(self.field_runs), "class_validators_run": [[n, list(map(list, r))] for n, r in self.class_runs],
                "skipped": self.why_skipped, "errors": [[list(p), m] for p, m in sorted(self.errors, key=repr)], "ctor": self.ctor}


class Static:
    """everything about a spec that does not depend on the case (computed once per program)"""

    def __init__(self, spec):
        al = aliaser_fn(spec.get("aliaser"))
        self.spec = spec
        self.fields = []
        for f in spec["fields"]:
            ext = ext_name(spec, f["n"])
            fvs = []
            for name, style in zip(field_validator_names(f), list(f.get("fv") or []) + list(f.get("nt") or [])):
                fvs.append((name, [((ext,) + path, msg) for path, msg in error_paths(style, name, None, al)]))
            self.fields.append((f["n"], ext, is_required(f), fvs))
        self.post_init_fields = frozenset(f["n"] for f in spec["fields"] if f.get("post_init"))
        self.value_fields = [(f["n"], bool(f.get("post_init"))) for f in spec["fields"] if not is_initvar(f)]
        self.orders = {}
        for mode in ("sub-first", "base-first"):
            vs = []
            for v in validator_order(spec, mode):
                deps = frozenset(deps_of(v))
                disc = frozenset(discard_of(v))
                pf_alias = (field_of(spec, v["pf"]).get("alias") or v["pf"]) if v.get("pf") else None
                prefix = (ext_name(spec, v["field"]),) if v.get("field") else ()
                errs = [(prefix + path, msg) for path, msg in error_paths(v["style"], v["n"], pf_alias, al)]
                reads = [(fn, fn in self.post_init_fields) for fn, _ in v["reads"]] + [(p, False) for p in (v.get("params") or [])]
                vs.append((v["n"], deps, disc, reads, errs, bool(disc) and not disc & deps))
            self.orders[mode] = vs
        av = spec.get("arg_validator")
        self.av_deps = frozenset(av["reads"]) if av else None


def predict(spec, case, order_mode="sub-first", post_init_skip=True, static=None) -> Prediction:
    S = static or Static(spec)
    status, fail = case["status"], set(case["fail"])
    P = Prediction()
    errors = []
    bad, provided_ok = set(), set()
    field_runs = set()
    for fn, ext, required, fvs in S.fields:
        st = status[fn]
        if st == "A":
            if required:
                bad.add(fn)
                errors.append(((ext,), "missing"))
        elif st == "I":
            bad.add(fn)
            errors.append(((ext,), "type"))
        else:
            ok = True
            for name, errs in fvs:
                field_runs.add(name)  # every function validator of a well-typed provided field value executes
                if name in fail:
                    ok = False
                    errors.extend(errs)
            if ok:
                provided_ok.add(fn)
            else:
                bad.add(fn)
    extra = case.get("extra")
    if extra:
        errors.append(((extra,), "unexpected"))
    structural = bool(errors)
    post_init_fields = S.post_init_fields
    discarded = set()
    runs, why = [], {}
    f16 = False
    for name, deps, disc, reads, errs, f16_static in S.orders[order_mode]:
        if not deps:
            why[name] = "no-deps"
        elif deps & bad:
            why[name] = "invalid-dep"
        elif deps & discarded:
            why[name] = "discarded-dep"
        elif not deps & provided_ok:
            why[name] = "all-default"
        elif structural and post_init_skip and deps & post_init_fields:
            why[name] = "post-init-dep"
        else:
            # value read: datum value if provided, else the default; None = unspecified (before or after __post_init__)
            runs.append((name, tuple((fn, None if pi else (VALID[fn] if fn in provided_ok else DEFAULT[fn])) for fn, pi in reads)))
            if name in fail:
                errors.extend(errs)
                if f16_static:
                    f16 = True  # the failing validator does not read what it discards (mechanism of F16)
                discarded |= disc
    P.field_runs, P.class_runs, P.why_skipped = field_runs, runs, why
    P.errors, P.structural = errors, structural
    P.bad, P.provided_ok, P.f16_shape = bad, provided_ok, f16
    P.ctor = 0 if errors else 1
    P.value = None
    if not errors:
        P.value = {fn: (VALID[fn] if fn in provided_ok else DEFAULT[fn]) + (POST_INIT_DELTA if pi else 0) for fn, pi in S.value_fields}
    # unregistered function validator given through the `validators=` argument: reads attributes of the object
    P.arg_validator_runs = None
    if S.av_deps is not None:
        deps = S.av_deps
        P.arg_validator_runs = bool(deps) and not deps & bad and bool(deps & provided_ok)
    return P


def relevant_validators(spec, status):
    """validators whose pass/fail outcome can matter for this field-status vector (the others are never invoked, whatever the
    discards): field-level validators of provided well-typed fields; class validators with deps all non-bad and one provided.
    Over-approximation (ignores field-validator failures making a field bad)."""
    out = []
    bad = {f["n"] for f in spec["fields"] if status[f["n"]] == "I" or (status[f["n"]] == "A" and is_required(f))}
    prov = {f["n"] for f in spec["fields"] if status[f["n"]] == "V"}
    for f in spec["fields"]:
        if status[f["n"]] == "V":
            out += field_validator_names(f)
    for v in spec["validators"]:
        d = deps_of(v)
        if d and not d & bad and d & prov:
            out.append(v["n"])
    av = spec.get("arg_validator")
    if av and not set(av["reads"]) & bad and set(av["reads"]) & prov:
        out.append(av["n"])
    return out
