"""C09 cold oracle:  python -B -m vf.c09_cold  < {"queries": [{"ops": [...], "obs": {...}}, ...], "mode": "fork"|"single"}

A *fresh interpreter* imports apischema (from $VERIF_REPO) and the pool module, and for every query replays only the
configuration operations, then performs the one observation, from the pristine post-import state:

* mode "fork" (default, batched): one forked child per query, forked from the pristine interpreter, so that no query sees
  the caches or registrations of another one;
* mode "single": exactly one query, executed in the interpreter itself without any fork (used to cross-check the
  batching: a truly fresh process per query).

Output: {"results": [canonical string | {"$crash": ...} | {"$timeout": true}, ...], "op_errors": [[...], ...]}
"""
import json
import os
import select
import signal
import sys
import time


def fork_call(fn, timeout=30.0):
    """run fn() in a forked child; -> its JSON-able result, or {"$crash": ..} / {"$timeout": True}"""
    r, w = os.pipe()
    pid = os.fork()
    if pid == 0:
        code = 0
        try:
            os.close(r)
            try:
                out = fn()
            except BaseException as e:  # noqa: BLE001
                out = {"$crash": type(e).__name__ + ": " + str(e)[:300]}
            data = json.dumps(out).encode()
            view = memoryview(data)
            while view:
                n = os.write(w, view)
                view = view[n:]
        except BaseException:  # noqa: BLE001
            code = 1
        finally:
            os._exit(code)
    os.close(w)
    chunks = []
    deadline = time.time() + timeout
    timed_out = False
    while True:
        left = deadline - time.time()
        if left <= 0:
            timed_out = True
            break
        ready, _, _ = select.select([r], [], [], left)
        if not ready:
            timed_out = True
            break
        c = os.read(r, 1 << 16)
        if not c:
            break
        chunks.append(c)
    os.close(r)
    if timed_out:
        try:
            os.kill(pid, signal.SIGKILL)
        except ProcessLookupError:
            pass
    os.waitpid(pid, 0)
    if timed_out:
        return {"$timeout": True}
    try:
        return json.loads(b"".join(chunks))
    except ValueError:
        return {"$crash": "no result from child"}


def answer(pool, q):
    errs = [pool.apply_safe(op) for op in q["ops"]]
    return [pool.observe(q["obs"]), [e for e in errs if e]]


def main():
    req = json.load(sys.stdin)
    from vf import bootstrap

    bootstrap.init()
    from vf import c09_pool as pool

    results, op_errors = [], []
    if req.get("mode") == "single":
        assert len(req["queries"]) == 1
        res, errs = answer(pool, req["queries"][0])
        results.append(res)
        op_errors.append(errs)
    else:
        for q in req["queries"]:
            out = fork_call(lambda q=q: answer(pool, q))
            if isinstance(out, list):
                results.append(out[0])
                op_errors.append(out[1])
            else:
                results.append(out)
                op_errors.append([])
    json.dump({"results": results, "op_errors": op_errors}, sys.stdout)
    return 0


if __name__ == "__main__":
    sys.exit(main())
