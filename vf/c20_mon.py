"""C20 helper: monitors attached from the harness (no source hooks).

* `Monitor` replaces `apischema.recursion.recursion_cache` by a wrapper returning a `MonDict` (dict subclass that
  performs write + log atomically under the monitor lock, remembers the writer thread and notes every
  True -> False overwrite), wraps `apischema.recursion.is_recursive` (who is inside an analysis-needing call) and
  `RecursiveChecker.visit_with_conv` (who is inside a checker).  Nothing it observes is a verdict by itself.
* `Injector` registers a sys.monitoring LINE callback restricted (set_local_events) to the code objects of
  recursion.py, cache.py, RecMethod.deserialize/serialize, LazyConversion and the method factories; per-thread
  policies: count only / park at the k-th event / random yields.
"""
import sys
import threading
import time
import types

TOOL = 4


class MonDict(dict):
    __slots__ = ("mon", "direction", "reads")

    def __init__(self, mon, direction):
        super().__init__()
        self.mon, self.direction, self.reads = mon, direction, 0

    def __contains__(self, key):
        self.reads += 1  # evidence counter only (reads shadow nothing)
        return dict.__contains__(self, key)

    def __setitem__(self, key, value):
        mon = self.mon
        with mon.lock:
            old = dict.get(self, key, None)
            dict.__setitem__(self, key, value)
            mon._log(self.direction, key, old, value)

    def update(self, *a, **kw):
        other = dict(*a, **kw)
        mon = self.mon
        with mon.lock:  # one atomic merge (this is what a "private dict merged atomically" patch would call)
            for key, value in other.items():
                old = dict.get(self, key, None)
                dict.__setitem__(self, key, value)
                mon._log(self.direction, key, old, value)

    def __ior__(self, other):
        self.update(other)
        return self

    def setdefault(self, key, default=None):
        mon = self.mon
        with mon.lock:
            if dict.__contains__(self, key):
                return dict.__getitem__(self, key)
            dict.__setitem__(self, key, default)
            mon._log(self.direction, key, None, default)
            return default

    def __delitem__(self, key):
        mon = self.mon
        with mon.lock:
            old = dict.get(self, key, None)
            dict.__delitem__(self, key)
            mon._log(self.direction, key, old, "deleted")

    def pop(self, key, *default):
        mon = self.mon
        with mon.lock:
            old = dict.get(self, key, None)
            res = dict.pop(self, key, *default)
            if old is not None:
                mon._log(self.direction, key, old, "deleted")
            return res


class Monitor:
    def __init__(self):
        self.lock = threading.Lock()
        self.latest = {}  # checker class -> MonDict created last for it
        self.created = 0
        self.rc = None
        self.checker_classes = []
        self.installed = False
        self.clear()
        self.totals = {"writes": 0, "nonmono": 0, "is_recursive_calls": 0, "analysis_needed": 0, "checker_runs": 0,
                       "overlap_in_analysis": 0, "overlap_in_checker": 0, "resets": 0}

    def clear(self):
        """start of one observation window (one cluster / one schedule)"""
        self.writes = []  # (thread id, direction, key, old, new)
        self.nonmono = []
        self.active = {}  # thread id -> key   (inside is_recursive, key absent from the dict at entry)
        self.in_checker = set()
        self.window = {"overlap_in_analysis": 0, "overlap_in_checker": 0, "analysis_needed": 0, "is_recursive_calls": 0, "checker_runs": 0}
        self.per_thread_isrec = {}

    # called with self.lock held
    def _log(self, direction, key, old, new):
        tid = threading.get_ident()
        self.writes.append((tid, direction, key, old, new))
        self.totals["writes"] += 1
        if old is True and new is not True:
            self.nonmono.append((tid, direction, key, old, new))
            self.totals["nonmono"] += 1

    def _bump(self, name, n=1):
        self.window[name] += n
        self.totals[name] += n

    def install(self):
        from apischema import cache as acache
        from apischema import recursion

        if self.installed:
            return True
        try:
            orig_rc = recursion.recursion_cache
            orig_isrec = recursion.is_recursive
            checker_base = recursion.RecursiveChecker
        except AttributeError:
            return False
        mon = self

        # Faithful substitution: the tree's own caching primitive and function body are kept (an lru_cache around a function
        # that returns a new dict: two threads missing at the same time get two different dicts, only one is kept);
        # only the class of the returned dict changes.  A wrapper with a lock of its own would hide that race.
        inner = getattr(orig_rc, "__wrapped__", None)
        if inner is None or not hasattr(orig_rc, "cache_info"):
            return False
        import functools

        def factory(checker_cls):
            content = inner(checker_cls)
            d = MonDict(mon, "deser" if "Deser" in checker_cls.__name__ else "ser")
            if content:
                dict.update(d, content)
            with mon.lock:
                mon.latest[checker_cls] = d
                mon.created += 1
            return d

        recursion_cache = functools.lru_cache(maxsize=orig_rc.cache_info().maxsize)(factory)
        lru_clear = recursion_cache.cache_clear

        def cache_clear():
            with mon.lock:
                mon.latest.clear()
                mon.totals["resets"] += 1
            lru_clear()

        recursion_cache.cache_clear = cache_clear
        recursion_cache.__wrapped__ = inner
        recursion.recursion_cache = recursion_cache
        self.rc = recursion_cache
        self.checker_classes = [c for c in _all_subclasses(checker_base)]
        if orig_rc in acache._cached:
            acache._cached[acache._cached.index(orig_rc)] = recursion_cache
        else:
            acache._cached.append(recursion_cache)

        def is_recursive(tp, conversion, default_conversion, checker_cls):
            tid = threading.get_ident()
            with mon.lock:
                d = mon.latest.get(checker_cls)
                need = d is None or not dict.__contains__(d, (tp, conversion))
                mon._bump("is_recursive_calls")
                mon.per_thread_isrec[tid] = mon.per_thread_isrec.get(tid, 0) + 1
                nested = tid in mon.active
                if need and not nested:
                    mon.active[tid] = (tp, conversion)
                    mon._bump("analysis_needed")
                    if len(mon.active) >= 2:
                        mon._bump("overlap_in_analysis")
            try:
                return orig_isrec(tp, conversion, default_conversion, checker_cls)
            finally:
                if need and not nested:
                    with mon.lock:
                        mon.active.pop(tid, None)

        for attr in ("cache_clear", "cache_info", "__wrapped__"):
            if hasattr(orig_isrec, attr):
                setattr(is_recursive, attr, getattr(orig_isrec, attr))
        recursion.is_recursive = is_recursive

        orig_vwc = checker_base.visit_with_conv

        def visit_with_conv(self, tp, conversion):
            depth = self.__dict__.get("_vf_depth", 0)
            self.__dict__["_vf_depth"] = depth + 1
            tid = threading.get_ident()
            if depth == 0:
                with mon.lock:
                    mon.in_checker.add(tid)
                    mon._bump("checker_runs")
                    if len(mon.in_checker) >= 2:
                        mon._bump("overlap_in_checker")
            try:
                return orig_vwc(self, tp, conversion)
            finally:
                self.__dict__["_vf_depth"] = depth
                if depth == 0:
                    with mon.lock:
                        mon.in_checker.discard(tid)

        checker_base.visit_with_conv = visit_with_conv
        self.installed = True
        return True

    def dict_for(self, direction):
        """the dictionary currently kept by the (lru-cached) recursion_cache for that direction"""
        for c in self.checker_classes:
            if ("Deser" in c.__name__) == (direction == "deser") and c.__name__ != "RecursiveChecker":
                d = self.rc(c)
                if isinstance(d, MonDict):
                    return d
        return None


def _all_subclasses(cls):
    out, stack = [], [cls]
    while stack:
        c = stack.pop()
        for s in c.__subclasses__():
            if s not in out:
                out.append(s)
                stack.append(s)
    return [c for c in out if not c.__subclasses__()]


# ------------------------------------------------------------------------------------------ LINE injector
def _code_objects(obj, acc, seen):
    """all code objects reachable from a function / class / code object (nested functions, lambdas, comprehensions)"""
    if id(obj) in seen:
        return
    seen.add(id(obj))
    if isinstance(obj, types.CodeType):
        acc.append(obj)
        for c in obj.co_consts:
            if isinstance(c, types.CodeType):
                _code_objects(c, acc, seen)
        return
    for attr in ("__wrapped__", "__func__", "fget"):
        inner = getattr(obj, attr, None)
        if inner is not None and inner is not obj:
            _code_objects(inner, acc, seen)
    code = getattr(obj, "__code__", None)
    if isinstance(code, types.CodeType):
        _code_objects(code, acc, seen)
    if isinstance(obj, type):
        for v in list(vars(obj).values()):
            if isinstance(v, (types.FunctionType, staticmethod, classmethod, property)) or hasattr(v, "__wrapped__"):
                _code_objects(v, acc, seen)


def hook_codes():
    """code objects that receive LINE events; names missing after a refactoring just shrink the set (counted)"""
    import importlib

    acc, seen, missing = [], set(), []
    for modname in ("apischema.recursion", "apischema.cache"):
        try:
            mod = importlib.import_module(modname)
        except Exception:
            missing.append(modname)
            continue
        fn = getattr(mod, "__file__", None)
        for v in list(vars(mod).values()):
            if isinstance(v, type) and v.__module__ == modname:
                _code_objects(v, acc, seen)
            elif callable(v) and getattr(getattr(v, "__wrapped__", v), "__module__", None) == modname:
                _code_objects(v, acc, seen)
        del fn
    named = [("apischema.deserialization.methods", "RecMethod"), ("apischema.serialization.methods", "RecMethod"),
             ("apischema.conversions.conversions", "LazyConversion"),
             ("apischema.deserialization", "deserialization_method_factory"), ("apischema.deserialization", "DeserializationMethodFactory"),
             ("apischema.serialization", "serialization_method_factory"),
             ("apischema.validation.dependencies", "find_all_dependencies"), ("apischema.objects.getters", "object_fields"),
             ("apischema.validation.validators", "get_validators"), ("apischema.conversions.converters", "default_deserialization"),
             ("apischema.conversions.converters", "default_serialization"), ("apischema.serialization.serialized_methods", "get_serialized_methods"),
             ("apischema.type_names", "get_type_name")]
    for modname, attr in named:
        try:
            obj = getattr(importlib.import_module(modname), attr)
        except Exception:
            missing.append(f"{modname}.{attr}")
            continue
        _code_objects(obj, acc, seen)
    for modname, cls, meth in [("apischema.deserialization", "DeserializationMethodVisitor", "_recursive_result"),
                               ("apischema.serialization", "SerializationMethodVisitor", "_recursive_result")]:
        try:
            obj = getattr(getattr(importlib.import_module(modname), cls), meth)
        except Exception:
            missing.append(f"{modname}.{cls}.{meth}")
            continue
        _code_objects(obj, acc, seen)
    # keep only apischema code (wrappers installed by Monitor live in this file)
    acc = [c for c in acc if "/apischema/" in c.co_filename]
    return acc, missing


class Policy:
    """per-thread policy evaluated at every hook event"""

    def __init__(self, kind="count", rng=None, p=0.0, sched=None, role=None, first_n=2):
        self.kind, self.rng, self.p, self.sched, self.role, self.first_n = kind, rng, p, sched, role, first_n
        self.sites = {}
        self.p_lazy = 0.5
        self.events = 0
        self.yields = 0
        self.last = None
        self.trace = []


class Injector:
    def __init__(self):
        self.tls = threading.local()
        self.codes, self.missing = hook_codes()
        self.enabled = False
        self.files = sorted({c.co_filename.split("/apischema/")[-1] for c in self.codes})

    def enable(self):
        mon = sys.monitoring
        if self.enabled:
            return
        mon.use_tool_id(TOOL, "vf-c20")
        mon.register_callback(TOOL, mon.events.LINE, self._cb)
        for c in self.codes:
            mon.set_local_events(TOOL, c, mon.events.LINE)
        self.enabled = True

    def disable(self):
        mon = sys.monitoring
        if not self.enabled:
            return
        for c in self.codes:
            mon.set_local_events(TOOL, c, 0)
        mon.register_callback(TOOL, mon.events.LINE, None)
        mon.free_tool_id(TOOL)
        self.enabled = False

    def set_policy(self, pol):
        self.tls.pol = pol

    def _cb(self, code, line):
        pol = getattr(self.tls, "pol", None)
        if pol is None:
            return
        pol.events += 1
        kind = pol.kind
        if kind == "count":
            return
        if kind == "trace":
            pol.trace.append((code.co_qualname, line))
            return
        if kind == "yield":
            # the first occurrences of a hook site in this thread are the first-use points: always give way there (a real,
            # short sleep); afterwards a seeded coin decides (sleep(0) = release the GIL)
            site = (code, line)
            n = pol.sites.get(site, 0)
            pol.sites[site] = n + 1
            if n < pol.first_n:
                pol.yields += 1
                time.sleep(pol.rng.choice((0.0, 5e-5, 2e-4)))
            elif pol.rng.random() < (pol.p if code.co_filename.endswith("recursion.py") else pol.p_lazy):
                # lines of the lazily initialised shared state outside the analysis (memo getters, RecMethod, LazyConversion,
                # factories) are few: give way at every second one, so that threads step through them almost line by line
                pol.yields += 1
                time.sleep(0)
            return
        if kind == "sched":
            pol.last = (code.co_qualname, line)
            pol.sched.on_event(pol, code, line)


class Schedule:
    """two threads A and B.  A is parked at its k-th hook event; B then runs to completion (j is None) or to its
    j-th hook event, then A is resumed (and B, if parked, resumes when A has finished).  Every wait is bounded by
    "the other thread finished" and by stall detection (the other thread is blocked, e.g. on a lock held by the
    parked one): a stall only changes the schedule, it is never a verdict."""

    def __init__(self, k, j):
        self.k, self.j = k, j
        self.cv = threading.Condition()
        self.a_parked = self.a_resume = self.a_done = False
        self.b_parked = self.b_resume = self.b_done = False
        self.park_site = None
        self.b_site = None
        self.stalls = 0

    def on_event(self, pol, code, line):
        if pol.role == "A":
            if pol.events == self.k and not self.a_parked:
                with self.cv:
                    self.a_parked = True
                    self.park_site = [code.co_qualname, line]
                    self.cv.notify_all()
                    while not (self.a_resume or self.b_done):
                        self.cv.wait(0.05)
        else:
            if self.j is not None and pol.events == self.j and not self.b_parked:
                with self.cv:
                    self.b_parked = True
                    self.b_site = [code.co_qualname, line]
                    self.a_resume = True
                    self.cv.notify_all()
                    while not (self.b_resume or self.a_done):
                        self.cv.wait(0.05)

    def done(self, role):
        with self.cv:
            if role == "A":
                self.a_done = True
            else:
                self.b_done = True
                self.a_resume = True
            self.cv.notify_all()

    def wait_a_parked_or_done(self):
        with self.cv:
            while not (self.a_parked or self.a_done):
                self.cv.wait(0.05)

    def supervise(self, ta, tb, hang_after=60.0):
        """main thread: stall detection while one thread is parked and the other one should be running"""
        t0 = time.time()
        last = {}
        same = {}
        while ta.is_alive() or tb.is_alive():
            (ta if ta.is_alive() else tb).join(0.001)
            if not ta.is_alive() and not tb.is_alive():
                break
            frames = sys._current_frames()
            with self.cv:
                a_waiting = self.a_parked and not (self.a_resume or self.b_done)
                b_waiting = self.b_parked and not (self.b_resume or self.a_done)
            for waiting, runner, flag in ((a_waiting, tb, "a_resume"), (b_waiting, ta, "b_resume")):
                if not waiting or not runner.is_alive():
                    continue
                f = frames.get(runner.ident)
                pos = (id(f), f.f_lasti) if f is not None else None
                if pos is not None and last.get(runner.ident) == pos:
                    same[runner.ident] = same.get(runner.ident, 0) + 1
                else:
                    same[runner.ident] = 0
                last[runner.ident] = pos
                if same[runner.ident] >= 3:
                    with self.cv:
                        setattr(self, flag, True)
                        self.stalls += 1
                        self.cv.notify_all()
                    same[runner.ident] = 0
            del frames
            if time.time() - t0 > hang_after:
                return False
        return True
