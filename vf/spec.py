"""TypeSpec: the "program" space.  Each node knows
  * how to print itself as Python source (annotation + class declarations),
  * the *reference model* of deserialization written from the documented data model
    (never from apischema's method tree): deser(d, cx) -> Ok(canon) | Err([(loc, kind)]),
    raising Unspecified where statement and docs are silent,
  * how to generate data that is valid by that model, and the atoms relevant to it.

Canonical values ("typed images") are (runtime-class-name, payload) pairs so that 1, 1.0 and
True, list and tuple, dict and object are all distinct.
"""
import math
import re
from dataclasses import dataclass, field as dfield
from typing import Any, Dict, List, Optional, Tuple


class Unspecified(Exception):
    """The oracle abstains (counted per reason, never alarmed)."""


class Ok:
    __slots__ = ("v",)

    def __init__(self, v):
        self.v = v


class Err:
    __slots__ = ("errs",)

    def __init__(self, errs):
        self.errs = errs  # list of (loc tuple, kind)


def prefix(errs, key):
    """errors are (loc, kind, exp): exp names the construct expected at loc (witness features only)"""
    return [((key, *loc), kind, exp) for loc, kind, exp in errs]


# ---------------------------------------------------------------- canonical images
def canon(v, depth=0):
    """Canonical image of a real Python value returned by apischema."""
    import dataclasses
    import enum

    if depth > 200:
        raise Unspecified("too deep")
    t = type(v)
    if v is None:
        return ("NoneType", None)
    if isinstance(v, enum.Enum):
        return (t.__name__, ("member", v.name))
    if t is float:
        return ("float", "nan" if v != v else v)
    if t in (bool, int, str, bytes):
        return (t.__name__, v)
    if isinstance(v, (bool, int, float, str)):  # sub-primitives
        return (t.__name__, "nan" if isinstance(v, float) and v != v else v)
    if t.__name__ == "deque" and t.__module__ == "collections":
        return ("deque", tuple(canon(e, depth + 1) for e in v))
    if t in (list, tuple) or (isinstance(v, (list, tuple)) and not hasattr(v, "_fields")):
        return (t.__name__, tuple(canon(e, depth + 1) for e in v))
    if hasattr(v, "_fields") and isinstance(v, tuple):  # NamedTuple
        return (t.__name__, tuple(sorted((n, canon(getattr(v, n), depth + 1)) for n in v._fields)))
    if isinstance(v, (set, frozenset)):
        return (t.__name__, frozenset(canon(e, depth + 1) for e in v))
    if isinstance(v, dict):
        return (t.__name__, tuple(sorted(((canon(k, depth + 1), canon(x, depth + 1)) for k, x in v.items()), key=repr)))
    if dataclasses.is_dataclass(v):
        return (t.__name__, tuple(sorted((f.name, canon(getattr(v, f.name, ("<unset>",)), depth + 1)) for f in dataclasses.fields(v))))
    return (t.__name__, ("repr", repr(v)))


def canon_json(d):
    """Canonical image of a JSON-like datum left untouched (Any positions)."""
    return canon(d)


def pykey(c):
    """A hashable Python value that reproduces Python's ==/hash on the value imaged by c
    (1 == 1.0 == True) -- used to detect cross-type collisions in sets / dict keys."""
    name, p = c
    if name in ("int", "float", "bool", "str", "NoneType"):
        return p
    if isinstance(p, tuple) and name in ("tuple",):
        return tuple(pykey(e) for e in p)
    if isinstance(p, frozenset):
        return frozenset(pykey(e) for e in p)
    return c


def jtype(d):
    """JSON type name of a datum, or None when it is not exactly a JSON class."""
    return {type(None): "null", bool: "boolean", int: "integer", float: "number", str: "string", list: "array", dict: "object"}.get(type(d))


# ---------------------------------------------------------------- context
def ident(s):
    return s


def camel(s):
    pascal = "".join(w.capitalize() or "_" for w in s.split("_"))
    return s[0] + pascal[1:] if s else s


def kebab_x(s):
    return "q-" + s.replace("_", "-")  # must not collide with the key patterns used for properties fields (^x-, ^k_)


ALIASERS = {"identity": ident, "camel": camel, "custom": kebab_x}
CLASS_ALIASERS = {"upper": lambda s: s.upper(), "prefix": lambda s: "p_" + s}


@dataclass
class Ctx:
    additional_properties: bool = False
    aliaser: str = "identity"
    fall_back_on_default: bool = False
    coerce: bool = False
    objects: Dict[str, "ObjectT"] = dfield(default_factory=dict)
    budget: int = 3000  # node budget of one data generation (reset by gen_data.valid_data)

    def spend(self, n=1):
        self.budget -= n
        if self.budget < 0:
            raise Unspecified("generation budget exhausted")

    def al(self, s):
        return ALIASERS[self.aliaser](s)


# ---------------------------------------------------------------- coercion table (C14)
STR_TO_BOOL = {"0": False, "1": True, "f": False, "t": True, "n": False, "y": True, "no": False, "yes": True,
               "false": False, "true": True, "off": False, "on": True, "ko": False, "ok": True}


def coerce_prim(kind, d):
    """Documented coercion of a primitive datum to another primitive; returns (True, value) or (False, None).
    Only consulted when the strict rule rejected d."""
    t = type(d)
    if kind == "none":
        return (True, None) if d == "" and t is str else (False, None)
    if t not in (bool, int, float, str):
        return False, None
    if kind == "bool":
        if t is str:
            return (True, STR_TO_BOOL[d.lower()]) if d.lower() in STR_TO_BOOL else (False, None)
        if t is int:
            return True, bool(d)
        return False, None
    if kind == "float" and t is bool:
        raise Unspecified("bool where float is expected under coercion")
    if kind in ("int", "str") and t is bool:
        return False, None
    if kind in ("int", "float"):
        try:
            return True, (int if kind == "int" else float)(d)
        except (ValueError, OverflowError):
            return False, None
    if kind == "str":
        if t in (int, float):
            return True, str(d)
        return False, None
    return False, None


# ---------------------------------------------------------------- nodes
class T:
    named = None  # name of the class / NewType this node declares, if any

    def ann(self) -> str:
        raise NotImplementedError

    def collect(self, decls: Dict[str, str]):
        for c in self.children():
            c.collect(decls)

    def children(self) -> List["T"]:
        return []

    def deser(self, d, cx: Ctx):
        raise NotImplementedError

    def valid(self, rng, cx: Ctx, depth=0):
        raise NotImplementedError

    def atoms(self, out: set, cx: Ctx):
        for c in self.children():
            c.atoms(out, cx)

    def sig(self) -> str:
        raise NotImplementedError

    def walk(self):
        yield self
        for c in self.children():
            yield from c.walk()

    def hashable(self) -> bool:
        return False

    def str_like(self) -> bool:  # usable as mapping key
        return False

    def to_json(self):
        d = {"k": type(self).__name__}
        for k, v in vars(self).items():
            d[k] = _tj(v)
        return d


def _tj(v):
    if isinstance(v, T):
        return v.to_json()
    if isinstance(v, F):
        return {k: _tj(x) for k, x in vars(v).items() if x not in (None, False, [], {}) or k == "name"}
    if isinstance(v, (list, tuple)):
        return [_tj(x) for x in v]
    if isinstance(v, dict):
        return {str(k): _tj(x) for k, x in v.items()}
    return v


@dataclass
class Prim(T):
    p: str  # none bool int float str

    def ann(self):
        return {"none": "NoneType", "bool": "bool", "int": "int", "float": "float", "str": "str"}[self.p]

    def sig(self):
        return self.p

    def hashable(self):
        return True

    def str_like(self):
        return self.p == "str"

    def deser(self, d, cx):
        p, t = self.p, type(d)
        if jtype(d) is None:
            raise Unspecified("non-JSON datum")
        if p == "none":
            ok, v = d is None, ("NoneType", None)
        elif p == "bool":
            ok, v = t is bool, ("bool", d)
        elif p == "int":
            ok, v = t is int, ("int", d)
        elif p == "str":
            ok, v = t is str, ("str", d)
        else:
            if t is int:
                if abs(d) > 2**1000:
                    raise Unspecified("int beyond float range")
                ok, v = True, ("float", float(d))
            else:
                ok = t is float
                v = ("float", "nan" if ok and d != d else d)
        if ok:
            return Ok(v)
        if cx.coerce:
            try:
                ok, cv = coerce_prim(p, d)
            except Unspecified:
                raise
            except Exception:
                raise Unspecified("coercion of exotic value")
            if ok:
                return Ok(canon(cv))
        return Err([((), "type", p)])

    def valid(self, rng, cx, depth=0):
        p = self.p
        if p == "none":
            return None
        if p == "bool":
            return rng.random() < 0.5
        if p == "int":
            return rng.choice([0, 1, -1, 2, 3, 7, 10, 42, -5, 100, 2**40])
        if p == "float":
            return rng.choice([0.5, -1.5, 2.25, 1, 0, 3, 1e10, -0.0, 10])
        return rng.choice(["", "a", "b", "ab", "abc", "1", "true", "x-y", "é", "hello world"])

    def atoms(self, out, cx):
        pass


@dataclass
class AnyT(T):
    def ann(self):
        return "Any"

    def sig(self):
        return "any"

    def deser(self, d, cx):
        if jtype(d) is None:
            raise Unspecified("non-JSON datum")
        return Ok(canon_json(d))

    def valid(self, rng, cx, depth=0):
        return rng.choice([None, True, 0, 1.5, "a", [], {}, [1, "a"], {"k": [None]}])


COLL = {  # annotation, image class, is-set
    "list": ("List[{}]", "list", False), "seq": ("Sequence[{}]", "list", False), "coll": ("Collection[{}]", "list", False),
    "mutseq": ("MutableSequence[{}]", "list", False), "blist": ("list[{}]", "list", False),
    "set": ("Set[{}]", "set", True), "absset": ("AbstractSet[{}]", "set", True), "mutset": ("MutableSet[{}]", "set", True),
    "frozenset": ("FrozenSet[{}]", "frozenset", True), "vartuple": ("Tuple[{}, ...]", "tuple", False),
    "deque": ("Deque[{}]", "deque", False),  # standard-library conversion list <-> deque
}


@dataclass
class Coll(T):
    c: str
    e: T

    def ann(self):
        return COLL[self.c][0].format(self.e.ann())

    def children(self):
        return [self.e]

    def sig(self):
        return f"{self.c}<{self.e.sig()}>"

    def hashable(self):
        return self.c in ("frozenset", "vartuple") and self.e.hashable()

    def deser(self, d, cx):
        if type(d) is not list:
            if jtype(d) is None:
                raise Unspecified("non-JSON datum")
            return Err([((), "type", "array")])
        errs, vals = [], []
        for i, x in enumerate(d):
            r = self.e.deser(x, cx)
            if isinstance(r, Ok):
                vals.append(r.v)
            else:
                errs += prefix(r.errs, i)
        if errs:
            return Err(errs)
        _, img, is_set = COLL[self.c]
        if is_set:
            s = frozenset(vals)
            if has_choice(tuple(vals)):
                raise Unspecified("union image choice inside a set")
            if len({pykey(v) for v in s}) != len(s):
                raise Unspecified("set elements equal across bool/int/float")
            return Ok((img, s))
        return Ok((img, tuple(vals)))

    def valid(self, rng, cx, depth=0):
        n = rng.choice([0, 1, 2, 3]) if depth < 4 else 0
        cx.spend(n + 1)
        out = []
        for _ in range(n):
            out.append(self.e.valid(rng, cx, depth + 1))
        return out


@dataclass
class Tup(T):
    es: List[T]

    def ann(self):
        return "Tuple[{}]".format(", ".join(e.ann() for e in self.es) if self.es else "()")

    def children(self):
        return list(self.es)

    def sig(self):
        return "tuple<{}>".format(",".join(e.sig() for e in self.es))

    def hashable(self):
        return all(e.hashable() for e in self.es)

    def deser(self, d, cx):
        if type(d) is not list:
            if jtype(d) is None:
                raise Unspecified("non-JSON datum")
            return Err([((), "type", "tuple")])
        if len(d) != len(self.es):
            return Err([((), "min_items" if len(d) < len(self.es) else "max_items", "tuple")])
        errs, vals = [], []
        for i, (e, x) in enumerate(zip(self.es, d)):
            r = e.deser(x, cx)
            if isinstance(r, Ok):
                vals.append(r.v)
            else:
                errs += prefix(r.errs, i)
        return Err(errs) if errs else Ok(("tuple", tuple(vals)))

    def valid(self, rng, cx, depth=0):
        return [e.valid(rng, cx, depth + 1) for e in self.es]


@dataclass
class MapT(T):
    c: str  # dict | mapping | bdict
    k: T
    v: T

    def ann(self):
        return {"dict": "Dict[{}, {}]", "mapping": "Mapping[{}, {}]", "bdict": "dict[{}, {}]", "mutmap": "MutableMapping[{}, {}]"}[self.c].format(self.k.ann(), self.v.ann())

    def children(self):
        return [self.k, self.v]

    def sig(self):
        return f"{self.c}<{self.k.sig()},{self.v.sig()}>"

    def deser(self, d, cx):
        if type(d) is not dict:
            if jtype(d) is None:
                raise Unspecified("non-JSON datum")
            return Err([((), "type", "mapping")])
        errs, items = [], []
        for key, x in d.items():
            if type(key) is not str:
                raise Unspecified("non-string key")
            rk = self.k.deser(key, cx)
            rv = self.v.deser(x, cx)
            if isinstance(rk, Err):
                errs += prefix(rk.errs, key)
            if isinstance(rv, Err):
                errs += prefix(rv.errs, key)
            if isinstance(rk, Ok) and isinstance(rv, Ok):
                items.append((rk.v, rv.v))
        if errs:
            return Err(errs)
        if has_choice(tuple(k for k, _ in items)):
            raise Unspecified("union image choice in a mapping key")
        if len({pykey(k) for k, _ in items}) != len(items):
            raise Unspecified("mapping keys collide after deserialization")
        return Ok(("dict", tuple(sorted(items, key=repr))))

    def valid(self, rng, cx, depth=0):
        n = rng.choice([0, 1, 2, 3]) if depth < 4 else 0
        cx.spend(n + 1)
        out = {}
        for _ in range(n):
            k = self.k.valid(rng, cx, depth + 1)
            if type(k) is str:
                out[k] = self.v.valid(rng, cx, depth + 1)
        return out


@dataclass
class Lit(T):
    vals: List[Any]  # str / int / bool

    def ann(self):
        return "Literal[{}]".format(", ".join(map(repr, self.vals)))

    def sig(self):
        return "lit" + repr(self.vals)

    def hashable(self):
        return True

    def str_like(self):
        return all(type(v) is str for v in self.vals)

    def deser(self, d, cx):
        return lit_deser(d, [(v, canon(v)) for v in self.vals], cx)

    def valid(self, rng, cx, depth=0):
        return rng.choice(self.vals)

    def atoms(self, out, cx):
        for v in self.vals:
            out.add(v)
            out.add(near_miss(v))


def near_miss(v):
    if type(v) is str:
        return v + "_"
    if type(v) is bool:
        return int(v)
    if type(v) is int:
        return v + 100
    return None


def lit_deser(d, pairs, cx):
    """pairs: (json value, image). Match by JSON type and value."""
    jt = jtype(d)
    if jt is None:
        raise Unspecified("non-JSON datum")
    for v, img in pairs:
        if type(v) is type(d) and v == d:
            return Ok(img)
    if jt == "number" and any(type(v) is int and v == d for v, _ in pairs):
        raise Unspecified("integer-valued float for an integer literal")
    if cx.coerce and type(d) in (bool, int, float, str):
        # documented coercion: convert the datum to the primitive class of a declared value
        kinds = []
        for v, _ in pairs:
            k = {bool: "bool", int: "int", float: "float", str: "str", type(None): "none"}[type(v)]
            if k not in kinds:
                kinds.append(k)
        hits = []
        for k in kinds:
            ok, cv = coerce_prim(k, d) if not _strict_ok(k, d) else (True, d)
            if ok:
                for v, img in pairs:
                    if type(v) is type(cv) and v == cv:
                        hits.append(img)
        if hits:
            if len({repr(h) for h in hits}) > 1:
                raise Unspecified("coercion of a literal is ambiguous")
            return Ok(hits[0])
    return Err([((), "one_of", "literal")])


def _strict_ok(kind, d):
    return {"bool": bool, "int": int, "float": float, "str": str, "none": type(None)}[kind] is type(d)


@dataclass
class EnumT(T):
    name: str
    members: List[Tuple[str, Any]]
    mixin: Optional[str] = None  # "str" | "int" | None

    @property
    def named(self):
        return self.name

    def ann(self):
        return self.name

    def collect(self, decls):
        if self.name not in decls:
            base = f"{self.mixin}, Enum" if self.mixin else "Enum"
            body = "\n".join(f"    {n} = {v!r}" for n, v in self.members)
            decls[self.name] = f"class {self.name}({base}):\n{body}\n"

    def sig(self):
        return f"enum{[v for _, v in self.members]!r}{self.mixin or ''}"

    def hashable(self):
        return True

    def str_like(self):
        return all(type(v) is str for _, v in self.members)

    def deser(self, d, cx):
        return lit_deser(d, [(v, (self.name, ("member", n))) for n, v in self.members], cx)

    def valid(self, rng, cx, depth=0):
        return rng.choice(self.members)[1]

    def atoms(self, out, cx):
        for _, v in self.members:
            out.add(v)
            out.add(near_miss(v))


@dataclass
class NewT(T):
    name: str
    t: T

    @property
    def named(self):
        return self.name

    def ann(self):
        return self.name

    def children(self):
        return [self.t]

    def collect(self, decls):
        self.t.collect(decls)
        if self.name not in decls:
            decls[self.name] = f"{self.name} = NewType({self.name!r}, {self.t.ann()})\n"

    def sig(self):
        return f"new<{self.t.sig()}>"

    def hashable(self):
        return self.t.hashable()

    def str_like(self):
        return self.t.str_like()

    def deser(self, d, cx):
        return self.t.deser(d, cx)

    def valid(self, rng, cx, depth=0):
        return self.t.valid(rng, cx, depth)


@dataclass
class SubPrim(T):
    name: str
    base: str  # str | int | float

    @property
    def named(self):
        return self.name

    def ann(self):
        return self.name

    def collect(self, decls):
        decls.setdefault(self.name, f"class {self.name}({self.base}):\n    pass\n")

    def sig(self):
        return f"sub<{self.base}>"

    def hashable(self):
        return True

    def str_like(self):
        return self.base == "str"

    def deser(self, d, cx):
        r = Prim(self.base).deser(d, cx)
        if isinstance(r, Ok):
            return Ok((self.name, r.v[1]))
        return r

    def valid(self, rng, cx, depth=0):
        return Prim(self.base).valid(rng, cx, depth)


STD = {
    # name: (annotation, json kind, valid witnesses, invalid witnesses)
    "uuid": ("UUID", "str", ["12345678-1234-5678-1234-567812345678", "00000000-0000-0000-0000-000000000000"], ["zz", "1234"]),
    "date": ("date", "str", ["2020-01-31", "1999-12-01"], ["2020-13-01", "yesterday"]),
    "datetime": ("datetime", "str", ["2020-01-31T12:30:00", "1999-12-01T00:00:00+00:00", "2020-01-31T12:30:00.000123", "2021-06-30T23:59:59+05:30"], ["2020-01-31T25:00:00", "now"]),
    "time": ("time", "str", ["12:30:00", "00:00:01", "23:59:59.000500"], ["25:00:00", "noon"]),
    "decimal": ("Decimal", "num", [1.5, 2, -0.25, 1e-07, 123456789.125], []),
    "bytes": ("bytes", "str", ["YWJj", "", "AAAA", "+/+/", "/w==", "+/8=", "YQ=="], []),
    "path": ("Path", "str", ["/tmp/x", "a/b", "rel"], []),
    "ipv4": ("IPv4Address", "str", ["127.0.0.1", "10.0.0.255"], ["256.1.1.1", "localhost"]),
    "ipv6": ("IPv6Address", "str", ["::1", "fe80::1"], ["::zz", "1"]),
    "pattern": ("re.Pattern", "str", ["^a+$", "x|y"], ["(", "[a", "a{99999999999999999999}"]),
}


def _std_parse(kind, d):
    import datetime as dt
    import decimal
    import ipaddress
    import pathlib
    import re as _re
    import uuid
    from base64 import b64decode
    return {"uuid": uuid.UUID, "date": dt.date.fromisoformat, "datetime": dt.datetime.fromisoformat, "time": dt.time.fromisoformat,
            "decimal": decimal.Decimal, "bytes": b64decode, "path": pathlib.Path, "ipv4": ipaddress.IPv4Address, "ipv6": ipaddress.IPv6Address,
            "pattern": _re.compile}[kind](d)


@dataclass
class Std(T):
    """standard-library type handled by apischema's default conversions"""
    s: str

    def ann(self):
        return STD[self.s][0]

    def sig(self):
        return "std:" + self.s

    def hashable(self):
        return self.s not in ("pattern",)

    def deser(self, d, cx):
        if jtype(d) is None:
            raise Unspecified("non-JSON datum")
        jk = STD[self.s][1]
        ok_type = type(d) is str if jk == "str" else type(d) in (int, float)
        if not ok_type:
            if cx.coerce:
                raise Unspecified("coercion at a std-type position")
            return Err([((), "type", "std:" + self.s)])
        try:
            v = _std_parse(self.s, d)
        except Exception:
            return Err([((), "format", "std:" + self.s)])
        return Ok(canon(v))

    def valid(self, rng, cx, depth=0):
        return rng.choice(STD[self.s][2])

    def atoms(self, out, cx):
        out.update(STD[self.s][2])
        out.update(STD[self.s][3])


# constraint name -> (json types it applies to, error kind)
CONS = {
    "min": ("num", "minimum"), "max": ("num", "maximum"), "exc_min": ("num", "exclusive_minimum"),
    "exc_max": ("num", "exclusive_maximum"), "mult_of": ("num", "multiple_of"),
    "min_len": ("string", "min_length"), "max_len": ("string", "max_length"), "pattern": ("string", "pattern"),
    "min_items": ("array", "min_items"), "max_items": ("array", "max_items"), "unique": ("array", "unique_items"),
    "min_props": ("object", "min_properties"), "max_props": ("object", "max_properties"),
}


def check_constraints(d, cons: dict):
    """Constraint violations of datum d, by the JSON type of d (JSON Schema semantics)."""
    jt = jtype(d)
    errs = []
    for name, val in cons.items():
        dom, kind = CONS[name]
        if dom == "num":
            if jt not in ("integer", "number"):
                continue
            if type(d) is float and (d != d or d in (math.inf, -math.inf)):
                raise Unspecified("NaN/inf under numeric constraint")
            if name == "mult_of":
                if type(d) is float and not d.is_integer() or type(val) is float:
                    raise Unspecified("multipleOf with a float operand")
                bad = int(d) % val != 0
            else:
                bad = {"min": d < val, "max": d > val, "exc_min": d <= val, "exc_max": d >= val}[name]
        elif dom == "string":
            if jt != "string":
                continue
            bad = {"min_len": lambda: len(d) < val, "max_len": lambda: len(d) > val, "pattern": lambda: re.match(val, d) is None}[name]()
        elif dom == "array":
            if jt != "array":
                continue
            if name == "unique":
                keys = []
                try:
                    keys = [json_key(x) for x in d]
                except Unspecified:
                    raise
                bad = len(set(keys)) != len(keys)
            else:
                bad = len(d) < val if name == "min_items" else len(d) > val
        else:
            if jt != "object":
                continue
            bad = len(d) < val if name == "min_props" else len(d) > val
        if bad:
            errs.append(((), kind, "constraint"))
    return errs


def json_key(x):
    """Hashable key implementing JSON equality; abstains when two numbers of different Python
    classes are involved (1 vs 1.0 vs True is outside the common domain)."""
    t = type(x)
    if t in (bool, int, float):
        if t is float and x.is_integer():
            raise Unspecified("uniqueItems with integer-valued float")
        return (t.__name__, x)
    if t is str or x is None:
        return (t.__name__, x)
    if t is list:
        return ("list", tuple(json_key(e) for e in x))
    if t is dict:
        return ("dict", tuple(sorted((k, json_key(v)) for k, v in x.items())))
    raise Unspecified("non-JSON datum")


_STRICTER = {"min": max, "exc_min": max, "min_len": max, "min_items": max, "min_props": max,
             "max": min, "exc_max": min, "max_len": min, "max_items": min, "max_props": min, "unique": lambda a, b: a or b}


def merge_cons(a, b):
    """conjunction of two constraint sets as one set (None when it cannot be expressed: two patterns)"""
    out = dict(a)
    for k, v in b.items():
        if k not in out:
            out[k] = v
        elif k in _STRICTER:
            out[k] = _STRICTER[k](out[k], v)
        elif k == "mult_of" and isinstance(v, int) and isinstance(out[k], int):
            out[k] = out[k] * v // math.gcd(out[k], v)
        elif out[k] != v:
            return None
    return out


@dataclass
class Ann(T):
    """Annotated[t, schema(**cons)]"""
    t: T
    cons: Dict[str, Any]

    def ann(self):
        return "Annotated[{}, schema({})]".format(self.t.ann(), cons_src(self.cons))

    def children(self):
        return [self.t]

    def sig(self):
        return f"ann<{self.t.sig()}|{','.join(sorted(self.cons))}>"

    def hashable(self):
        return self.t.hashable()

    def str_like(self):
        return self.t.str_like()

    def deser(self, d, cx):
        base = strip(self.t)
        if isinstance(self.t, Ann) and not isinstance(base, Union_):
            # constraints given at two levels (nested Annotated, per-call schema= over an annotated type) all apply: one
            # merged constraint set where the stricter bound wins
            m = merge_cons(self.t.cons, self.cons)
            if m is None:
                raise Unspecified("unmergeable constraints (two patterns)")
            return Ann(self.t.t, m).deser(d, cx)
        if isinstance(base, Union_):
            # constraints on a union apply to each alternative (by the JSON type of the datum); every alternative reports its own errors
            return Union_([Ann(a, self.cons) for a in flat_alts(base)]).deser(d, cx)
        r = self.t.deser(d, cx)
        top_type_err = isinstance(r, Err) and any(loc == () and kind == "type" for loc, kind, _ in r.errs)
        if top_type_err and not isinstance(strip(self.t), (Union_, AnyT)):
            return r  # the value is not of the right JSON type: constraints are not evaluated
        d2 = d
        if cx.coerce and isinstance(r, Ok) and type(r.v[1]) in (bool, int, float, str) and r.v[0] in ("bool", "int", "float", "str") and type(d) in (bool, int, float, str):
            d2 = float("nan") if r.v == ("float", "nan") else r.v[1]  # constraints see the coerced value
        if cx.coerce and isinstance(r, Ok) and r.v == ("NoneType", None):
            d2 = None  # '' coerced to None: constraints see None
        cerrs = check_constraints(d2, self.cons)
        if isinstance(r, Ok) and not cerrs:
            return r
        return Err(cerrs + (r.errs if isinstance(r, Err) else []))

    def valid(self, rng, cx, depth=0):
        for _ in range(8):
            d = valid_under(self.t, self.cons, rng, cx, depth)  # Unspecified from below propagates (no retry)
            try:
                if isinstance(self.deser(d, cx), Ok):
                    return d
            except Unspecified:
                pass
        raise Unspecified("could not generate a valid datum under constraints")

    def atoms(self, out, cx):
        self.t.atoms(out, cx)
        for k, v in self.cons.items():
            if k in ("min", "max", "exc_min", "exc_max"):
                out.update([v, v - 1, v + 1])
            elif k == "mult_of":
                out.update([v, v * 2, v + 1])
            elif k in ("min_len", "max_len"):
                out.update(["x" * v, "x" * (v + 1), "x" * max(0, v - 1)])
            elif k == "pattern":
                out.update(PATTERN_WITNESS.get(v, ()))


PATTERN_WITNESS = {"^a": ["a", "ab", "ba", ""], "^[a-z]+$": ["abc", "a1", "", "ABC"], "^\\d{2}": ["12", "123", "1", "a12"], "^x-": ["x-a", "x", "ax-"], "^k_": ["k_a", "k_", "ak_"]}


def cons_src(cons):
    return ", ".join(f"{k}={v!r}" for k, v in cons.items())


def strip(t):
    while isinstance(t, (Ann, NewT)):
        t = t.t
    return t


def valid_under(t, cons, rng, cx, depth):
    """Heuristic generation of data satisfying cons (checked afterwards by the model)."""
    base = strip(t)
    if isinstance(base, Prim) and base.p in ("int", "float"):
        lo = cons.get("min", cons.get("exc_min", -20))
        hi = cons.get("max", cons.get("exc_max", lo + 40))
        m = cons.get("mult_of")
        v = rng.randint(int(lo), max(int(lo), int(hi)))
        if m:
            v = (v // m) * m
        if base.p == "float" and not m and rng.random() < 0.5:
            v = v + 0.5
        return v
    if isinstance(base, (Prim, SubPrim)) and (getattr(base, "p", None) == "str" or getattr(base, "base", None) == "str"):
        pat = cons.get("pattern")
        lo, hi = cons.get("min_len", 0), cons.get("max_len", 8)
        if pat:
            cands = [w for w in PATTERN_WITNESS.get(pat, []) if re.match(pat, w)]
            cands = [w + "z" * max(0, lo - len(w)) if not pat.endswith("$") else w for w in cands]
            return rng.choice(cands) if cands else "a"
        return "".join(rng.choice("abxyz01") for _ in range(rng.randint(lo, max(lo, hi))))
    if isinstance(base, (Coll, Tup)):
        if isinstance(base, Tup):
            return base.valid(rng, cx, depth)
        lo, hi = cons.get("min_items", 0), cons.get("max_items", 3)
        out = []
        cx.spend(lo + 1)
        for _ in range(rng.randint(lo, max(lo, hi)) if depth < 3 else lo):
            out.append(base.e.valid(rng, cx, depth + 1))
        if cons.get("unique"):
            seen, u = set(), []
            for x in out:
                r = repr(x)
                if r not in seen:
                    seen.add(r)
                    u.append(x)
            out = u
        return out
    return t.valid(rng, cx, depth)


@dataclass
class Union_(T):
    alts: List[T]

    def ann(self):
        if len(self.alts) == 2 and isinstance(self.alts[1], Prim) and self.alts[1].p == "none":
            return f"Optional[{self.alts[0].ann()}]"
        return "Union[{}]".format(", ".join(a.ann() for a in self.alts))

    def children(self):
        return list(self.alts)

    def sig(self):
        return "union<{}>".format(",".join(a.sig() for a in self.alts))

    def hashable(self):
        return all(a.hashable() for a in self.alts)

    def str_like(self):
        return all(a.str_like() for a in self.alts)

    def deser_all(self, d, cx):
        """Outcome of every alternative, in declaration order."""
        return [a.deser(d, cx) for a in self.alts]

    def deser(self, d, cx):
        rs = self.deser_all(d, cx)
        oks = [r for r in rs if isinstance(r, Ok)]
        if oks:
            alts = []
            for o in oks:
                for v in (o.v[1] if o.v[0] == "$any" else (o.v,)):
                    if v not in alts:
                        alts.append(v)
            # several alternatives accept with different images: any of them is a legitimate
            # "some alternative matching" image here (which one comes first is C13's clause)
            return Ok(alts[0] if len(alts) == 1 else ("$any", tuple(alts)))
        errs = []
        for r in rs:
            for e in r.errs:
                if e not in errs:
                    errs.append(e)
        return Err(errs)

    def valid(self, rng, cx, depth=0):
        alts = self.alts
        if depth >= 3:  # prefer alternatives that do not recurse
            flat = [a for a in alts if not any(isinstance(n, Ref) for n in a.walk())]
            alts = flat or alts
        return rng.choice(alts).valid(rng, cx, depth + 1)


def has_choice(c):
    if isinstance(c, tuple):
        return (len(c) == 2 and c[0] == "$any") or any(has_choice(x) for x in c)
    if isinstance(c, frozenset):
        return any(has_choice(x) for x in c)
    return False


def match_img(e, a):
    """expected image e (may contain ('$any', alternatives) choice nodes) against actual image a"""
    if e == a:
        return True
    if isinstance(e, tuple) and len(e) == 2 and e[0] == "$any":
        return any(match_img(x, a) for x in e[1])
    if isinstance(e, tuple) and isinstance(a, tuple) and len(e) == len(a):
        return all(match_img(x, y) for x, y in zip(e, a))
    return False


def opt(t):
    return Union_([t, Prim("none")])


@dataclass
class TVar(T):
    """occurrence of a type variable of a generic class, bound (by the single specialisation generated) to `bound`"""
    name: str
    bound: T

    def ann(self):
        return self.name

    def children(self):
        return [self.bound]

    def collect(self, decls):
        self.bound.collect(decls)
        decls.setdefault("$tv:" + self.name, f"{self.name} = TypeVar({self.name!r})\n")

    def sig(self):
        return f"tv<{self.bound.sig()}>"

    def hashable(self):
        return self.bound.hashable()

    def deser(self, d, cx):
        return self.bound.deser(d, cx)

    def valid(self, rng, cx, depth=0):
        return self.bound.valid(rng, cx, depth)


@dataclass
class Ref(T):
    name: str

    def ann(self):
        return repr(self.name)

    def sig(self):
        return f"ref<{self.name}>"

    def deser(self, d, cx):
        return cx.objects[self.name].deser(d, cx)

    def valid(self, rng, cx, depth=0):
        return cx.objects[self.name].valid(rng, cx, depth + 1)

    def collect(self, decls):
        pass

    def atoms(self, out, cx):
        pass


# ---------------------------------------------------------------- objects
@dataclass
class F:
    name: str
    t: T
    default: Optional[str] = None  # python source of the default value
    factory: Optional[str] = None  # list | dict | set
    alias: Optional[str] = None
    alias_override: bool = True
    flatten: bool = False
    pattern: Optional[str] = None
    additional: bool = False
    required_md: bool = False
    skip_deser: bool = False
    skip_ser: bool = False
    none_as_undefined: bool = False
    undefined: bool = False
    undef_nodefault: bool = False  # with undefined: Union[X, UndefinedType] without default (required key; Undefined only by construction)
    undef_annotated: bool = False  # with undefined: the union is wrapped in Annotated[..., schema(description=...)] (documentation only)
    init_false: bool = False
    initvar: bool = False
    fbod: bool = False
    cons: Optional[Dict[str, Any]] = None
    ser_if: Optional[str] = None  # name of a predicate of the prelude: skip(serialization_if=...)
    ser_default: bool = False  # skip(serialization_default=True)
    default_as_set: bool = False
    extra_md: List[str] = dfield(default_factory=list)  # other metadata source fragments (order(...), skip(...), ...)

    @property
    def has_default(self):
        return self.default is not None or self.factory is not None or (self.undefined and not self.undef_nodefault)

    @property
    def required(self):
        return not self.has_default or self.required_md

    @property
    def aggregate(self):
        return self.flatten or self.pattern is not None or self.additional

    def default_value(self):
        if self.undefined and self.default is None and self.factory is None:
            return UNDEF
        if self.factory:
            return {"list": [], "dict": {}, "set": set()}[self.factory]
        return eval(self.default, {})

    def model_type(self):
        t = self.t
        if self.none_as_undefined and isinstance(t, Union_):
            alts = [a for a in flat_alts(t) if not (isinstance(a, Prim) and a.p == "none")]
            t = alts[0] if len(alts) == 1 else Union_(alts)
        if self.cons:
            t = Ann(t, self.cons)
        return t


def flat_alts(t):
    """alternatives of a union with nested unions flattened (as typing does)"""
    out = []
    for a in t.alts:
        out += flat_alts(a) if isinstance(a, Union_) else [a]
    return out


class _Undef:
    def __repr__(self):
        return "Undefined"


UNDEF = _Undef()
UNDEF_CANON = ("UndefinedType", ("repr", "Undefined"))


def canon_default(v):
    return UNDEF_CANON if v is UNDEF else canon(v)


@dataclass
class ObjectT(T):
    kind: str  # dataclass | namedtuple | typeddict
    name: str
    fields: List[F]
    total: bool = True
    class_aliaser: Optional[str] = None
    dep_req: Dict[str, List[str]] = dfield(default_factory=dict)
    frozen: bool = False
    extra_decorators: List[str] = dfield(default_factory=list)
    extra_body: List[str] = dfield(default_factory=list)
    methods: List[dict] = dfield(default_factory=list)  # serialized methods: {name, ret: T, expr, alias, prop}
    fields_set: bool = False  # @with_fields_set
    inherit: int = 0  # dataclass: the first `inherit` fields are declared in an undecorated base dataclass (same flat model)
    fs_on_base: bool = False  # with `inherit` and `fields_set`: @with_fields_set decorates the base class, the tracking is inherited
    plain_sub: bool = False  # with `inherit` == all fields: the class itself is a plain (not re-decorated) subclass of the base dataclass

    @property
    def named(self):
        return self.name

    def tvars(self):
        out = []
        for f in self.fields:
            for n in _walk_no_objects(f.t):
                if isinstance(n, TVar) and n.name not in [x.name for x in out]:
                    out.append(n)
        return out

    def ann(self):
        tv = self.tvars()
        return self.name if not tv else f"{self.name}[{', '.join(v.bound.ann() for v in tv)}]"

    def children(self):
        return [f.t for f in self.fields] + [m["ret"] for m in self.methods]

    def sig(self):
        feats = []
        for f in self.fields:
            fl = "".join(c for c, on in (("d", f.default is not None), ("y", f.factory), ("a", f.alias), ("F", f.flatten), ("P", f.pattern), ("A", f.additional), ("R", f.required_md), ("s", f.skip_deser), ("S", f.skip_ser), ("n", f.none_as_undefined), ("u", f.undefined), ("U", f.undef_nodefault), ("i", f.init_false), ("v", f.initvar), ("b", f.fbod), ("c", f.cons)) if on)
            feats.append(f"{f.t.sig()}:{fl}")
        return f"{self.kind}{'!' if not self.total else ''}{self.class_aliaser or ''}{'D' if self.dep_req else ''}{{{';'.join(feats)}}}"

    # ---- source
    def collect(self, decls):
        if self.name in decls:
            return
        decls[self.name] = None  # reserve (recursion)
        for f in self.fields:
            f.t.collect(decls)
        del decls[self.name]
        decls[self.name] = self.source()

    def field_ann(self, f):
        a = f.t.ann()
        if f.undefined:
            a = f"Union[{a}, UndefinedType]"
            if f.undef_annotated:
                a = f"Annotated[{a}, schema(description='may be undefined')]"
        return a

    def md_src(self, f):
        md = []
        if f.alias is not None:
            md.append(f"alias({f.alias!r}" + ("" if f.alias_override else ", override=False") + ")")
        elif not f.alias_override:
            md.append("alias(override=False)")
        if f.flatten:
            md.append("flatten")
        if f.pattern is not None:
            md.append(f"properties(pattern={f.pattern!r})")
        if f.additional:
            md.append("properties")
        if f.required_md:
            md.append("required")
        if f.skip_deser or f.skip_ser or f.ser_if or f.ser_default:
            args = [f"deserialization={f.skip_deser}", f"serialization={f.skip_ser}"]
            if f.ser_default:
                args.append("serialization_default=True")
            if f.ser_if:
                args.append(f"serialization_if={f.ser_if}")
            md.append(f"skip({', '.join(args)})")
        if f.default_as_set:
            md.append("default_as_set")
        if f.none_as_undefined:
            md.append("none_as_undefined")
        if f.fbod:
            md.append("fall_back_on_default")
        if f.cons:
            md.append(f"schema({cons_src(f.cons)})")
        md += f.extra_md
        return " | ".join(md)

    def dc_field_src(self, f):
        a = self.field_ann(f)
        args = []
        if f.factory:
            args.append(f"default_factory={f.factory}")
        elif f.default is not None:
            args.append(f"default={f.default}")
        elif f.undefined and not f.undef_nodefault:
            args.append("default=Undefined")
        if f.init_false:
            args.append("init=False")
        md = self.md_src(f)
        if md:
            args.append(f"metadata={md}")
        return f"    {f.name}: {a}" + (f" = field({', '.join(args)})" if args else "")

    def source(self):
        lines = []
        if self.kind == "dataclass":
            for d in self.extra_decorators:
                lines.append(d)
            if self.class_aliaser:
                lines.append(f"@alias(CLASS_ALIASERS[{self.class_aliaser!r}])")
            dc = f"@dataclass(frozen={self.frozen})" if self.frozen else "@dataclass"
            tv = self.tvars()
            inherit = self.inherit and not tv
            if self.fields_set and not (inherit and self.fs_on_base):
                lines.append("@with_fields_set")
            own_fields = self.fields
            if inherit:
                base_lines = (["@with_fields_set"] if self.fields_set and self.fs_on_base else []) + [dc, f"class {self.name}_B:"]
                for f in self.fields[: self.inherit]:
                    base_lines.append(self.dc_field_src(f))
                lines = base_lines + [""] + lines
                own_fields = self.fields[self.inherit:]
            if not (inherit and self.plain_sub and not own_fields):
                lines.append(dc)
            lines.append((f"class {self.name}({self.name}_B):" if self.inherit else f"class {self.name}:") if not tv else f"class {self.name}(Generic[{', '.join(v.name for v in tv)}]):")
            initvars = []
            for f in own_fields:
                a = self.field_ann(f)
                if f.initvar:
                    a = f"InitVar[{a}]"
                    initvars.append(f)
                args = []
                if f.factory:
                    args.append(f"default_factory={f.factory}")
                elif f.default is not None:
                    args.append(f"default={f.default}")
                elif f.undefined and not f.undef_nodefault:
                    args.append("default=Undefined")
                if f.init_false:
                    args.append("init=False")
                md = self.md_src(f)
                if md:
                    args.append(f"metadata={md}")
                lines.append(f"    {f.name}: {a}" + (f" = field({', '.join(args)})" if args else ""))
            if not own_fields:
                lines.append("    pass")
            if initvars:
                for f in initvars:
                    lines.append(f"    seen_{f.name}: Any = field(init=False, default=None, metadata=skip)")
                lines.append("    def __post_init__(self, {}):".format(", ".join(f.name for f in initvars)))
                for f in initvars:
                    lines.append(f"        object.__setattr__(self, 'seen_{f.name}', {f.name})")
            if self.dep_req and getattr(self, "dep_req_split", None):
                # two declarations for the same class, sharing a requiring field: the rules add up (self.dep_req is their union)
                first, second = self.dep_req_split
                lines.append("    _dr = dependent_required({" + ", ".join(f"{k!r}: {list(v)!r}" for k, v in first.items()) + "})")
                lines.append("    _dr2 = dependent_required({" + ", ".join(f"{k!r}: {list(v)!r}" for k, v in second.items()) + "})")
            elif self.dep_req and getattr(self, "dep_req_groups", None):
                # group form: every member of a group requires all the others (self.dep_req holds the same rule, expanded)
                lines.append("    _dr = dependent_required(" + ", ".join(repr(list(g)) for g in self.dep_req_groups) + ")")
            elif self.dep_req:
                lines.append("    _dr = dependent_required({" + ", ".join(f"{k!r}: {list(v)!r}" for k, v in self.dep_req.items()) + "})")
            for m in self.methods:
                margs = ([repr(m["alias"])] if m.get("alias") else []) + ([f"conversion={m['conv']}"] if m.get("conv") else [])
                lines.append(f"    @serialized({', '.join(margs)})" if margs else "    @serialized")
                if m.get("prop"):
                    lines.append("    @property")
                ret = m["ret"].ann()
                if m.get("conv"):
                    # the method returns a raw value that its own conversion turns into m["ret"] (the type the schema shows)
                    lines = [f"def {m['conv']}(x: {m['raw_ret']}) -> {ret}:", "    raise NotImplementedError", ""] + lines
                    ret = m["raw_ret"]
                if m.get("undefined"):
                    ret = f"Union[{ret}, UndefinedType]"
                lines.append(f"    def {m['name']}(self) -> {ret}:")
                lines.append(f"        return {m['expr']}")
            lines += self.extra_body
        elif self.kind == "namedtuple":
            if self.class_aliaser:
                lines.append(f"@alias(CLASS_ALIASERS[{self.class_aliaser!r}])")
            lines.append(f"class {self.name}(NamedTuple):")
            for f in self.fields:
                a = self.field_ann(f)
                md = self.md_src(f)
                if md:
                    a = f"Annotated[{a}, {md}]"
                lines.append(f"    {f.name}: {a}" + (f" = {f.default}" if f.default is not None else ""))
            if not self.fields:
                lines.append("    pass")
        else:
            if self.class_aliaser:
                lines.append(f"@alias(CLASS_ALIASERS[{self.class_aliaser!r}])")
            lines.append(f"class {self.name}(TypedDict, total={self.total}):")
            for f in self.fields:
                a = self.field_ann(f)
                md = self.md_src(f)
                if md:
                    a = f"Annotated[{a}, {md}]"
                lines.append(f"    {f.name}: {a}")
            if not self.fields:
                lines.append("    pass")
        return "\n".join(lines) + "\n"

    # ---- names
    def ext(self, f, cx):
        a = f.alias if f.alias is not None else f.name
        if self.class_aliaser and f.alias_override:
            a = CLASS_ALIASERS[self.class_aliaser](a)
        return cx.al(a)

    def in_fields(self):
        return [f for f in self.fields if not f.skip_deser and not f.init_false]

    def f_required(self, f):
        if self.kind == "typeddict":
            return self.total or f.required_md
        return f.required

    def flat_aliases(self, cx):
        """External keys this object consumes when flattened into a parent."""
        out = []
        for f in self.in_fields():
            if f.flatten:
                out += resolve_obj(f.t, cx).flat_aliases(cx)
            elif not f.aggregate:
                out.append(self.ext(f, cx))
        return out

    # ---- model
    def deser(self, d, cx):
        if type(d) is not dict:
            if jtype(d) is None:
                raise Unspecified("non-JSON datum")
            return Err([((), "type", "object")])
        if any(type(k) is not str for k in d):
            raise Unspecified("non-string key")
        errs, vals = [], {}
        remain = set(d)
        td = self.kind == "typeddict"
        infs = self.in_fields()
        own_names = {self.ext(f, cx) for f in infs}  # keys equal to an aggregate field's own name are unspecified
        for f in infs:
            if f.aggregate:
                continue
            ext = self.ext(f, cx)
            ft = f.model_type()
            if ext in d:
                remain.discard(ext)
                r = ft.deser(d[ext], cx)
                if isinstance(r, Ok):
                    vals[f.name] = r
                elif (f.fbod or cx.fall_back_on_default) and not self.f_required(f) and (f.has_default or td):
                    pass
                else:
                    errs += prefix(r.errs, ext)
            elif self.f_required(f):
                errs.append(((ext,), "missing", "field"))
            else:
                reqby = [g for g, deps in self.dep_req.items() if f.name in deps]
                if any(self.ext(self.by_name(g), cx) in d for g in reqby):
                    errs.append(((ext,), "missing", "field"))
        for f in infs:
            if not f.flatten:
                continue
            sub = resolve_obj(f.t, cx)
            keys = [k for k in sub.flat_aliases(cx) if k in d]
            remain.difference_update(keys)
            r = f.model_type().deser({k: d[k] for k in keys}, cx)
            if isinstance(r, Ok):
                vals[f.name] = r
            elif (f.fbod or cx.fall_back_on_default) and f.has_default:
                pass
            else:
                errs += r.errs
        for f in infs:
            if f.pattern is None:
                continue
            keys = [k for k in d if k in remain and re.match(f.pattern, k)]
            remain.difference_update(keys)
            r = f.model_type().deser({k: d[k] for k in keys}, cx)
            if isinstance(r, Ok):
                vals[f.name] = r
            elif (f.fbod or cx.fall_back_on_default) and f.has_default:
                pass
            else:
                errs += r.errs
        addf = [f for f in infs if f.additional]
        extras = {}
        if addf:
            f = addf[0]
            r = f.model_type().deser({k: d[k] for k in d if k in remain}, cx)
            if isinstance(r, Ok):
                vals[f.name] = r
            elif (f.fbod or cx.fall_back_on_default) and f.has_default:
                pass
            else:
                errs += r.errs
        elif remain:
            if not cx.additional_properties:
                errs += [((k,), "unexpected", "field") for k in sorted(remain)]
            elif td:
                extras = {k: canon_json(d[k]) for k in remain}
        errs = dedupe(errs)
        if errs:
            return Err(errs)
        # typed image (cartesian choice of alternative images is collapsed: first image of each field)
        img = {}
        for f in self.fields:
            if f.initvar:
                if self.kind == "dataclass":
                    img["seen_" + f.name] = vals[f.name].v if f.name in vals else canon_default(f.default_value())
                continue
            if f.name in vals:
                img[f.name] = vals[f.name].v
            elif td:
                continue
            elif f.has_default:
                img[f.name] = canon_default(f.default_value())
            else:
                raise Unspecified("field without value nor default")
        if td:
            img.update({k: v for k, v in extras.items()})
            res = ("dict", tuple(sorted(((("str", k), v) for k, v in img.items()), key=repr)))
        else:
            res = (self.name, tuple(sorted(img.items())))
        return Ok(res)

    def by_name(self, n):
        return next(f for f in self.fields if f.name == n)

    def valid(self, rng, cx, depth=0):
        cx.spend(len(self.fields) + 1)
        out = {}
        present = set()
        for f in self.in_fields():
            if f.aggregate:
                continue
            need = self.f_required(f)
            if need or (rng.random() < (0.6 if depth < 3 else 0.15)):
                out[self.ext(f, cx)] = f.model_type().valid(rng, cx, depth + 1)
                present.add(f.name)
        # dependent required: add what became required
        changed = True
        while changed:
            changed = False
            for g, deps in self.dep_req.items():
                if g in present:
                    for n in deps:
                        if n not in present:
                            f = self.by_name(n)
                            out[self.ext(f, cx)] = f.model_type().valid(rng, cx, depth + 1)
                            present.add(n)
                            changed = True
        for f in self.in_fields():
            if f.flatten:
                sub = f.model_type().valid(rng, cx, depth + 1)
                keep = set(resolve_obj(f.t, cx).flat_aliases(cx))  # aggregate fields of a flattened object receive nothing
                out.update({k: v for k, v in sub.items() if k in keep})
            elif f.pattern is not None:
                sub = f.model_type().valid(rng, cx, depth + 1)
                wit = [w for w in PATTERN_WITNESS.get(f.pattern, []) if re.match(f.pattern, w)]
                for i, v in enumerate(sub.values()):
                    if i < len(wit) and wit[i] not in out:
                        out[wit[i]] = v
            elif f.additional:
                sub = f.model_type().valid(rng, cx, depth + 1)
                for i, v in enumerate(sub.values()):
                    out.setdefault(f"zz{i}", v)
        return out

    def atoms(self, out, cx):
        for f in self.fields:
            f.model_type().atoms(out, cx)


def _walk_no_objects(t):
    """nodes of a field type, not descending into nested classes (their type variables are their own)"""
    yield t
    if not isinstance(t, ObjectT):
        for c in t.children():
            yield from _walk_no_objects(c)


def dedupe(errs):
    out = []
    for e in errs:
        if e not in out:
            out.append(e)
    return out


def resolve_obj(t, cx) -> ObjectT:
    t = strip(t)
    if isinstance(t, Ref):
        t = cx.objects[t.name]
    assert isinstance(t, ObjectT), t
    return t


# ---------------------------------------------------------------- programs
PRELUDE = """\
import re
from dataclasses import dataclass, field, InitVar
from enum import Enum
from typing import *
from typing import Annotated, Literal, NamedTuple, NewType, TypedDict
from apischema import (Undefined, UndefinedType, alias, dependent_required, schema, serialized, order,
                       validator, ValidationError, discriminator, type_name)
from apischema.metadata import (flatten, properties, required, skip, none_as_undefined, fall_back_on_default,
                                init_var, post_init, default_as_set, conversion, validators)
from apischema.fields import with_fields_set
from collections import deque
from datetime import date, datetime, time
from decimal import Decimal
from ipaddress import IPv4Address, IPv6Address
from pathlib import Path
from uuid import UUID
from vf.spec import CLASS_ALIASERS
NoneType = type(None)


def vf_is_falsy(x):
    return not x


def vf_is_negative(x):
    return isinstance(x, (int, float)) and not isinstance(x, bool) and x < 0
"""

_counter = [0]


class Program:
    """A materialised TypeSpec: a synthetic module holding the classes and `T` (the type)."""

    def __init__(self, t: T, extra_src: str = ""):
        self.t = t
        decls: Dict[str, str] = {}
        t.collect(decls)
        self.objects = {n.name: n for n in t.walk() if isinstance(n, ObjectT)}
        self.source = PRELUDE + "\n" + "\n".join(decls.values()) + "\n" + extra_src + f"\nT = {'type(None)' if t.ann() == 'None' else t.ann()}\n"
        self.module = None

    def ctx(self, **kw) -> Ctx:
        return Ctx(objects=self.objects, **kw)

    def load(self):
        import linecache
        import sys
        import types

        import typing
        for clear in getattr(typing, "_cleanups", ()):
            clear()  # typing caches List['D1'] with its ForwardRef, whose value (once evaluated for a function) would leak into the next program using the same class name
        _counter[0] += 1
        name = f"vfprog_{_counter[0]}"
        mod = types.ModuleType(name)
        fn = f"<{name}>"
        mod.__file__ = fn
        linecache.cache[fn] = (len(self.source), None, self.source.splitlines(True), fn)
        sys.modules[name] = mod
        try:
            exec(compile(self.source, fn, "exec"), mod.__dict__)
        except BaseException:
            sys.modules.pop(name, None)
            linecache.cache.pop(fn, None)
            raise
        self.module = mod
        self.T = mod.T
        return self

    def unload(self):
        import linecache
        import sys

        if self.module is not None:
            sys.modules.pop(self.module.__name__, None)
            linecache.cache.pop(self.module.__file__, None)
            self.module = None

    def to_json(self):
        return {"source": self.source, "sig": self.t.sig()}
