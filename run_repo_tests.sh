#!/bin/bash
# pinned suite, hooks off
cd /repo && /venv/bin/python -m pytest -q -p no:cacheprovider --timeout=900 --continue-on-collection-errors -x -q 2>&1 | tail -3
