"""C17 — generated JSON Schemas are well-formed, closed and finite.
Monitors the outputs of deserialization_schema / serialization_schema / definitions_schema."""
import json
import re

from vf import gen_types, harness
from vf.spec import EnumT, F, NewT, ObjectT, Prim, Program, Ref, Std, SubPrim, Coll, MapT, opt

PROP = "C17"
NEED_JSONSCHEMA = True
SHARDS = {"quick": 8, "thorough": 16}
TIME_CAP = {"quick": 70, "thorough": 900}
REQUIRED = ["generic_type_name_checks", "schemas_generated", "meta_schema_checks", "refs_resolved", "extraction_set_checks_all_refs_false", "extraction_set_checks_all_refs_true",
            "definitions_schema_checks", "recursive_programs", "shared_named_type_programs", "type_name_override_programs", "name_collision_programs",
            "custom_ref_factory_checks", "cycle_checks", "conversion_schema_checks", "multi_entry_definitions_checks", "multi_entry_collision_checks", "serialization_schemas", "deserialization_schemas", "discriminated_families", "discriminated_extraction_checks", "discriminator_mapping_refs_checked"]
RULE = ("C01 program space + std types + dataclasses with type_name overrides (string / None), shared named types (used 1, 2, 3 times), (mutually) recursive classes "
        "x {deserialization, serialization}_schema x 5 versions x all_refs in {default, True, False} x ref_factory in {default, custom} x with_schema; plus programs with two distinct "
        "classes sharing one type name. A case = (type signature, entry point, version, all_refs, ref_factory); distinct by hash; non-trivial when the schema contains a $ref or a $defs."
        ' Plus discriminated-union families (vf/disc.py) x entry types x side x version x all_refs x ref_factory: references through discriminated parents, discriminator mapping targets, extraction of alternatives / parents.')
ASSUMPTIONS = ["meta-schemas bundled with jsonschema are the oracle for well-formedness; the dialect is read from the $schema URI (matched on the draft identifier)",
               "expected extraction set: a named type is 'used more than once' when a walk of the type that stops at an already seen named type meets it twice (recursion included)",
               "OpenAPI 3.0 documents have no meta-schema here: only references / vocabulary (C18) are checked for them"]

VERSIONS = ["DRAFT_2020_12", "DRAFT_2019_09", "DRAFT_7", "OPEN_API_3_0", "OPEN_API_3_1"]
PREFIX = {"DRAFT_2020_12": "#/$defs/", "DRAFT_2019_09": "#/$defs/", "DRAFT_7": "#/definitions/", "OPEN_API_3_0": "#/components/schemas/", "OPEN_API_3_1": "#/components/schemas/"}
DEFS_KEY = {"DRAFT_2020_12": "$defs", "DRAFT_2019_09": "$defs", "DRAFT_7": "definitions"}


def custom_ref(name):
    return "#/x-refs/" + name


def type_name_of(n):
    if isinstance(n, ObjectT):
        return getattr(n, "tn_override", n.name)
    if isinstance(n, EnumT):
        return None if n.mixin == "str" else n.name
    if isinstance(n, NewT):
        return n.name
    if isinstance(n, SubPrim):
        return None if n.base == "str" else n.name
    if isinstance(n, Std) and n.s == "uuid":
        return "UUID"
    return None


def use_counts(t, objects, side, counts=None):
    """walk stopping at an already seen named type (the documented notion of 'used more than once');
    `counts` may be shared between several entry types"""
    counts = {} if counts is None else counts

    def visit(n):
        if isinstance(n, Ref):
            n = objects[n.name]
        name = type_name_of(n)
        if name is not None:
            counts[name] = counts.get(name, 0) + 1
            if counts[name] > 1:
                return
        if isinstance(n, ObjectT):
            for f in n.fields:
                if side == "deserialization" and (f.skip_deser or f.init_false):
                    continue
                if side == "serialization" and (f.skip_ser or f.initvar):
                    continue
                visit(f.t)
            if side == "serialization":
                for m in n.methods:  # serialized methods are properties of the serialization schema
                    visit(m["ret"])
        else:
            for c in n.children():
                visit(c)

    visit(t)
    return counts


def mk_program(env):
    """program with named types shared / recursive / renamed"""
    rng = env.rng
    g = gen_types.Gen(rng, max_depth=rng.choice([2, 3]), std=rng.random() < 0.3)
    g.feats = {"flatten", "pattern", "additional", "class_aliaser", "dep_req", "alias", "field_cons", "required_md", "skip", "init_false", "undefined", "none_as_undefined", "methods"}
    kind = rng.random()
    tags = set()
    if kind < 0.35:
        t = g.type(0) if rng.random() < 0.5 else g.object(0)
    else:
        # shared named types: A used k times inside a container object
        shared = rng.choice([lambda: g.object(1, kind="dataclass", nfields=rng.choice([1, 2])), lambda: g.enum(), lambda: NewT(g.fresh("N"), Prim("int")),
                             lambda: g.object(1, kind=rng.choice(["namedtuple", "typeddict"]), nfields=2), lambda: SubPrim(g.fresh("SP"), "int")])()
        k = rng.choice([1, 2, 2, 3])
        fields = []
        for i in range(k):
            wrap = rng.choice([lambda x: x, lambda x: Coll("list", x), lambda x: opt(x), lambda x: MapT("dict", Prim("str"), x)])
            fields.append(F(g.fresh("f"), wrap(shared)))
        fields.append(F(g.fresh("f"), g.type(1)))
        t = ObjectT("dataclass", g.fresh("D"), fields)
        tags.add("shared")
        if rng.random() < 0.25:
            # the shared named type is also (or only, when k = 1: then it is used twice on the serialization side) the return type
            # of a serialized method: a property of the serialization schema (never executed here)
            wrap = rng.choice([lambda x: x, lambda x: Coll("list", x), lambda x: opt(x)])
            m = {"name": g.fresh("m"), "alias": None, "prop": rng.random() < 0.3, "ret": wrap(shared), "expr": "None"}
            if rng.random() < 0.5:
                # ... only through the method's own conversion: the method itself returns a plain int
                m.update(conv="vf_conv_" + m["name"], raw_ret="int", expr="0")
                tags.add("method-conversion-to-named-type")
            t.methods.append(m)
            tags.add("method-returns-named-type")
        if rng.random() < 0.4:  # recursion
            t.fields.append(F(g.fresh("f"), rng.choice([opt(Ref(t.name)), Coll("list", Ref(t.name))]), default=None))
            t.fields[-1].default = "None" if t.fields[-1].t.ann().startswith("Optional") else None
            if t.fields[-1].default is None:
                t.fields[-1].factory = "list"
            tags.add("recursive")
    # type_name overrides on non-recursive dataclasses
    objs = [n for n in t.walk() if isinstance(n, ObjectT) and n.kind == "dataclass"]
    rec_names = {n.name for n in t.walk() if isinstance(n, Ref)}
    if rec_names:
        tags.add("recursive")
    for o in objs:
        if rng.random() < 0.25 and not hasattr(o, "tn_override"):
            if o.name in rec_names or rng.random() < 0.6:
                o.tn_override = "Renamed" + o.name
                o.extra_decorators = [f"@type_name({o.tn_override!r})"] + list(o.extra_decorators)
            else:
                o.tn_override = None
                o.extra_decorators = ["@type_name(None)"] + list(o.extra_decorators)
            tags.add("override")
    return t, tags


def local_defs(doc, version):
    return doc.get(DEFS_KEY.get(version, "$none"), None)


def check_program(env, prog, tags, label):
    import apischema
    from apischema.json_schema import JsonSchemaVersion, definitions_schema, deserialization_schema, serialization_schema
    from vf import jsonschema_o as jo

    rng = env.rng
    t = prog.t
    sig = t.sig()
    harness.reset_all()
    for side, fn in (("deserialization", deserialization_schema), ("serialization", serialization_schema)):
        counts = use_counts(t, prog.objects, side)
        named_all = set(counts)
        named_multi = {n for n, c in counts.items() if c > 1}
        combos = [(v, ar, rf, ws) for v in VERSIONS for ar in (None, True, False) for rf in (None, custom_ref) for ws in (True, False)]
        chosen = [c for c in combos if c[2] is None and c[3]] + rng.sample([c for c in combos if not (c[2] is None and c[3])], 10) if not env.quick() else rng.sample(combos, 6) + [(v, None, None, True) for v in rng.sample(VERSIONS, 3)]
        for vname, all_refs, rf, with_schema in chosen:
            version = getattr(JsonSchemaVersion, vname)
            kw = {"version": version, "with_schema": with_schema}
            if all_refs is not None:
                kw["all_refs"] = all_refs
            if rf is not None:
                kw["ref_factory"] = rf
            o = harness.call(fn, prog.T, **kw)
            env.case(sig, side, vname, all_refs, rf is not None, nontrivial=True)
            wit = {"program": prog.source, "label": label, "entry": side + "_schema", "version": vname, "all_refs": all_refs, "ref_factory": "custom" if rf else "default", "with_schema": with_schema}
            if o.kind != "ok":
                env.violation({"kind": "generation-failed", "exc": o.exc or "ValidationError", "site": o.site, "side": side}, {**wit, "outcome": o.brief()})
                continue
            doc = json.loads(json.dumps(o.value))  # plain JSON (also proves serialisability)
            env.count("schemas_generated")
            env.count(side + "_schemas")
            eff_all_refs = all_refs if all_refs is not None else vname.startswith("OPEN_API")
            # ---- meta-schema of the declared dialect
            dialect = jo.dialect_of(doc)
            if with_schema and vname.startswith("DRAFT") and dialect is None:
                env.violation({"kind": "no-$schema", "version": vname}, {**wit, "schema": doc})
            if dialect in jo.VALIDATORS:
                env.count("meta_schema_checks")
                errs = jo.meta_errors(doc, dialect)
                if errs:
                    env.violation({"kind": "meta-schema", "version": vname, "declared": dialect, "keyword": sorted({e.split(":")[0].split("/")[-1] for e in errs})[:3]}, {**wit, "schema": doc, "meta_errors": errs})
            elif dialect is None and vname == "OPEN_API_3_1":
                env.count("meta_schema_checks")
                errs = jo.meta_errors(doc, "2020-12")
                if errs:
                    env.violation({"kind": "meta-schema", "version": vname, "declared": "oas-3.1(2020-12)", "keyword": sorted({e.split(":")[0].split("/")[-1] for e in errs})[:3]}, {**wit, "schema": doc, "meta_errors": errs})
            # ---- in-place cycles (ill-founded definitions)
            env.count("cycle_checks")
            # ---- references
            prefix = "#/x-refs/" if rf else PREFIX[vname]
            defs = local_defs(doc, vname) if rf is None else None
            ext = None
            refs = jo.refs_of(doc)
            for path, ref in refs:
                if not ref.startswith(prefix):
                    env.violation({"kind": "ref-prefix", "version": vname}, {**wit, "ref": ref, "expected_prefix": prefix, "schema": doc})
                    continue
                name = ref[len(prefix):]
                if defs is not None:
                    ok = name in defs
                else:
                    if ext is None:
                        dkw = {k: v for k, v in kw.items() if k != "with_schema"}
                        od = harness.call(definitions_schema, **{side: [prog.T]}, **dkw)
                        if od.kind != "ok":
                            env.violation({"kind": "definitions_schema-failed", "exc": od.exc, "site": od.site}, {**wit, "outcome": od.brief()})
                            ext = {}
                        else:
                            ext = json.loads(json.dumps(od.value))
                    ok = name in ext
                    if rf is not None:
                        env.count("custom_ref_factory_checks")
                env.count("refs_resolved")
                if not ok:
                    env.violation({"kind": "dangling-ref", "version": vname, "ref_factory": "custom" if rf else "default"}, {**wit, "ref": ref, "schema": doc, "definitions": sorted((defs if defs is not None else ext) or {})})
            full = dict(doc)
            if defs is None and ext:
                cur = full
                parts = prefix[2:-1].split("/")
                for p_ in parts[:-1]:
                    cur = cur.setdefault(p_, {})
                cur[parts[-1]] = ext
            cyc = jo.in_place_cycle(full)
            if cyc:
                env.violation({"kind": "in-place-reference-cycle"}, {**wit, "cycle": cyc, "schema": doc})
            # ---- extraction set
            if defs is None and ext is None and (rf is not None or vname.startswith("OPEN_API")):
                dkw = {k: v for k, v in kw.items() if k != "with_schema"}
                od = harness.call(definitions_schema, **{side: [prog.T]}, **dkw)
                if od.kind == "ok":
                    ext = json.loads(json.dumps(od.value))
            emitted = set(defs) if defs is not None else (set(ext) if ext is not None else None)
            if emitted is None and rf is None and not vname.startswith("OPEN_API"):
                emitted = set()  # no $defs key at all in a document that can carry one
            if emitted is not None:
                want = named_all if eff_all_refs else named_multi
                env.count("extraction_set_checks_all_refs_" + ("true" if eff_all_refs else "false"))
                if emitted != want:
                    env.violation({"kind": "extraction-set", "all_refs": eff_all_refs, "missing": len(want - emitted) > 0, "unexpected": len(emitted - want) > 0},
                                  {**wit, "emitted": sorted(emitted), "expected": sorted(want), "use_counts": counts, "schema": doc})
            # ---- definitions_schema == inline $defs
            if defs is not None and rf is None:
                dkw = {k: v for k, v in kw.items() if k != "with_schema"}
                od = harness.call(definitions_schema, **{side: [prog.T]}, **dkw)
                env.count("definitions_schema_checks")
                if od.kind != "ok":
                    env.violation({"kind": "definitions_schema-failed", "exc": od.exc, "site": od.site}, {**wit, "outcome": od.brief()})
                elif json.loads(json.dumps(od.value)) != defs:
                    env.violation({"kind": "definitions_schema-differs-from-inline-defs", "version": vname}, {**wit, "inline": defs, "definitions_schema": json.loads(json.dumps(od.value))})
    for tag, ctr in (("recursive", "recursive_programs"), ("shared", "shared_named_type_programs"), ("override", "type_name_override_programs")):
        if tag in tags:
            env.count(ctr)


COLLISION = """
@type_name("Dup{n}")
@dataclass
class A{n}:
    a: int

@type_name("Dup{n}")
@dataclass
class B{n}:
    b: str

@dataclass
class C{n}:
    x: {xa}
    y: {xb}

T = C{n}
"""


def check_collision(env, n):
    from apischema.json_schema import definitions_schema, deserialization_schema, serialization_schema
    from vf.spec import PRELUDE
    import sys, types

    rng = env.rng
    harness.reset_all()
    name = f"vfcoll_{env.shard}_{n}"
    mod = types.ModuleType(name)
    sys.modules[name] = mod
    wrap = [lambda s: s, lambda s: f"List[{s}]", lambda s: f"Optional[{s}]", lambda s: f"Dict[str, {s}]"]
    src = COLLISION.format(n=n, xa=rng.choice(wrap)(f"A{n}"), xb=rng.choice(wrap)(f"B{n}"))
    try:
        exec(compile(PRELUDE + src, f"<{name}>", "exec"), mod.__dict__)
        for fn, kw in ((deserialization_schema, {}), (serialization_schema, {}), (deserialization_schema, {"all_refs": True}), (definitions_schema, None)):
            if kw is None:
                o = harness.call(definitions_schema, deserialization=[mod.T], all_refs=True)
            else:
                o = harness.call(fn, mod.T, **kw)
            env.count("name_collision_programs")
            env.case("collision", fn.__name__, src)
            if o.kind == "ok":
                env.violation({"kind": "name-collision-not-refused", "entry": fn.__name__}, {"program": src, "schema": json.loads(json.dumps(o.value, default=str))})
        # the two colliding classes reached from two different entry types
        for all_refs in (True, False):
            for side in ("deserialization", "serialization"):
                o = harness.call(definitions_schema, **{side: [getattr(mod, f"A{n}"), rng.choice([getattr(mod, f"B{n}"), __import__("typing").List[getattr(mod, f"B{n}")]])]}, all_refs=all_refs)
                env.count("multi_entry_collision_checks")
                if o.kind == "ok":
                    env.violation({"kind": "name-collision-not-refused", "entry": "definitions_schema(two entries)"}, {"program": src, "schema": json.loads(json.dumps(o.value, default=str))})
    finally:
        sys.modules.pop(name, None)


CONV = """
@dataclass
class Money{n}:
    amount: int
    currency: str = "EUR"

@dataclass
class Wallet{n}:
    owner: str

class Price{n}:
    def __init__(self, cents):
        self.cents = cents

def price_to_money{n}(p: Price{n}) -> Money{n}:
    return Money{n}(p.cents)

def money_to_price{n}(m: Money{n}) -> Price{n}:
    return Price{n}(m.amount)

{registered}
@dataclass
class Holder{n}:
    w: Wallet{n}
    w2: Optional[Wallet{n}] = None

T = {T}
"""


def check_conversions(env, n):
    """conversions changing the referenced named type: entry-point (dynamic) and registered conversions"""
    from apischema.json_schema import JsonSchemaVersion, definitions_schema, deserialization_schema, serialization_schema
    from vf import jsonschema_o as jo
    from vf.spec import PRELUDE
    import sys, types

    rng = env.rng
    harness.reset_all()
    name = f"vfconv_{env.shard}_{n}"
    mod = types.ModuleType(name)
    sys.modules[name] = mod
    registered = rng.random() < 0.5
    shape = rng.choice(["List[Price{n}]", "Dict[str, Price{n}]", "Tuple[Price{n}, Price{n}]", "Tuple[Optional[Price{n}], Holder{n}]", "List[Tuple[Price{n}, Wallet{n}]]"])
    reg = f"serializer(price_to_money{n})\ndeserializer(money_to_price{n})\n" if registered else ""
    src = "from apischema import serializer, deserializer\n" + CONV.format(n=n, registered=reg, T=shape.format(n=n))
    try:
        exec(compile(PRELUDE + src, f"<{name}>", "exec"), mod.__dict__)
        for side, fn, conv in (("serialization", serialization_schema, getattr(mod, f"price_to_money{n}")), ("deserialization", deserialization_schema, getattr(mod, f"money_to_price{n}"))):
            for vname in ("DRAFT_2020_12", "DRAFT_7", "OPEN_API_3_1"):
                for all_refs in (None, True, False):
                    kw = {"version": getattr(JsonSchemaVersion, vname)}
                    if all_refs is not None:
                        kw["all_refs"] = all_refs
                    if not registered:
                        kw["conversion"] = conv
                    o = harness.call(fn, mod.T, **kw)
                    env.count("conversion_schema_checks")
                    env.case("conv", shape, side, vname, all_refs, registered)
                    wit = {"program": src, "entry": side + "_schema", "version": vname, "all_refs": all_refs, "registered": registered}
                    if o.kind != "ok":
                        env.violation({"kind": "generation-failed", "family": "conversion", "exc": o.exc, "site": o.site}, {**wit, "outcome": o.brief()})
                        continue
                    doc = json.loads(json.dumps(o.value))
                    entry = [mod.T] if registered else [(mod.T, conv)]
                    dkw = {k: v for k, v in kw.items() if k != "conversion"}
                    od = harness.call(definitions_schema, **{side: entry}, **dkw)
                    if od.kind != "ok":
                        env.violation({"kind": "definitions_schema-failed", "family": "conversion", "exc": od.exc, "site": od.site}, {**wit, "outcome": od.brief()})
                        continue
                    ext = json.loads(json.dumps(od.value))
                    defs = local_defs(doc, vname)
                    pool = defs if defs is not None else ext
                    for _, ref in jo.refs_of(doc):
                        nm = ref[len(PREFIX[vname]):]
                        if not ref.startswith(PREFIX[vname]) or nm not in (pool or {}):
                            env.violation({"kind": "dangling-ref", "family": "conversion", "version": vname}, {**wit, "ref": ref, "schema": doc, "definitions": sorted(pool or {})})
                    if defs is not None and defs != ext:
                        env.violation({"kind": "definitions_schema-differs-from-inline-defs", "family": "conversion", "version": vname}, {**wit, "inline": defs, "definitions_schema": ext})
    finally:
        sys.modules.pop(name, None)
        if registered:
            from apischema.conversions import reset_deserializers, reset_serializer
            for c in ("Price", "Money"):
                cls = getattr(mod, f"{c}{n}", None)
                if cls is not None:
                    try:
                        reset_deserializers(cls)
                    except Exception:
                        pass
                    try:
                        reset_serializer(cls)
                    except Exception:
                        pass
            harness.reset_all()


GENERIC_NAMES = """
from dataclasses import dataclass, field
from typing import Generic, List, Optional, TypeVar
from apischema import serialized, type_name
T = TypeVar("T")

@type_name(lambda tp, arg: f"{{arg.__name__}}Resource{n}")
@dataclass
class Resource{n}(Generic[T]):
    items: List[T]
    first: Optional[T] = None

@type_name(lambda tp, *args: "Pair{n}Of" + "And".join(a.__name__ for a in args) if args else None)
@dataclass
class Pair{n}(Generic[T]):
    left: T
    right: T

@dataclass
class Leaf{n}:
    x: int = 0

@dataclass
class Tree{n}:
    children: List["Tree{n}"] = field(default_factory=list)

@dataclass
class Box{n}(Generic[T]):  # the type parameter only occurs in the return types of serialized methods
    label: str = ""
    @serialized
    def content(self) -> Optional[T]:
        return None
    @serialized
    def all_of_them(self) -> List[T]:
        return []

@dataclass
class Holder{n}:
    ints: Resource{n}[int]
    strs: Resource{n}[str]
    more: Optional[Resource{n}[int]] = None
    bare: Optional[Resource{n}] = None
    pair: Optional[Pair{n}[int]] = None
"""


def check_generic_names(env, n):
    """generic classes named by a type_name factory: each specialisation gets its own definition, the unspecialised class has no
    name (the factory cannot be called without arguments) and is inlined"""
    import sys
    import types
    from apischema.json_schema import definitions_schema, deserialization_schema, serialization_schema
    from vf import jsonschema_o as jo

    name = f"vfgn_{env.shard}_{n}"
    mod = types.ModuleType(name)
    sys.modules[name] = mod
    src = GENERIC_NAMES.format(n=n)
    harness.reset_all()
    try:
        exec(compile(src, f"<{name}>", "exec"), mod.__dict__)
        R, P, H = getattr(mod, f"Resource{n}"), getattr(mod, f"Pair{n}"), getattr(mod, f"Holder{n}")
        cases = [("Resource[int]", R[int], {f"intResource{n}"}), ("Resource (bare)", R, set()), ("Holder", H, {f"intResource{n}", f"strResource{n}", f"Pair{n}Ofint", f"Holder{n}"}),
                 ("List[Resource[str]]", mod.List[R[str]], {f"strResource{n}"}), ("Pair (bare)", P, set())]
        B, Lf, Tr = getattr(mod, f"Box{n}"), getattr(mod, f"Leaf{n}"), getattr(mod, f"Tree{n}")
        ser_cases = [("Box[Leaf]", B[Lf], {f"Leaf{n}"}), ("Box[Tree]", B[Tr], {f"Tree{n}"}), ("List[Box[Tree]]", mod.List[B[Tr]], {f"Tree{n}"})]
        for label, T_, want_all in cases + ser_cases:
            for fn in (deserialization_schema, serialization_schema):
                if (label, T_, want_all) in ser_cases and fn is deserialization_schema:
                    continue  # (the parameter does not occur on the deserialization side)
                for all_refs in (True, False):
                    o = harness.call(fn, T_, all_refs=all_refs)
                    env.count("generic_type_name_checks")
                    env.case("generic-names", label, fn.__name__, all_refs)
                    wit = {"program": src, "type": label, "entry": fn.__name__, "all_refs": all_refs}
                    if o.kind != "ok":
                        env.violation({"kind": "generation-failed", "family": "generic-type-name", "exc": o.exc or "ValidationError", "site": o.site}, {**wit, "outcome": o.brief()})
                        continue
                    doc = json.loads(json.dumps(o.value))
                    defs = doc.get("$defs", {})
                    for _, ref in jo.refs_of(doc):
                        if ref[len("#/$defs/"):] not in defs:
                            env.violation({"kind": "dangling-ref", "family": "generic-type-name"}, {**wit, "ref": ref, "schema": doc})
                    if all_refs and set(defs) != want_all:
                        env.violation({"kind": "extraction-set", "family": "generic-type-name", "all_refs": True, "missing": bool(want_all - set(defs)), "unexpected": bool(set(defs) - want_all)},
                                      {**wit, "emitted": sorted(defs), "expected": sorted(want_all), "schema": doc})
                    if jo.meta_errors(doc, "2020-12"):
                        env.violation({"kind": "meta-schema", "family": "generic-type-name"}, {**wit, "schema": doc})
    finally:
        sys.modules.pop(name, None)


def check_multi_entry(env, prog, label):
    """definitions_schema over several entry types: use counts accumulate over the entries"""
    from apischema.json_schema import definitions_schema
    from typing import List

    rng = env.rng
    t = prog.t
    for side in ("deserialization", "serialization"):
        counts = {}
        for _ in range(2):  # the same type given twice: every named type reachable is then used more than once or met again
            c2 = use_counts(t, prog.objects, side, counts)
        entries = [prog.T, prog.T]
        for all_refs in (False, True):
            o = harness.call(definitions_schema, **{side: entries}, all_refs=all_refs)
            env.count("multi_entry_definitions_checks")
            env.case("multi-entry", t.sig(), side, all_refs)
            wit = {"program": prog.source, "label": label, "entry": f"definitions_schema({side}=[T, T])", "all_refs": all_refs}
            if o.kind != "ok":
                env.violation({"kind": "definitions_schema-failed", "family": "multi-entry", "exc": o.exc, "site": o.site}, {**wit, "outcome": o.brief()})
                continue
            want = set(counts) if all_refs else {n for n, c in counts.items() if c > 1}
            if set(o.value) != want:
                env.violation({"kind": "extraction-set", "family": "multi-entry", "all_refs": all_refs, "missing": len(want - set(o.value)) > 0, "unexpected": len(set(o.value) - want) > 0},
                              {**wit, "emitted": sorted(o.value), "expected": sorted(want), "use_counts": counts})


def run(env):
    harness.tag_errors(False)
    from vf import disc
    disc.run_family(env, disc.check_c17, env.n(96, 3000))  # discriminated-union families first (their own budget)
    rng = env.rng
    n = env.n(640, 20000)
    for j in range(n):
        if env.out_of_time():
            env.notes.append("time cap reached")
            break
        t, tags = mk_program(env)
        prog = Program(t)
        try:
            prog.load()
        except Exception as e:
            env.count("program_load_failed")
            if env.counters["program_load_failed"] <= 3:
                env.notes.append(f"load failed: {type(e).__name__}: {e}")
            continue
        try:
            check_program(env, prog, tags, f"random#{env.shard}.{j}")
            if rng.random() < 0.3:
                check_multi_entry(env, prog, f"random#{env.shard}.{j}")
            if len(env.samples) < 3 and rng.random() < 0.03:
                env.sample({"type": t.ann(), "sig": t.sig(), "tags": sorted(tags)})
        finally:
            prog.unload()
    for j in range(env.n(24, 200)):
        check_collision(env, j)
    if env.shard == 0:
        check_generic_names(env, 0)
    for j in range(env.n(24, 200)):
        check_conversions(env, j)


def finish_coverage(cov, counters, tier):
    cov["exhaustive"] = False


def replay(env, rep):
    from vf.replay import generic
    generic(env, rep)
