#!/usr/bin/env python3
"""tools/mutate.py <file-relative-to-repo> <old> <new> -- <check ids...>
Apply a textual mutation to /repo, run the quick checks, always restore. Development aid (self-test of the monitors)."""
import subprocess, sys
i = sys.argv.index("--")
path, old, new = sys.argv[1:4]
checks = sys.argv[i + 1:]
p = "/repo/" + path
s = open(p).read()
assert s.count(old) >= 1, "pattern not found"
open(p, "w").write(s.replace(old, new, 1))
try:
    r = subprocess.run("cd /repo && /venv/bin/python -m pytest -q -p no:cacheprovider -x -q 2>&1 | tail -1", shell=True, capture_output=True, text=True)
    print("suite:", r.stdout.strip())
    for c in checks:
        r = subprocess.run(["/verif/check", c, "--tier", "quick"], capture_output=True, text=True, cwd="/verif")
        lines = [l for l in r.stdout.splitlines() if l.startswith(("VIOLATION", "KNOWN", "INCONCL", c))]
        print(f"{c}: exit {r.returncode}", "|", " ; ".join(lines[:3])[:400], "|", lines[-1][:200] if lines else "")
finally:
    subprocess.run(["git", "-C", "/repo", "checkout", "--", "."], check=True)
