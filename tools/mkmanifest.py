#!/usr/bin/env python3
"""Regenerate /verif/MANIFEST.json from the table below (kept valid at all times)."""
import json
import os

VERIF = os.path.dirname(os.path.dirname(os.path.abspath(__file__)))
BASE = "cd /repo && /venv/bin/python -m pytest -ra -q -p no:cacheprovider --timeout=900 --continue-on-collection-errors"

# id -> (technique, level text, level note, design ref)
CHECKS = {
    "C01": ("boundary monitor on deserialize + executable reference model of the documented data model (differential oracle)",
            "Exploration: every generated (type program, options, datum) is executed through the real deserialize and its verdict and typed image are compared with a reference model written from the documentation; held on the K executions reported in the evidence, which lists compiled-tree node classes reached.",
            "Trusted: the reference model (vf/spec.py) and its abstention zones; generators stay inside the supported grammar.", "DESIGN §5 C01"),
    "C02": ("monitor on ValidationError.errors of rejected calls: model-free additivity of independent violations + reference-model location/kind sets + canonical-order / determinism checker",
            "Exploration: errors lists of rejected generated data (k=1..5 simultaneous violations) are compared with the model's set of (location, rule) pairs; pairs of independent single violations must add up; the list must equal its own canonical re-flattening and be independent of dict insertion order.",
            "Trusted: reference model for locations; tagged settings.errors messages to read rule kinds; additivity restricted to union-free programs.", "DESIGN §5 C02"),
    "C03": ("boundary monitor on deserialize with hostile non-JSON inputs: outcome trichotomy, input/class fingerprints, errors JSON-serialisability, sys.monitoring step budget",
            "Exploration: every call on hostile data must return or raise ValidationError, leave input and user classes untouched, and finish within a logical step budget; held on the executions reported (hostile/coerce/no_copy/deep call counts in the evidence); includes probe types outside the reference model (Any inside sets / as key, float multipleOf, constraints given twice) and random digraphs of mutually recursive classes.",
            "Trusted: fingerprint walker; step budget constant; RecursionError beyond 200 nesting levels is the recorded finding F11.", "DESIGN §5 C03"),
    "C14": ("paired strict/coerced boundary monitor: model-free monotonicity + reference model extended with the documented coercion table + invariant hook on the boolean-word table + custom-coercer probes",
            "Exploration: each generated (type, datum) is run strict and with coerce=True; strict acceptance must be preserved (equal result when union-free), every coerced acceptance/rejection must be explained by the documented table, custom coercer results must still be type-checked, settings.deserialization.coerce must equal coerce=True; generated discriminated-union families are run strict and coerced too.",
            "Trusted: the coercion table transcribed from docs/de_serialization.md and the statement; abstains on bool-for-float and NaN under constraints.", "DESIGN §5 C14"),
    "C13": ("boundary monitor on deserialize/serialize of unions with the real per-alternative calls as oracle (try-each-alternative), discriminator mapping computed from the program spec",
            "Exploration: for generated unions (same-JSON-type pairs, by-type dispatch, Optional, unsupported members, union-level constraints; strict and coerce=True) the union call must accept iff some alternative accepts and return a value equal to the first accepting alternative's; discriminated unions (annotated / inherited / TypedDict; default, explicit, partial mappings) must behave as the mapped alternative, reject bad tags at the discriminator key, serialize as the matching alternative plus the key, and round-trip; TaggedUnion accepts exactly one tag.",
            "Trusted: apischema's own per-alternative deserialize/serialize (self-referential oracle); the discriminator mapping rule transcribed from docs/json_schema.md and the example.", "DESIGN §5 C13"),
    "C08": ("pairwise boundary monitor (same call with / without one optimisation option) + container-identity walker + input fingerprints",
            "Exploration: results and errors of deserialize/serialize must be identical across no_copy, override_dataclass_constructors, function vs precomputed method, check_type on well-typed values, deserialization pass_through (instances left untouched; JSON-only data, valid and invalid, with every JSON-free class of the type passed through) and all 2^5 PassThroughOptions flag sets (after completion with serialization_default); no_copy=False results share no mutable container with the input (Any positions included); inputs are never modified; a directed family of constructor shapes (hand-written __init__, subclass __init__, inherited / mixin __post_init__, __new__, __setattr__, frozen, slots ...) must give the same result with and without override_dataclass_constructors.",
            "Trusted: identity walker and JSON completion of pass-through results; abstains on unions whose alternatives overlap by runtime class (serialization side).", "DESIGN §5 C08"),
    "C06": ("differential monitor: verdict of deserialize vs an independent JSON Schema validator (jsonschema, draft 2020-12) on the generated deserialization_schema, restricted to the common semantic domain; explanatory defect models for region-wide known findings",
            "Exploration: for generated (type, options, datum) the real deserialize must accept iff jsonschema validates the datum against the schema generated with the same options (additional_properties, aliaser, all_refs, per-call schema, std conversions), incl. generated discriminated-union families (inherited / Annotated, TypedDict and Literal-tag alternatives, mappings) with data aimed at every alternative and tag mutants, and conversion graphs under every placement (registered / default_conversion= / conversion= / field) where a disagreement is reported only when the conversion-free reference type agrees with its own schema; disagreements inside a known-bad region are attributed to the finding only when the explanatory model reproduces the observed outcome exactly.",
            "Trusted: jsonschema 4.26 validators and meta-schemas; the OpenAPI re-reading of discriminated schemas used only to attribute F33; generators keep patterns in the Python/ECMA common subset; data with integer-valued floats / duplicates at set positions / ill-formatted strings at format positions are outside the domain.", "DESIGN §5 C06"),
    "C17": ("output monitor on *_schema / definitions_schema: dialect meta-schema validation (jsonschema), $ref closure / prefix walker, in-place reference-cycle detector, expected extraction set from use counts of the program spec, definitions_schema vs inline $defs, name-collision probes",
            "Exploration: every schema generated for the generated programs x entry points x 5 versions x all_refs x ref_factory must validate against the meta-schema of the dialect it declares, have every $ref resolve (inline or in definitions_schema called with the same arguments), contain no reference cycle through in-place applicators, extract exactly the expected named types, and two classes sharing a type name must be refused; for generated discriminated-union families also the discriminator mapping targets must be defined and the alternatives / discriminated parent extracted.",
            "Trusted: jsonschema's bundled meta-schemas; the walker's notion of sub-schema positions; the expected extraction set computed from the TypeSpec (walk stopping at already seen named types).", "DESIGN §5 C17"),
    "C18": ("differential monitor across dialects: the target dialect's own validator (jsonschema draft-07 / 2019-09; OpenAPI 3.0 through its documented mapping) vs the 2020-12 validator on the same data + foreign-keyword / reference-prefix walker over every sub-schema position",
            "Exploration: for generated programs and data, the schema produced with version=V must accept exactly what the 2020-12 schema accepts under V's rules, and contain only V's vocabulary and reference prefix at every nesting level (also inside definitions_schema for OpenAPI); all_refs and a per-call schema= are drawn and shared by the reference and the target dialect; every pair of inclusive / exclusive bound sets merged on one number (ties included) is swept.",
            "Trusted: jsonschema validators per draft; keyword sets per dialect listed in vf/jsonschema_o.py; OpenAPI 3.0 semantics = nullable mapping + draft-07.", "DESIGN §5 C18"),
    "C04": ("boundary monitor on serialize / serialization_method + executable reference model of the documented image (omission rule) + JSON-only walker + option-invariance probes (check_type, fall_back_on_any, typeless serialize)",
            "Exploration: for generated programs (incl. serialized methods, skip(serialization_if/default), none_as_undefined, with_fields_set) and well-typed values, the real output must be JSON-only and equal to the model's image under every sampled exclude_* / aliaser / additional_properties combination; check_type=True, fall_back_on_any=True and serialize(v) without type must not change it.",
            "Trusted: reference serialization model (vf/sermodel.py); abstains on class-ambiguous unions and on exclude_none for fields typed exactly None.", "DESIGN §5 C04"),
    "C05": ("round-trip monitor: serialize then deserialize (directly and through json) compared by canonical typed image; dual direction checked as fixpoint + subsumption of the input",
            "Exploration: on the bijective fragment (+ std converted types, generated discriminated-union families: the class selected by the tag and the round trip) every value drawn from the image of deserialize (and directly constructed values of the standard-library types; Decimals that are no float expansion are the known finding F104) must come back identical with the same runtime classes, also through json.dumps/loads and under aliasers; serialize(deserialize(d)) must contain d, re-deserialize to an equal value and be a fixpoint.",
            "Trusted: canonical image function; the generator's decision of the bijective fragment (documented exclusions are counted in the evidence).", "DESIGN §5 C05"),
    "C07": ("output monitor: serialize(T, v) validated by jsonschema against serialization_schema(T) generated under the same global settings + explicit key-level sub-claims (declared keys, required keys, methods / init=False fields present)",
            "Exploration: for generated programs and well-typed values, under the four combinations of global exclude_defaults / exclude_none, aliasers and additional_properties, the serialized data must validate against the serialization schema (also for Undefined-by-construction values of dataclasses / TypedDicts / NamedTuples, conversion graphs under every placement, and generated discriminated-union families, where a disagreement reproduced by the OpenAPI reading of `discriminator` is the known finding F33); every emitted key must be declared or allowed, every required key emitted, serialized methods and init=False fields present in properties.",
            "Trusted: jsonschema validator; explanatory model for the flattened-object finding (F22); dependent_required programs are not generated (input-side rule).", "DESIGN §5 C07"),
    "C19": ("boundary monitors on graphql_schema / validate_schema / print_schema / graphql_sync + resolver call log; oracles: model of the documented type mapping (one-to-one type-map walk), apischema.serialize for result data, apischema.deserialize for arguments",
            "Exploration: every generated program (data model + operations + settings) is built, validated with graphql-core, printed, walked against a model of the documented mapping (kinds, names under the GraphQL aliaser, nullability, ID, enum values, interfaces, unions, defaults), executed with queries selecting every field (result = serialize of the resolver value, enums by name, Undefined as null) and with valid / invalid / omitted arguments passed through variables or, for built-in scalars, written as literals (resolver log = deserialize values; explicit null for a None-default parameter = the default; invalid arguments give errors and an empty log); a directed family checks operation-level and field-level conversions aimed at list elements / Optional content (schema types and execution).",
            "Trusted: the mapping model and program generator (vf/c19_model.py), graphql-core 3.2.4; argument validity for GraphQL-well-typed data is decided by the real deserialize.", "DESIGN §5 C19"),
    "C09": ("history checker: forked history processes over a pool of registry-sensitive types; differential oracles = same observation after cache.reset() in a forked child + fresh interpreter replaying only the configuration; replay-based attribution of the culprit operation",
            "Exploration with an exhaustively enumerated sub-space: every observation of every executed history (short shapes S0-S4 over the sensitive operation/observation pairs, complete in the thorough tier when not time-capped, plus 50-200-step random histories) returned exactly what the same process returns after a cache reset and what a fresh interpreter returns after replaying only the configuration operations; held on the K observations reported, with the operation x observation matrix of what was exercised.",
            "Trusted: the pool module (ops are replayed by name), the canonical rendering, fork semantics, PYTHONHASHSEED=0. Not covered: GraphQL resolvers, user-kept precomputed methods (allowed to stay old), typing-equal unions (F21, known), threads (C20).", "DESIGN §5 C09"),
    "C11": ("boundary monitors on deserialize / serialize / *_schema / ValidationError.errors / graphql_schema type map (+ one graphql_sync execution) over enumerated alias x class-aliaser x dynamic-aliaser programs; oracle = two-line external-name formula, mismatches labelled by explanatory wrong formulas",
            "Exploration: for every generated object type and aliaser configuration the external name of each field is observed in 24 views (key consumed / produced, properties, required, dependentRequired of both schemas, error locs incl. validator-yielded aliases with one and with all validators of a class failing, classes declared directly or through a base class with the aliaser on the subclass, GraphQL output / input / argument names) and compared with aliaser(class_aliaser(alias or name)); thorough enumerates the whole stated pool (exhaustive flag in the evidence), quick a seeded slice covering every pair of feature values.",
            "Trusted: the two-line formula and the source emitter of vf/c11_gen.py; GraphQL views only for GraphQL-legal names; methods checked for agreement only.", "DESIGN §5 C11"),
    "C10": ("runtime monitoring: generated dataclasses whose validators write a call log and consult a harness pass/fail table; constructor counter; logical step budget; executable model of the documented run/skip/discard/merge rule; bounded-exhaustive core + seeded decorations",
            "Exploration: every generated (class, field-status vector, failing set, aliaser) is executed through the real deserialize; which validators ran, in which order, what they read, the merged ValidationError.errors, the constructor count and termination (step budget / RecursionError) are compared with a model written from docs/validation.md and the statement. Directed families: validators reading flattened / pattern / additional fields, validators entering a cycle of helper methods (2-4 helpers, every declaration order). Thorough executes the complete core space of <=3 fields x <=3 validators in plain form plus seeded decorated forms; held on the K executions reported in the evidence.",
            "Trusted: the model (vf/c10_model.py), the generated validators' own logging, the AST-visible dependency conventions. Not claimed: validators raising other exceptions, flattened/pattern/additional fields as dependencies, fall_back_on_default, class-level aliasers, non-dataclass object types. Known: F34.", "DESIGN §5 C10"),
    "C20": ("stress (2-16 threads, 1 microsecond switch interval, barriers, fresh types) + systematic schedule injection (sys.monitoring LINE park/yield at the recursion analysis, cache and lazy-initialisation code) + differential twin oracle + invariant monitor on the recursion dictionary + eviction follow-up",
            "Exploration of schedules: held on the executed interleavings -- about 2*10^3 (quick) / 5*10^4 (thorough) distinct two-thread schedules incl. every park point of the two-member recursive cluster, hundreds / thousands of stressed clusters with 2-16 threads; every concurrent call must equal the same call on a structurally identical twin type used sequentially, recursion-cache entries must be monotone and equal ground truth at quiescence, and re-use after cache eviction must still equal the baseline. The evidence reports the measured overlap of first uses, distinct write orders and schedules (zero overlap = inconclusive).",
            "Not all schedules; tight check-then-act windows outside the analysis are only reliably reached by the thorough tier. Trusted: the twin construction (shapes without overlapping cycles), the LINE-event injector, CPython 3.12 GIL semantics.", "DESIGN §5 C20"),
    "C12": ("boundary monitors on deserialize / serialize / *_schema with a self-referential commuting-square oracle (converted type vs erased source / target type executed by the same code), tagged converters observing which conversion ran where, placement model from the docs, jsonschema as secondary schema oracle",
            "Exploration: every generated conversion graph (families base / multi / chain<=3 / generic / two, wrappers depth<=3 incl. deque, placements registered / default_conversion / dynamic / field / sub, identity, inheritance incl. lazy bare converters and generic serializers through subclasses fixing the argument, lazy / recursive) x data agreed with its conversion-free reference on verdict, value, applied-conversion tags, serialized form and both schemas; held on the K executions reported.",
            "Abstains on the doc-ambiguous 'registered conversion from/to a container' for non-collection classes, on unions with overlapping runtime classes (serialization), and compares only verdicts where typing / the by-type union shortcut reword errors.", "DESIGN §5 C12"),
    "C15": ("history checker: generated constructor / deserialize / assign / set_fields / unset_fields / replace histories executed in lock step with a set-valued state machine; fields_set, is_set and serialize(exclude_unset=...) observed after each step",
            "Exploration: every history creator.mutator^k (k<=2 quick, <=3 thorough; creators = every subset of optional init parameters by constructor and by deserialize) over 16 with_fields_set class families, plus random histories of length <=8 and the same with override_dataclass_constructors, is executed on the real classes; after each step fields_set equals the model on the dataclass fields and serialize emits exactly the set fields (all with exclude_unset=False). Exhaustive for the enumerated sub-space (exhaustive: true when not time-capped).",
            "Trusted: the state-machine model (vf/checks/c15.py) and its two abstention zones (constructor of an undecorated dataclass subclass; always-marked fields explicitly unset before replace).", "DESIGN §5 C15"),
    "C16": ("monitor on the key order of serialize / deserialization_schema / serialization_schema / GraphQL object and input types of generated classes; declarative ordering constraints (permutation, sorted valued elements, adjacency of attachments) + pairwise agreement of views + permutation hook on sort_by_order",
            "Exploration: every ordering spec (none, order(v) v in {-1,0,1,999}, after/before any other element) over classes of n<=3 elements (quick; n<=4 thorough) in every split fields/methods, expressed as field metadata, class-level mapping over decoys, class-level sequence and across a base/sub pair, plus sampled n = 4/5, presence, alias and Field-object variants, is observed in five views; each observed sequence satisfies the declarative constraints and all views agree; on ill-formed specifications (after/before cycles, self reference, unknown targets) positions are unspecified but nothing may be lost or duplicated and the views must still agree. Exhaustive for the enumerated sub-space.",
            "Trusted: the effective-ordering resolution and constraint checker in vf/c16_model.py; sibling order and positions of elements with absent targets are unspecified (abstained, counted).", "DESIGN §5 C16"),
}
PLANNED = {
}
ALL = [f"C{i:02d}" for i in range(1, 21)]


def main():
    checks = []
    for pid, (tech, text, note, ref) in sorted(CHECKS.items()):
        checks.append({
            "property_id": pid,
            "quick_cmd": f"./check {pid} --tier quick",
            "thorough_cmd": f"./check {pid} --tier thorough",
            "evidence_file": f"/verif/evidence/{pid}.json",
            "replay_cmd_template": f"./check {pid} --replay {{path}}",
            "engine": "vf",
            "level_claimed": {"category": "exploration", "text": text, "design_ref": ref},
            "level_note": note,
            "technique": tech,
        })
    na = [{"property_id": p, "reason": PLANNED.get(p, "runtime-monitoring check designed (DESIGN.md §5) but not built/validated yet; not claimed until it runs silently on the unchanged tree")} for p in ALL if p not in CHECKS]
    m = {
        "version": 1,
        "setup_cmd": "./setup.sh",
        "hooks": {
            "guard": "APISCHEMA_VERIF",
            "enable": "no source hooks: all monitors are attached from the harness (class-level patching, sys.monitoring); checks import /repo's working tree directly",
            "baseline_off_cmd": BASE,
            "source_commits": [],
            "add_only": True,
        },
        "engines": [
            {"name": "vf", "path": "vf/", "serves_properties": sorted(CHECKS), "kind_free_text": "runtime monitoring: program/data generators, boundary recorders, reference models, history checkers, known-findings matcher"},
        ],
        "checks": checks,
        "not_applicable": na,
        "notes": "Known findings: known_findings.json. Repairs of genuine defects are 'fix:' commits in /repo, listed as status=fixed there.",
    }
    with open(os.path.join(VERIF, "MANIFEST.json"), "w") as f:
        json.dump(m, f, indent=1)
    print("MANIFEST.json:", len(checks), "checks,", len(na), "not claimed")


if __name__ == "__main__":
    main()
