"""C11 -- a field has one external name across every view.

Monitored views of each field of each generated class (all observed on executions of the real code):
  deser-key / deser-alt-spelling   key consumed by deserialize (accepted under the expected name, value lands in the field; any other
                                   spelling -> unexpected (+ missing when required))
  ser-key                          key produced by serialize
  d/sschema-properties|required|depreq   entries of deserialization_schema / serialization_schema
  loc-type / loc-missing / loc-depreq    errors[].loc of ill-typed / missing / dependent-required values
  loc-validator-*                  loc of errors yielded by validators through get_alias(...).f, AliasedStr, tuple paths, @validator(field)
  get_alias                        apischema.objects.get_alias (static part of the name)
  graphql-output|input|arg|operation|resolver|arg-error-loc   names in the GraphQL type map (and loc of an argument error)
Oracle: vf.c11_gen.ext = dyn(class_aliaser(alias or name)), class aliaser skipped when override=False; every view must equal it
(hence all views agree pairwise). Serialized / resolver methods are not fields: only agreement between their views is demanded.
"""
import json
import linecache
import sys
import types

from vf import c11_gen as G
from vf import harness
from vf.core import h64
from vf.harness import call, err_kind

PROP = "C11"
SHARDS = {"quick": 8, "thorough": 16}
TIME_CAP = {"quick": 55, "thorough": 850}
VIEWS = ["deser-key", "deser-alt-spelling", "ser-key", "dschema-properties", "dschema-required", "dschema-depreq", "sschema-properties",
         "sschema-required", "sschema-depreq", "loc-type", "loc-missing", "loc-depreq", "loc-validator-get_alias", "loc-validator-aliasedstr",
         "loc-validator-field", "loc-validator-path", "get_alias", "graphql-output", "graphql-input", "graphql-arg", "graphql-operation",
         "graphql-resolver", "graphql-arg-error-loc", "method-agreement"]
REQUIRED = ["ser_views_with_additional_properties", "programs", "program_configs"] + ["view:" + v for v in VIEWS] + ["mode:default", "mode:call", "mode:global", "mode:camel_case", "mode:global+call",
                                                                             "struct:nested", "struct:flattened", "struct:depreq", "struct:methods",
                                                                             "kind:dataclass", "kind:namedtuple", "kind:typeddict", "pairwise_agreement_fields"]
RULE = ("enumerated object types: 1-2 fields (seeded extras: 3-4) drawn from a pool of 13 naming features (snake, camelCase, _private, keyword aliases "
        "'class'/'from'/'import', '$ref'/'$id', alias(override=False) with and without alias) x {dataclass, NamedTuple, TypedDict} x class aliaser "
        "{none, upper, prefix} x structure {flat, nested, flattened, dependent_required, serialized/resolver methods} x required/default patterns, each "
        "under dynamic aliasers {identity, camelCase, kebab, suffix} delivered per call / settings.aliaser / settings.camel_case / global overridden "
        "per call. A case = (program, configuration, view); distinct by hash; thorough enumerates the whole pool, quick is a seeded slice completed "
        "greedily so that every pair of feature values (naming feature, kind, class aliaser, structure, dynamic aliaser, mode) occurs.")
ASSUMPTIONS = ["generated programs only use external names that are pairwise distinct within one object level under the configuration (others are ill-formed: skipped and counted)",
               "GraphQL views only for names matching /^[_a-zA-Z][_a-zA-Z0-9]*$/ (not starting with __) after aliasing; TypedDict is not an output type",
               "serialized / resolver methods are not fields: whether the class aliaser applies to them is unspecified; only agreement of their views is checked",
               "exactness of `required` is demanded for the deserialization schema only; for the serialization schema only that every entry is an external name"]

_counter = [0]


class Loaded:
    def __init__(self, source):
        _counter[0] += 1
        name = f"vfc11_{_counter[0]}"
        mod = types.ModuleType(name)
        fn = f"<{name}>"
        mod.__file__ = fn
        linecache.cache[fn] = (len(source), None, source.splitlines(True), fn)
        sys.modules[name] = mod
        try:
            exec(compile(source, fn, "exec"), mod.__dict__)
        except BaseException:
            sys.modules.pop(name, None)
            linecache.cache.pop(fn, None)
            raise
        self.module = mod

    def unload(self):
        sys.modules.pop(self.module.__name__, None)
        linecache.cache.pop(self.module.__file__, None)


class Cx:
    """one (program, configuration) under observation"""

    def __init__(self, env, prog, source, mod, cfg):
        self.env, self.prog, self.source, self.mod, self.cfg = env, prog, source, mod, cfg
        self.by_name = {c["name"]: c for c in prog["classes"]}
        self.top = self.by_name[prog["top"]]
        self.dyn = G.dyn_of(cfg["dyn"])
        self.gdyn = G.dyn_of(cfg["gql"])
        self.kw = {"aliaser": self.dyn} if cfg["mode"] in ("call", "global+call") else {}
        self.obs = {}
        self.sig = (G.prog_sig(prog), tuple(sorted(cfg.items())))

    def E(self, cls, f, dyn=None):
        return G.ext(cls, f, dyn or self.dyn)

    def inner(self, f):
        return self.by_name[f["inner"]]

    # ---- recording
    def seen(self, view, cls, f, observed, gql=False):
        self.env.count("view:" + view)
        self.obs.setdefault((cls["name"], f["id"]), {})[("g:" if gql else "j:") + view] = observed

    def mismatch(self, view, cls, f, observed, expected, where, dyn=None, **extra):
        feats = {"kind": "view-mismatch", "view": view, "observed_as": G.label_observed(observed, cls, f, dyn or self.dyn), "where": where}
        self.report(feats, {"view": view, "class": cls["name"], "field": f["name"], "expected": expected, "observed": observed, **extra})

    def report(self, feats, wit):
        self.env.violation(feats, {"program": self.prog, "config": self.cfg, "source": self.source, **wit})

    def compare(self, view, cls, f, observed, where, gql=False, **extra):
        dyn = self.gdyn if gql else self.dyn
        exp = self.E(cls, f, dyn)
        self.seen(view, cls, f, observed, gql)
        if observed != exp:
            self.mismatch(view, cls, f, observed, exp, where, dyn, **extra)
            return False
        return True


# ---------------------------------------------------------------- structure walkers
def walk(cx, cls, path=(), where="top", level=None):
    """(level_cls, path, cls, f, where) for every field; flattened inner fields stay at the parent's level / path."""
    level = level or cls
    for f in cls["fields"]:
        if f["role"] == "flat":
            yield from walk(cx, cx.inner(f), path, "flattened-inner", level)
        else:
            yield level, path, cls, f, where
            if f["role"] == "nested":
                yield from walk(cx, cx.inner(f), path + (cx.E(cls, f),), "nested-inner", None)


def level_names(cx, cls, dyn=None):
    """external names present at the level of an object of class cls (flattened inner names merged): name -> (cls, f)"""
    out = {}
    for f in cls["fields"]:
        if f["role"] == "flat":
            for k, v in level_names(cx, cx.inner(f), dyn).items():
                out.setdefault(k, []).extend(v)
        else:
            out.setdefault(cx.E(cls, f, dyn), []).append((cls, f))
    return out


def well_formed(cx, dyn):
    for c in cx.prog["classes"]:
        names = level_names(cx, c, dyn)
        if any(len(v) > 1 for v in names.values()):
            return False
        meths = [d(m["alias"] or m["func"]) for m in c["methods"] for d in [dyn]] + [dyn(G.CLASS_AL[c["class_aliaser"]](m["alias"] or m["func"])) for m in c["methods"] if c["class_aliaser"]]
        if set(meths) & set(names):
            return False
    return True


def valid_datum(cx, cls, rename=None, drop=(), bad=False, only=None):
    d = {}
    for f in cls["fields"]:
        key = (cls["name"], f["id"])
        if f["role"] == "flat":
            d.update(valid_datum(cx, cx.inner(f), rename, drop, bad, only))
            continue
        if key in drop or (only is not None and key not in only):
            continue
        k = (rename or {}).get(key, cx.E(cls, f))
        if f["role"] == "nested":
            d[k] = valid_datum(cx, cx.inner(f), rename, drop, bad, None)
        else:
            d[k] = "bad" if bad else G.value_of(f)
    return d


def get_value(obj, cls, name):
    return obj[name] if cls["kind"] == "typeddict" else getattr(obj, name)


def errset(errors):
    return {(tuple(e["loc"]), err_kind(e["err"])) for e in errors}


# ---------------------------------------------------------------- views
def attribute_missing(cx, view, extra_locs, expected_missing, fields_at):
    """expected errors that did not show up: label them with the unexplained observed locs of the same depth"""
    for loc, (cls, f, where) in expected_missing.items():
        cands = [x[-1] for x in extra_locs if len(x) == len(loc) and x[:-1] == loc[:-1]]
        obs = None
        for lab, v in G.candidates(cls, f, cx.dyn):
            if v in cands:
                obs = v
                break
        if obs is None and cands:
            obs = sorted(map(str, cands))[0]
        cx.mismatch(view, cls, f, obs, loc[-1], where, all_observed=sorted(map(list, extra_locs), key=repr))


def view_deser(cx, T):
    from apischema import deserialize

    env = cx.env
    datum = valid_datum(cx, cx.top)
    o = call(deserialize, T, datum, **cx.kw)
    env.case(cx.sig, "deser-key")
    fields = list(walk(cx, cx.top))
    if o.kind == "exc":
        cx.report({"kind": "exception", "view": "deser-key", "exc": o.exc}, {"datum": datum, "observed": o.brief()})
        return False
    if o.kind == "ok":
        def chk(obj, cls, where):
            for f in cls["fields"]:
                try:
                    v = get_value(obj, cls, f["name"])
                except Exception:
                    v = "<absent>"
                if f["role"] == "plain":
                    cx.seen("deser-key", cls, f, cx.E(cls, f))
                    if v != G.value_of(f):
                        cx.report({"kind": "view-mismatch", "view": "deser-key", "observed_as": "value-landed-elsewhere", "where": where},
                                  {"datum": datum, "field": f["name"], "value": v, "result": repr(o.value)[:300]})
                else:
                    cx.seen("deser-key", cls, f, cx.E(cls, f))
                    chk(v, cx.inner(f), "flattened-inner" if f["role"] == "flat" else "nested-inner")
        try:
            chk(o.value, cx.top, "top")
        except Exception as e:  # pragma: no cover
            cx.report({"kind": "harness", "view": "deser-key", "exc": type(e).__name__}, {"datum": datum, "msg": str(e)})
        return True
    # rejected although keyed by the expected names: find out which spelling each failing field wants
    es = errset(o.errors)
    attributed = False
    for level, path, cls, f, where in fields:
        exp = cx.E(cls, f)
        if (path + (exp,), "unexpected") not in es:
            continue
        wanted = None
        for lab, v in G.candidates(cls, f, cx.dyn):
            if v == exp:
                continue
            o2 = call(deserialize, T, valid_datum(cx, cx.top, rename={(cls["name"], f["id"]): v}), **cx.kw)
            if o2.kind == "ok" or (o2.kind == "verr" and not any(loc[: len(path) + 1] in (path + (v,), path + (exp,)) for loc, _ in errset(o2.errors))):
                wanted = v
                break
        cx.seen("deser-key", cls, f, wanted)
        cx.mismatch("deser-key", cls, f, wanted, exp, where, datum=datum, errors=o.errors[:10])
        attributed = True
    if not attributed:
        cx.report({"kind": "view-mismatch", "view": "deser-key", "observed_as": "unattributed", "where": "top"}, {"datum": datum, "errors": o.errors[:10]})
    return False


def view_alt_spellings(cx, T):
    from apischema import deserialize

    env = cx.env
    for level, path, cls, f, where in walk(cx, cx.top):
        exp = cx.E(cls, f)
        taken = level_names(cx, level)
        alts = []
        for lab, v in G.candidates(cls, f, cx.dyn):
            if v != exp and v not in taken and v not in alts:
                alts.append(v)
        for alt in alts[: (1 if env.quick() else 2)]:
            datum = valid_datum(cx, cx.top, rename={(cls["name"], f["id"]): alt})
            o = call(deserialize, T, datum, **cx.kw)
            env.case(cx.sig, "alt", cls["name"], f["id"], alt)
            env.count("view:deser-alt-spelling")
            required_by = any(f["name"] in reqs for reqs in cls["depreq"].values())
            expected = {(path + (alt,), "unexpected")}
            if f["required"] or required_by:
                expected.add((path + (exp,), "missing"))
            if o.kind == "ok":
                cx.report({"kind": "alt-spelling-accepted", "view": "deser-alt-spelling", "observed_as": G.label_observed(alt, cls, f, cx.dyn), "where": where},
                          {"datum": datum, "field": f["name"], "expected_key": exp, "accepted_key": alt, "result": repr(o.value)[:300]})
            elif o.kind == "exc":
                cx.report({"kind": "exception", "view": "deser-alt-spelling", "exc": o.exc}, {"datum": datum, "observed": o.brief()})
            else:
                es = errset(o.errors)
                if es != expected:
                    miss = {loc: (cls, f, where) for loc, k in expected - es if k == "missing"}
                    extra = [loc for loc, k in es - expected]
                    if miss:
                        attribute_missing(cx, "loc-missing", extra, miss, None)
                    else:
                        cx.report({"kind": "error-set-mismatch", "view": "deser-alt-spelling", "where": where},
                                  {"datum": datum, "expected": sorted(map(list, expected), key=repr), "errors": o.errors[:10]})


def view_error_locs(cx, T):
    from apischema import deserialize

    env = cx.env
    fields = list(walk(cx, cx.top))

    def run(view, datum, expected):
        """expected: {(loc, kind): (cls, f, where)}"""
        if not expected:
            env.count("abstain:no-expected-error:" + view)
            return
        o = call(deserialize, T, datum, **cx.kw)
        env.case(cx.sig, view, json.dumps(datum, sort_keys=True)[:200])
        if o.kind != "verr":
            cx.report({"kind": "exception" if o.kind == "exc" else "accepted-invalid", "view": view, "exc": o.exc}, {"datum": datum, "observed": o.brief()})
            return
        es = errset(o.errors)
        for (loc, k), (cls, f, where) in expected.items():
            cx.seen(view, cls, f, loc[-1] if (loc, k) in es else None)
        if es != set(expected):
            miss = {loc: v for (loc, k), v in expected.items() if (loc, k) not in es}
            extra = [loc for loc, k in es - set(expected)]
            if miss:
                attribute_missing(cx, view, extra, miss, None)
            else:
                cx.report({"kind": "error-set-mismatch", "view": view}, {"datum": datum, "expected": sorted(map(list, (l for l, _ in expected)), key=repr), "errors": o.errors[:10]})

    # ill-typed values everywhere
    run("loc-type", valid_datum(cx, cx.top, bad=True),
        {(path + (cx.E(cls, f),), "type"): (cls, f, where) for _, path, cls, f, where in fields if f["role"] == "plain"})
    # everything missing at the top level
    run("loc-missing", {}, {(path + (cx.E(cls, f),), "missing"): (cls, f, where) for _, path, cls, f, where in fields if not path and f["required"]})
    # nested object present but empty
    nested = [(path, cls, f) for _, path, cls, f, _ in fields if f["role"] == "nested" and not path]
    for path, cls, f in nested:
        inner = cx.inner(f)
        datum = valid_datum(cx, cx.top)
        datum[cx.E(cls, f)] = {}
        run("loc-missing", datum, {(p, "missing"): (c, g, w) for _, pth, c, g, w in walk(cx, inner, (cx.E(cls, f),), "nested-inner") if g["required"] and len(pth) == 1
                                   for p in [pth + (cx.E(c, g),)]})
    # dependent_required
    for a, reqs in cx.top["depreq"].items():
        fa = next(f for f in cx.top["fields"] if f["name"] == a)
        fbs = [f for f in cx.top["fields"] if f["name"] in reqs]
        datum = {cx.E(cx.top, fa): G.value_of(fa)}
        run("loc-depreq", datum, {((cx.E(cx.top, fb),), "missing"): (cx.top, fb, "top") for fb in fbs})


def view_validators(cx, T):
    from apischema import deserialize

    env = cx.env
    fire = cx.mod.FIRE
    datum = valid_datum(cx, cx.top)
    # where each class instance sits in the datum
    places = [(cx.top, (), "top")]
    for f in cx.top["fields"]:
        if f["role"] == "nested":
            places.append((cx.inner(f), (cx.E(cx.top, f),), "nested-inner"))
        elif f["role"] == "flat":
            places.append((cx.inner(f), (), "flattened-inner"))
    for cls, path, where in places:
        if not cls["validators"]:
            continue
        plain = [f for f in cls["fields"] if f["role"] != "flat"]
        expected = {}  # msg -> (view, loc, cls, f)
        for f in plain:
            expected[f"§va:{f['id']}"] = ("loc-validator-get_alias", path + (cx.E(cls, f),), cls, f)
            if f["role"] == "nested":
                inner = cx.inner(f)
                for g in inner["fields"]:
                    expected[f"§vp:{g['id']}"] = ("loc-validator-path", path + (cx.E(cls, f), cx.E(inner, g)), inner, g)
        raw = {"name": "raw_key", "alias": None, "override": False, "id": 0}
        raw2 = {"name": "raw_key2", "alias": None, "override": False, "id": -1}
        expected["§vs"] = ("loc-validator-aliasedstr", path + (cx.dyn("raw_key"),), cls, raw)
        expected["§vs2"] = ("loc-validator-aliasedstr", path + (cx.dyn("raw_key2"), cx.E(cls, plain[0])), cls, plain[0])
        runs = [(f"va:{cls['name']}", expected)]
        if cls["kind"] == "dataclass":
            for f in plain[:2]:
                runs.append((f"vf:{f['id']}", {f"§vf:{f['id']}": ("loc-validator-field", path + (cx.E(cls, f),), cls, f)}))
        if len(runs) > 1:
            # every validator failing at once: the field validators discard their field, the following ones run in the
            # "after a discard" continuation of the validation and must report under the same names
            runs.append(("+".join(t for t, _ in runs), {k: v for _, e in runs for k, v in e.items()}))
        for tag, exp in runs:
            fire.clear()
            fire.update(tag.split("+"))
            try:
                o = call(deserialize, T, datum, **cx.kw)
            finally:
                fire.clear()
            env.case(cx.sig, "validator", tag)
            if o.kind != "verr":
                cx.report({"kind": "validator-error-absent", "view": "loc-validator", "outcome": o.kind, "exc": o.exc}, {"datum": datum, "validator": tag, "observed": o.brief()})
                continue
            by_msg = {}
            for e in o.errors:
                by_msg.setdefault(e["err"], []).append(tuple(e["loc"]))
            for msg, (view, loc, c, f) in exp.items():
                got = by_msg.pop(msg, None)
                if got is None:
                    cx.report({"kind": "validator-error-absent", "view": view, "outcome": "verr"}, {"datum": datum, "validator": tag, "msg": msg, "errors": o.errors[:10]})
                    continue
                env.count("view:" + view)
                if got != [loc]:
                    g0 = got[0]
                    # first differing element labels the mismatch
                    i = next((i for i, (x, y) in enumerate(zip(g0, loc)) if x != y), min(len(g0), len(loc)))
                    observed = g0[i] if i < len(g0) else None
                    lab_f = f
                    if msg == "§vs2" and i < len(loc) - 1:
                        lab_f = raw2
                    if view == "loc-validator-path" and i == len(path):
                        lab_f = next(h for h in cls["fields"] if h["role"] == "nested")
                        c = cls
                    cx.mismatch(view, c, lab_f, observed, loc[i] if i < len(loc) else None, where, validator=tag, expected_loc=list(loc), observed_locs=[list(x) for x in got], datum=datum)
            if by_msg:
                cx.report({"kind": "error-set-mismatch", "view": "loc-validator"}, {"datum": datum, "validator": tag, "unexpected_errors": {k: [list(x) for x in v] for k, v in by_msg.items()}})


def view_get_alias(cx):
    from apischema.objects import get_alias

    for c in cx.prog["classes"]:
        ga = get_alias(getattr(cx.mod, c["name"]))
        for f in c["fields"]:
            if f["role"] == "flat":
                continue
            try:
                got = str(getattr(ga, f["name"]))
            except Exception as e:
                got = None
            cx.env.count("view:get_alias")
            exp = G.static_name(c, f)
            if got != exp:
                cx.mismatch("get_alias", c, f, got, exp, "static", dyn=G.dyn_identity)


def view_ser(cx, T):
    from apischema import serialize

    env = cx.env
    inst = cx.mod.make_instance()
    o = call(serialize, T, inst, **cx.kw)
    env.case(cx.sig, "ser-key")
    if o.kind != "ok":
        cx.report({"kind": "exception", "view": "ser-key", "exc": o.exc or "ValidationError"}, {"observed": o.brief()})
        return {}
    out = o.value
    meth_obs = {}

    def level(cls, d, where, consumed):
        if not isinstance(d, dict):
            cx.report({"kind": "view-mismatch", "view": "ser-key", "observed_as": "not-an-object", "where": where}, {"output": out})
            return
        for f in cls["fields"]:
            if f["role"] == "flat":
                level(cx.inner(f), d, "flattened-inner", consumed)
                continue
            if f["role"] == "plain":
                keys = [k for k, v in d.items() if type(v) is int and v == G.value_of(f)]
            else:
                keys = [k for k, v in d.items() if isinstance(v, dict)]
            obs = keys[0] if len(keys) == 1 else None
            consumed.update(keys)
            cx.compare("ser-key", cls, f, obs, where, output=out)
            if f["role"] == "nested" and obs is not None:
                c2 = set()
                level(cx.inner(f), d[obs], "nested-inner", c2)
                rest = set(d[obs]) - c2
                if rest:
                    cx.report({"kind": "extra-key", "view": "ser-key", "where": "nested-inner"}, {"output": out, "extra": sorted(rest)})
        for m in cls["methods"]:
            keys = [k for k, v in d.items() if type(v) is int and v == 9000 + m["id"]]
            consumed.update(keys)
            meth_obs[m["id"]] = keys[0] if len(keys) == 1 else None

    consumed = set()
    level(cx.top, out, "top", consumed)
    if isinstance(out, dict) and set(out) - consumed:
        cx.report({"kind": "extra-key", "view": "ser-key", "where": "top"}, {"output": out, "extra": sorted(set(out) - consumed)})
    return meth_obs


def collect(node, root, depth=0):
    """(properties, required, dependentRequired) of an object schema, merging allOf branches and following $ref"""
    props, req, dep = {}, [], {}
    present = False
    if not isinstance(node, dict) or depth > 20:
        return props, req, None
    if "$ref" in node:
        ref = node["$ref"]
        if ref.startswith("#/"):
            tgt = root
            for part in ref[2:].split("/"):
                tgt = tgt.get(part, {}) if isinstance(tgt, dict) else {}
            p, r, d = collect(tgt, root, depth + 1)
            props.update(p)
            req += r
            if d is not None:
                dep.update(d)
                present = True
    for sub in node.get("allOf", []):
        p, r, d = collect(sub, root, depth + 1)
        props.update(p)
        req += r
        if d is not None:
            dep.update(d)
            present = True
    props.update(node.get("properties", {}))
    req += list(node.get("required", []))
    if "dependentRequired" in node:
        dep.update(node["dependentRequired"])
        present = True
    return props, req, (dep if present else None)


def desc_of(sub, root):
    if isinstance(sub, dict):
        if "description" in sub:
            return sub["description"]
    return None


def view_schema(cx, T, which):
    from apischema.json_schema import deserialization_schema, serialization_schema

    env = cx.env
    pre = which[0]
    fn = deserialization_schema if which == "deserialization" else serialization_schema
    o = call(fn, T, **cx.kw)
    env.case(cx.sig, which + "-schema")
    if o.kind != "ok":
        cx.report({"kind": "exception", "view": pre + "schema", "exc": o.exc or "ValidationError"}, {"observed": o.brief()})
        return {}
    root = o.value
    meth_obs = {}

    def level(cls, node, where):
        props, req, dep = collect(node, root)
        names = level_names(cx, cls)
        by_desc = {}
        for k, sub in props.items():
            d = desc_of(sub, root)
            if d is not None:
                by_desc.setdefault(d, []).append(k)
        extras = set(props) - set(names)
        matched = set()
        for name, [(c, f)] in names.items():
            w = where if c is cls else "flattened-inner"
            ks = by_desc.get(f"F{f['id']}")
            if ks is not None and len(ks) == 1:
                obs = ks[0]
            elif name in props:
                obs = name
            else:
                obs = next((v for lab, v in G.candidates(c, f, cx.dyn) if v in extras), None)
            matched.add(obs)
            cx.compare(pre + "schema-properties", c, f, obs, w, schema=root)
            if f["role"] == "nested" and obs is not None:
                level(cx.inner(f), props[obs], "nested-inner")
        # methods (serialization schema only): properties not explained by fields
        rest = set(props) - matched
        for m in cls["methods"]:
            cand = {cx.dyn(m["alias"] or m["func"])}
            if cls["class_aliaser"]:
                cand.add(cx.dyn(G.CLASS_AL[cls["class_aliaser"]](m["alias"] or m["func"])))
            hit = sorted(rest & cand)
            if which == "serialization":
                meth_obs[m["id"]] = hit[0] if len(hit) == 1 else None
            rest -= cand
        if rest:
            cx.report({"kind": "extra-key", "view": pre + "schema-properties", "where": where}, {"schema": root, "extra": sorted(rest)})
        # required
        env.count("view:" + pre + "schema-required")
        exp_req = {n for n, [(c, f)] in names.items() if f["required"]}
        if which == "deserialization":
            bad = set(req) != exp_req
        else:
            bad = not set(req) <= set(props)
            exp_req = set(props)
        if bad:
            wrong = sorted(set(req) - exp_req)
            done = False
            for name, [(c, f)] in names.items():
                if (f["required"] or which == "serialization") and name not in req:
                    obs = next((v for lab, v in G.candidates(c, f, cx.dyn) if v in wrong), None)
                    if obs is not None or which == "deserialization":
                        cx.mismatch(pre + "schema-required", c, f, obs, name, where if c is cls else "flattened-inner", required=req, schema=root)
                        done = True
            if not done:
                cx.report({"kind": "error-set-mismatch", "view": pre + "schema-required", "where": where}, {"required": req, "expected": sorted(exp_req), "schema": root})
        # dependentRequired
        if cls["depreq"]:
            by = {f["name"]: f for f in cls["fields"]}
            exp_dep = {cx.E(cls, by[a]): sorted(cx.E(cls, by[b]) for b in bs) for a, bs in cls["depreq"].items()}
            obs_dep = None if dep is None else {k: sorted(v) for k, v in dep.items()}
            for a, bs in cls["depreq"].items():
                env.count("view:" + pre + "schema-depreq")
                ka = cx.E(cls, by[a])
                if obs_dep is None or ka not in obs_dep:
                    obs = None if not obs_dep else next((v for lab, v in G.candidates(cls, by[a], cx.dyn) if v in obs_dep), sorted(obs_dep)[0])
                    cx.mismatch(pre + "schema-depreq", cls, by[a], obs, ka, where, part="key", dependentRequired=obs_dep, expected_map=exp_dep)
                    continue
                for b in bs:
                    kb = cx.E(cls, by[b])
                    if kb not in obs_dep[ka]:
                        obs = next((v for lab, v in G.candidates(cls, by[b], cx.dyn) if v in obs_dep[ka]), (obs_dep[ka] or [None])[0])
                        cx.mismatch(pre + "schema-depreq", cls, by[b], obs, kb, where, part="value", dependentRequired=obs_dep, expected_map=exp_dep)
                if len(obs_dep[ka]) != len(bs) or set(obs_dep) != set(exp_dep):
                    if all(cx.E(cls, by[b]) in obs_dep[ka] for b in bs) and set(obs_dep) != set(exp_dep):
                        cx.report({"kind": "extra-key", "view": pre + "schema-depreq", "where": where}, {"dependentRequired": obs_dep, "expected_map": exp_dep})

    level(cx.top, root, "top")
    return meth_obs


def gql_expected_names(cx):
    """every name the GraphQL schema of this program must contain under the GraphQL aliaser"""
    d = cx.gdyn
    names = [d(cx.prog["op"]["alias"] or cx.prog["op"]["func"]), d("inp")] + [d(a["alias"] or a["name"]) for a in cx.prog["args"]]
    for c in cx.prog["classes"]:
        names += [cx.E(c, f, d) for f in c["fields"] if f["role"] != "flat"]
        for m in c["methods"]:
            if m["how"].startswith("resolver"):
                names.append(d(m["alias"] or m["func"]))
                if c["class_aliaser"]:
                    names.append(d(G.CLASS_AL[c["class_aliaser"]](m["alias"] or m["func"])))
                if m["arg"]:
                    names.append(d(m["arg"]["alias"] or m["arg"]["name"]))
    return names


def view_graphql(cx):
    import graphql
    from apischema import alias
    from apischema.graphql import Query, graphql_schema

    env = cx.env
    d = cx.gdyn
    if not all(G.gql_legal(n) for n in gql_expected_names(cx)) or not well_formed(cx, d):
        env.count("graphql_skipped_illegal_or_colliding_name")
        return {}
    prog = cx.prog
    func = getattr(cx.mod, prog["op"]["func"])
    pm = {a["name"]: alias(a["alias"]) for a in prog["args"] if a["alias"]}
    q = Query(func, alias=prog["op"]["alias"], parameters_metadata=pm)
    mode = cx.cfg["mode"]
    kw = {} if mode == "default" else ({"aliaser": d} if mode in ("call", "global+call") else {"aliaser": None})
    o = call(graphql_schema, query=[q], **kw)
    env.case(cx.sig, "graphql")
    if o.kind == "ok":
        try:
            type_map = o.value.type_map
            qfields = dict(o.value.query_type.fields)
            for t in type_map.values():
                if hasattr(t, "fields") and not t.name.startswith("__"):
                    t.fields
        except Exception as e:
            o = harness.Outcome("exc", exc=type(e).__name__, msg=str(e))
    if o.kind != "ok":
        cx.report({"kind": "exception", "view": "graphql-build", "exc": o.exc or "ValidationError"}, {"observed": o.brief()})
        return {}
    schema = o.value
    # operation
    op_f = {"name": prog["op"]["func"], "alias": prog["op"]["alias"], "override": False, "id": 0}
    nocls = {"name": "<operation>", "class_aliaser": None}
    exp_op = d(prog["op"]["alias"] or prog["op"]["func"])
    env.count("view:graphql-operation")
    if list(qfields) != [exp_op]:
        cx.mismatch("graphql-operation", nocls, op_f, next(iter(qfields), None), exp_op, "operation", dyn=d)
    opname, opfield = next(iter(qfields.items()))
    # arguments (identified by default value / type)
    arg_obs = {}
    for name, arg in opfield.args.items():
        if arg.default_value == 0:
            arg_obs[0] = name
        elif arg.default_value == 1:
            arg_obs[1] = name
        else:
            arg_obs["inp"] = name
    for i, a in list(enumerate(prog["args"])) + [("inp", {"name": "inp", "alias": None})]:
        af = {"name": a["name"], "alias": a["alias"], "override": False, "id": 0}
        env.count("view:graphql-arg")
        if arg_obs.get(i) != d(a["alias"] or a["name"]):
            cx.mismatch("graphql-arg", nocls, af, arg_obs.get(i), d(a["alias"] or a["name"]), "operation", dyn=d)
    meth_obs = {}

    def obj_type(cls, tname, view, where):
        t = type_map.get(tname)
        if t is None or not hasattr(t, "fields"):
            cx.report({"kind": "view-mismatch", "view": view, "observed_as": "type-absent", "where": where}, {"type": tname, "types": sorted(k for k in type_map if not k.startswith("__"))})
            return
        flds = t.fields
        by_desc = {}
        for k, fl in flds.items():
            if fl.description:
                by_desc.setdefault(fl.description, []).append(k)
        names = level_names(cx, cls, d)
        matched = set()
        for name, [(c, f)] in names.items():
            ks = by_desc.get(f"F{f['id']}")
            if ks is not None and len(ks) == 1:
                obs = ks[0]
            elif name in flds:
                obs = name
            else:
                obs = next((v for lab, v in G.candidates(c, f, d) if v in flds), None)
            matched.add(obs)
            cx.compare(view, c, f, obs, where if c is cls else "flattened-inner", gql=True, type=tname, fields=sorted(flds))
        rest = set(flds) - matched
        if view == "graphql-output":
            for m in cls["methods"]:
                if not m["how"].startswith("resolver"):
                    continue
                cand = {d(m["alias"] or m["func"])}
                if cls["class_aliaser"]:
                    cand.add(d(G.CLASS_AL[cls["class_aliaser"]](m["alias"] or m["func"])))
                hit = sorted(rest & cand)
                env.count("view:graphql-resolver")
                meth_obs[m["id"]] = hit[0] if len(hit) == 1 else None
                rest -= cand
                if len(hit) == 1 and m["arg"]:
                    an = list(flds[hit[0]].args)
                    af = {"name": m["arg"]["name"], "alias": m["arg"]["alias"], "override": False, "id": 0}
                    env.count("view:graphql-arg")
                    if an != [d(m["arg"]["alias"] or m["arg"]["name"])]:
                        cx.mismatch("graphql-arg", nocls, af, an[0] if an else None, d(m["arg"]["alias"] or m["arg"]["name"]), "resolver", dyn=d)
        if rest:
            cx.report({"kind": "extra-key", "view": view, "where": where}, {"type": tname, "fields": sorted(flds), "extra": sorted(rest)})

    tops = [cx.top] + [cx.by_name[f["inner"]] for f in cx.top["fields"] if f["role"] == "nested"]
    for i, c in enumerate(tops):
        obj_type(c, c["name"] + "Input", "graphql-input", "top" if i == 0 else "nested-inner")
        if G.graphql_output_ok(prog):
            obj_type(c, c["name"], "graphql-output", "top" if i == 0 else "nested-inner")
    # loc of an argument error (needs an execution): arg 0 carries schema(min=0)
    if 0 in arg_obs:
        sel = " { __typename }" if G.graphql_output_ok(prog) else ""
        query = "{ %s(%s: -1)%s }" % (opname, arg_obs[0], sel)
        r = call(graphql.graphql_sync, schema, query)
        env.case(cx.sig, "graphql-arg-error-loc")
        a = prog["args"][0]
        af = {"name": a["name"], "alias": a["alias"], "override": False, "id": 0}
        loc = None
        try:
            errs = r.value.errors[0].original_error.args[0]
            loc = errs[0]["loc"]
        except Exception:
            cx.report({"kind": "harness", "view": "graphql-arg-error-loc"}, {"query": query, "observed": repr(getattr(r, "value", r))[:400]})
        else:
            env.count("view:graphql-arg-error-loc")
            exp = d(a["alias"] or a["name"])
            if list(loc) != [exp]:
                cx.mismatch("graphql-arg-error-loc", nocls, af, loc[0] if loc else None, exp, "operation", dyn=d, query=query, errors=errs)
    return meth_obs


def methods_agreement(cx, obs_by_view):
    """serialized / resolver methods: every view must use the same formula (plain = dyn(alias or name), class = dyn(class(alias or name)))"""
    for c in cx.prog["classes"]:
        for m in c["methods"]:
            base = m["alias"] or m["func"]
            variants = None
            seen = {}
            for view, (obs, dyn) in obs_by_view.items():
                if m["id"] not in obs:
                    continue
                o = obs[m["id"]]
                seen[view] = o
                forms = {"plain": dyn(base)}
                if c["class_aliaser"]:
                    forms["class"] = dyn(G.CLASS_AL[c["class_aliaser"]](base))
                vs = {k for k, v in forms.items() if v == o}
                if not vs:
                    cx.report({"kind": "view-mismatch", "view": "method-" + view, "observed_as": "absent" if o is None else "other", "where": "method"},
                              {"method": m, "observed": o, "accepted": forms})
                    continue
                variants = vs if variants is None else variants & vs
            if seen:
                cx.env.count("view:method-agreement")
            if variants is not None and not variants:
                cx.report({"kind": "views-disagree", "view": "method", "views": sorted(seen)}, {"method": m, "observed": seen})


# ---------------------------------------------------------------- one program under one configuration
class configured:
    def __init__(self, cfg):
        self.cfg = cfg

    def __enter__(self):
        from apischema import settings

        self.saved = settings.aliaser
        m = self.cfg["mode"]
        if m == "global":
            settings.aliaser = G.dyn_of(self.cfg["dyn"])
        elif m == "camel_case":
            settings.camel_case = True
        elif m == "global+call":
            settings.aliaser = G.dyn_of(self.cfg["global"])

    def __exit__(self, *exc):
        from apischema import settings
        from apischema.cache import reset

        settings.aliaser = self.saved
        reset()


def check(env, prog, source, mod, cfg):
    from apischema.cache import reset

    cx = Cx(env, prog, source, mod, cfg)
    if not well_formed(cx, cx.dyn):
        env.count("illformed_colliding_external_names")
        return False
    reset()
    T = mod.T
    with configured(cfg):
        view_get_alias(cx)
        ok = view_deser(cx, T)
        if ok:
            view_alt_spellings(cx, T)
            view_validators(cx, T)
        else:
            env.count("alt_and_validator_views_skipped_after_rejected_valid_datum")
        view_error_locs(cx, T)
        m_ser = view_ser(cx, T)
        if '"typeddict"' in json.dumps(cx.prog, default=str):
            # the same view when additional properties are copied through (TypedDict objects keep unknown keys): still one key per field
            kw0 = cx.kw
            cx.kw = {**kw0, "additional_properties": True}
            try:
                view_ser(cx, T)
                env.count("ser_views_with_additional_properties")
            finally:
                cx.kw = kw0
        view_schema(cx, T, "deserialization")
        m_sch = view_schema(cx, T, "serialization")
        m_gql = view_graphql(cx)
        methods_agreement(cx, {"ser-key": (m_ser, cx.dyn), "sschema-properties": (m_sch, cx.dyn), "graphql-resolver": (m_gql, cx.gdyn)})
    # pairwise agreement of the views of each field (JSON-side views share one aliaser, GraphQL views another)
    for key, views in cx.obs.items():
        env.count("pairwise_agreement_fields")
        for grp in ("j:", "g:"):
            vals = {v for k, v in views.items() if k.startswith(grp)}
            if len(vals) > 1:
                env.count("fields_with_disagreeing_views")
    env.count("program_configs")
    env.count("mode:" + cfg["mode"])
    env.count("dyn:" + cfg["dyn"])
    return True


def run_program(env, prog, cfgs):
    if prog is None or G.ill_formed(prog):
        env.count("illformed_program")
        return
    source = G.emit_program(prog)
    try:
        ld = Loaded(source)
    except Exception as e:
        env.count("program_load_failed")
        env.violation({"kind": "harness", "view": "load", "exc": type(e).__name__}, {"program": prog, "source": source, "msg": str(e)})
        return
    try:
        env.count("programs")
        co = prog["coords"]
        env.count("kind:" + co["kind"])
        env.count("struct:" + co["structure"])
        env.count("class_aliaser:" + co["class_aliaser"])
        for cfg in cfgs:
            if env.out_of_time():
                env.notes.append("time cap reached")
                return
            if not check(env, prog, source, ld.module, cfg):
                continue
            for ft in co["feats"]:
                for dim, val in (("kind", co["kind"]), ("ca", co["class_aliaser"]), ("struct", co["structure"]), ("dyn", cfg["dyn"]), ("mode", cfg["mode"])):
                    env.count(f"pc:{ft}|{dim}={val}")
            for (d1, v1), (d2, v2) in pairs_of(co, cfg):
                env.count(f"pc:{d1}={v1}|{d2}={v2}")
        if len(env.samples) < 2 and env.rng.random() < 0.02:
            env.sample({"source": source, "configs": cfgs})
    finally:
        ld.unload()
        harness.reset_all()


def pairs_of(co, cfg):
    dims = [("kind", co["kind"]), ("ca", co["class_aliaser"]), ("struct", co["structure"]), ("dyn", cfg["dyn"]), ("mode", cfg["mode"])]
    for i in range(len(dims)):
        for j in range(i + 1, len(dims)):
            yield dims[i], dims[j]


def item_pairs(coords, cfg):
    kind, ca, structure, feats = coords
    co = {"kind": kind, "class_aliaser": ca or "none", "structure": structure}
    out = {f"{d1}={v1}|{d2}={v2}" for (d1, v1), (d2, v2) in pairs_of(co, cfg)}
    for ft in feats:
        for dim, val in (("kind", kind), ("ca", ca or "none"), ("struct", structure), ("dyn", cfg["dyn"]), ("mode", cfg["mode"])):
            out.add(f"{ft[0]}|{dim}={val}")
    return out


def feasible(kind, structure, feats):
    if kind == "namedtuple" and any(f[1].startswith("_") for f in feats):
        return False  # NamedTuple field names cannot start with an underscore
    if structure == "methods" and kind != "dataclass":
        return False
    return True


def pair_universe():
    """every pair of feature values that occurs in the enumerated pool (an item's pairs are the union over its naming features)"""
    universe = set()
    cfgs = G.configs_all()
    for kind in G.KINDS:
        for ca in G.CLASS_ALIASERS:
            for structure in G.STRUCTURES:
                for ft in G.POOL:
                    if feasible(kind, structure, (ft,)):
                        for c in cfgs:
                            universe |= item_pairs((kind, ca, structure, (ft,)), c)
    return universe


def selection(env):
    """list of (idx, kind, ca, structure, feats, flags, [cfg...]) for this run (all shards compute the same list)"""
    cfgs = G.configs_all()
    items = [it for it in G.enumerate_programs() if feasible(it[1], it[3], it[4])]
    seed = env.seed
    if not env.quick():
        # seeded order: if the wall-clock guard stops a shard early, what was processed is an unbiased slice of the pool
        return [(it, cfgs) for it in sorted(items, key=lambda it: h64("c11-ord", seed, it[0]))]
    chosen = []
    covered = set()
    for it in items:
        if h64("c11-sel", seed, it[0]) % 10 == 0:
            k = h64("c11-cfg", seed, it[0])
            mine = [cfgs[k % len(cfgs)], cfgs[(k // 7 + 1 + k % len(cfgs)) % len(cfgs)]]
            if mine[0] == mine[1]:
                mine = mine[:1]
            chosen.append((it, mine))
            for c in mine:
                covered |= item_pairs((it[1], it[2], it[3], it[4]), c)
    # greedy completion: every pair of feature values must occur
    missing = pair_universe() - covered
    order = sorted(items, key=lambda it: h64("c11-ord", seed, it[0]))
    for it in order:
        if not missing:
            break
        for c in cfgs:
            ps = item_pairs((it[1], it[2], it[3], it[4]), c)
            if ps & missing:
                chosen.append((it, [c]))
                missing -= ps
    return chosen


def run(env):
    harness.tag_errors(True)
    try:
        sel = selection(env)
        env.count("selected_programs_total", len(sel) if env.shard == 0 else 0)
        for n, (it, cfgs) in enumerate(sel):
            if n % env.nshards != env.shard:
                continue
            if env.out_of_time():
                env.notes.append("time cap reached")
                break
            idx, kind, ca, structure, feats, flags = it
            prog = G.make_program(idx, kind, ca, structure, feats, list(flags), validators=(idx % 3 != 0))
            run_program(env, prog, cfgs)
            env.count("enumerated_programs_done")
        # seeded bigger programs
        allc = G.configs_all()
        for j in range(env.n(240, 1600)):
            if env.out_of_time():
                env.notes.append("time cap reached")
                break
            prog, _ = G.random_program(env.rng, 100000 + env.shard * 100000 + j)
            env.count("random_programs")
            run_program(env, prog, env.rng.sample(allc, 2 if env.quick() else 3))
    finally:
        harness.tag_errors(False)


def finish_coverage(cov, counters, tier):
    pcs = {k[3:]: v for k, v in counters.items() if k.startswith("pc:")}
    for k in list(cov["counters"]):
        if k.startswith("pc:"):
            del cov["counters"][k]
    universe = pair_universe()
    missing = sorted(universe - set(pcs))
    cov["pairwise_feature_value_coverage"] = {"pairs_in_pool": len(universe), "pairs_exercised": len(universe & set(pcs)), "missing": missing[:20]}
    total, done = counters.get("selected_programs_total", 0), counters.get("enumerated_programs_done", 0)
    cov["enumerated_pool"] = {"programs_selected": total, "programs_processed": done, "configurations_per_program": len(G.configs_all()) if tier == "thorough" else "1-2"}
    cov["exhaustive"] = tier == "thorough" and not missing and done == total and cov.get("shards_stopped_by_time_cap", 0) == 0
    cov["exhaustive_subspace"] = "the enumerated pool of vf.c11_gen.enumerate_programs x configs_all (thorough only)"
    cov["views_observed"] = {v: counters.get("view:" + v, 0) for v in VIEWS}


def replay(env, rep):
    w = rep["witness"]
    prog, cfg = w["program"], w["config"]
    harness.tag_errors(True)
    try:
        run_program(env, prog, [cfg])
    finally:
        harness.tag_errors(False)
