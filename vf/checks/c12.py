"""C12 -- conversions compose: a converted type behaves as its source / target.

Self-referential oracle: both paths of every commuting square are executed with the real code.
  D  deserialize(W[K], d, placement)  vs  deserialize(W[S], d) followed by the (pure, tagged) converter
  S  serialize(W[K], v, placement)    vs  serialize(W[U], g(v))
  J  deserialization_schema / serialization_schema of W[K] vs those of W[S merged with K's own annotations]
plus the placement laws (vf/c12_graph.resolve): registered / default_conversion vs dynamic vs field vs sub-conversion,
identity bypass, serializer inheritance, generic and lazy / recursive conversions.
"""
import copy
import json
import random

from vf import gen_data, gen_types, harness
from vf.c12_graph import (Abstain, ConvT, Exp, GraphGen, Unsup, all_classes_deep, conforms, erase, exp_nodes,
                          resolve, strictness, walk_all)
from vf.spec import PRELUDE, Ctx, ObjectT, Prim, Program, Unspecified, canon

PROP = "C12"
NEED_JSONSCHEMA = True
SHARDS = {"quick": 8, "thorough": 16}
TIME_CAP = {"quick": 75, "thorough": 900}
REQUIRED = ["recfield_checks", "generic_inherit_agree", "generic_inherit_schema_equal", "lsp_deserialization_checks", "lsp_serialization_checks", "graphs", "d_agree_accept", "d_agree_reject", "d_conv_rejects", "d_value_error_caught", "d_value_error_propagates",
            "multi_later_alt_wins", "multi_first_wins_overlap", "multi_all_rejected", "s_agree", "schema_des_equal", "schema_ser_equal",
            "schema_own_annotations_merged", "unsupported_expected", "locality_object_field", "dyn_through_container", "dyn_through_ml",
            "field_conv_applied", "sub_conv_applied", "placement:reg", "placement:def", "placement:dyn", "placement:dyn_noreg",
            "inherit_agree", "inherit_false_unsupported", "inherit_override", "identity_bypass_des", "identity_bypass_ser",
            "identity_bypass_schema", "identity_registered_applies", "generic_agree", "lazy_role_agree", "recursive_des_agree",
            "recursive_ser_agree", "chain_len3"]
RULE = ("a graph = random C01 source types (vf.gen_types.Gen, depth<=3) + fresh opaque classes (plain classes, unsupported without conversion) "
        "with tagged pure converters in roles reg/dyn/fld/sub (styles: annotated function, Conversion object, LazyConversion; catch_value_error; "
        "converters rejecting ~1/3 of their inputs at the root) in families base/multi/chain(<=3)/generic/two, wrapped in containers, tuples, "
        "Optional/Union, collection subclasses with a registered conversion and dataclass/NamedTuple/TypedDict fields (depth<=3); each graph is "
        "evaluated under the placements registered, default_conversion, dynamic and dynamic-without-registration; data = atoms + model-valid data "
        "of the erased reference type + one-step mutants; plus template families serializer inheritance, identity bypass, recursive/lazy. "
        "A case = (graph signature, placement, datum); non-trivial always (every case crosses at least one conversion); distinct by hash.")
ASSUMPTIONS = ["converters are pure; they raise only ValidationError, or ValueError (caught iff wrapped with catch_value_error)",
               "error lists are compared as multisets of (loc, message); through non-Optional unions / several deserializers inside containers only the verdict is compared "
               "(the reference type may use the by-type union shortcut, whose wording differs -- C13)",
               "K's own constraints are exercised only on classes used through their registered conversion; for dynamic / field / sub conversions the docs do not say "
               "whether K's own annotations are merged: both schemas are accepted (counted)",
               "abstentions (counted): dynamic conversion below a registered conversion of a non-collection class (doc note ambiguous), union alternatives without "
               "conversion, serialization of classes with several deserializers, bare `identity` through a container, schema of recursive conversions",
               "registries are cleaned after each placement (reset_deserializers / reset_serializer) and apischema.cache.reset() is always called (F12)"]

PRELUDE12 = PRELUDE + """
from apischema import identity, deserializer, serializer
from apischema.conversions import Conversion, LazyConversion, catch_value_error
from vf.c12_rt import OpBase, mk, unmk, unmk_ml, untyped
CLS, DES, SER, LAZY_DES, LAZY_SER = {}, {}, {}, {}, {}
"""


# ---------------------------------------------------------------- helpers
def api():
    import apischema
    from apischema import cache, deserialization_method, serialization_method
    from apischema.conversions import converters
    from apischema.json_schema import deserialization_schema, serialization_schema

    return apischema, cache, deserialization_method, serialization_method, converters, deserialization_schema, serialization_schema


def err_key(errors):
    return sorted((json.dumps(e["loc"], default=str), str(e["err"])) for e in errors)


def load_source(source):
    import typing

    for clear in getattr(typing, "_cleanups", ()):  # typing's own caches identify List[Union[A, B]] and List[Union[B, A]]
        clear()
    p = Program(Prim("int"))
    p.source = source + "\nT = None\n"
    p.load()
    return p


def ctx_for(t):
    objs = {}
    for n in walk_all(t):
        if isinstance(n, ObjectT):
            objs[n.name] = n
    return Ctx(objects=objs)


def make_data(env, ref, n):
    rng = env.rng
    cx = ctx_for(ref)
    try:
        atoms = gen_data.atoms_for(ref, cx)
    except Exception:
        atoms = list(gen_data.BASE_ATOMS)
    valid = gen_data.valid_data(ref, cx, rng, max(3, n // 3))
    data = list(valid)
    for v in valid[: max(2, n // 6)]:
        data += gen_data.mutants(v, rng, atoms, 3)
    data += rng.sample(atoms, min(len(atoms), max(3, n // 4)))
    if len(data) > n:
        keep = valid[: n // 2]
        rest = [d for d in data if not any(d is v for v in keep)]
        rng.shuffle(rest)
        data = keep + rest[: n - len(keep)]
    return data, len(valid)


def is_json(x, depth=0):
    import enum

    if isinstance(x, enum.Enum):
        return False
    if x is None or isinstance(x, (bool, int, float, str)):
        return True
    if depth > 100:
        return True
    if isinstance(x, (list, tuple)) and not hasattr(x, "_fields"):
        return all(is_json(e, depth + 1) for e in x)
    if isinstance(x, dict):
        return all(isinstance(k, (str, int, float, bool)) and not isinstance(k, enum.Enum) and is_json(v, depth + 1) for k, v in x.items())
    return False


def brief(o):
    return o.brief() if o is not None else None


# ---------------------------------------------------------------- JSON schema comparison
def schema_bisim(a, b):
    """structural equality of two schema documents modulo $ref naming / inlining (bisimulation on the reference
    graph) and modulo the rendering of unions: {'$ref': r, **siblings} stands for {**target(r), **siblings};
    {'type': [t1, t2], **rest} stands for anyOf[{'type': t1, **rest}, {'type': t2, **rest}] ('null' without rest),
    nested anyOf are flattened (apischema merges 'null' / primitive alternatives only when no $ref is involved)."""
    try:
        a, b = json.loads(json.dumps(a)), json.loads(json.dumps(b))
    except Exception:
        return None
    da, db = a.get("$defs", {}), b.get("$defs", {})

    def deref(x, defs):
        names = []
        while isinstance(x, dict) and "$ref" in x:
            name = x["$ref"].rsplit("/", 1)[-1]
            if name not in defs or name in names:
                break
            names.append(name)
            rest = {k: v for k, v in x.items() if k != "$ref"}
            x = {**defs[name], **rest} if rest else defs[name]
        return x, tuple(names)

    NULL = {"type": "null"}

    def view(x, defs, depth=0):
        return [({**{k: w for k, w in v.items() if k != "const"}, "enum": [v["const"]]} if isinstance(v, dict) and "const" in v and "enum" not in v else v)
                for v in view_(x, defs, depth)]  # a single value is rendered as const, or as a one-element enum once merged with null

    def view_(x, defs, depth=0):
        """union view of a dereferenced schema: list of alternatives, none of which is itself a union.
        Sibling keywords of a union are distributed over its non-null alternatives."""
        if depth > 20 or not isinstance(x, dict):
            return [x]
        if isinstance(x.get("anyOf"), list):
            rest = {k: v for k, v in x.items() if k != "anyOf"}
            out = []
            for alt in x["anyOf"]:
                alt2, _ = deref(alt, defs) if isinstance(alt, dict) else (alt, ())
                for v in view(alt2, defs, depth + 1):
                    out.append(v if v == NULL or not rest or not isinstance(v, dict) else {**v, **rest})
            if any(v == {} or v is True or v == rest for v in out):
                return [rest]  # an alternative accepting everything (Any) absorbs the union
            return [v for v in out if v != NULL] + [v for v in out if v == NULL][:1]  # 'null' last, once
        if isinstance(x.get("type"), list) and len(x["type"]) > 1:
            rest = {k: v for k, v in x.items() if k != "type"}
            if "null" in x["type"] and isinstance(rest.get("enum"), list):  # Optional[Literal / Enum]: null belongs to the 'null' alternative
                rest["enum"] = [e for e in rest["enum"] if e is not None]
            out = [dict(NULL) if t == "null" else {**rest, "type": t} for t in x["type"]]
            return [v for v in out if v != NULL] + [v for v in out if v == NULL][:1]
        return [x]

    def trivial(v, defs):
        v2, _ = deref(v, defs) if isinstance(v, dict) else (v, ())
        return v2 == {} or v2 is True or (isinstance(v2, dict) and view(v2, defs) == [{}])

    OPEN = ("additionalProperties", "items", "unevaluatedProperties")
    assumed = set()

    def eq(x, y):
        if isinstance(x, dict) and isinstance(y, dict):
            x, nx = deref(x, da)
            y, ny = deref(y, db)
            if not (isinstance(x, dict) and isinstance(y, dict)):
                return eq(x, y)
            if nx and ny:
                key = (nx, ny)
                if key in assumed:
                    return True
                assumed.add(key)
            vx, vy = view(x, da), view(y, db)
            if len(vx) != len(vy):
                return False
            if len(vx) > 1:
                return all(eq(p, q) for p, q in zip(vx, vy))
            x, y = vx[0], vy[0]
            if not (isinstance(x, dict) and isinstance(y, dict)):
                return eq(x, y)
            kx = {k for k in x if not (k in OPEN and trivial(x[k], da))}
            ky = {k for k in y if not (k in OPEN and trivial(y[k], db))}
            if kx != ky:
                return False
            return all(eq(x[k], y[k]) for k in kx)
        if isinstance(x, list) and isinstance(y, list):
            return len(x) == len(y) and all(eq(p, q) for p, q in zip(x, y))
        return type(x) is type(y) and x == y

    ta = {k: v for k, v in a.items() if k != "$defs"}
    tb = {k: v for k, v in b.items() if k != "$defs"}
    try:
        return eq(ta, tb)
    except RecursionError:
        return None


def schema_semantic(a, b, data):
    """do both schemas give the same verdict on every datum?  -> (n_compared, first disagreement or None)"""
    import jsonschema

    try:
        va, vb = jsonschema.Draft202012Validator(dict(a)), jsonschema.Draft202012Validator(dict(b))
    except Exception:
        return 0, None
    n = 0
    for d in data:
        try:
            json.dumps(d)
            ra, rb = va.is_valid(d), vb.is_valid(d)
        except Exception:
            continue
        n += 1
        if ra != rb:
            return n, {"datum": d, "converted_schema_accepts": ra, "reference_schema_accepts": rb}
    return n, None


def union_order_conflict(trees):
    """typing (List[Union[A, B]] is List[Union[B, A]]: parametrisation cache) and apischema (F21, type-keyed caches)
    identify unions that differ only by the order of their members; a program that contains the same union in two
    orders cannot be given a well-defined expectation"""
    from vf.spec import Union_, flat_alts

    from vf.spec import ObjectT as _Obj

    seen = {}
    for t in trees:
        nodes = list(walk_all(t))
        # a none_as_undefined field is compiled with None removed from its union: that stripped union counts too
        nodes += [f.model_type() for n in nodes if isinstance(n, _Obj) for f in n.fields if getattr(f, "none_as_undefined", False)]
        for n in nodes:
            if isinstance(n, Union_):
                order = []
                for a in flat_alts(n):
                    sg = a.ann()
                    if sg not in order:
                        order.append(sg)
                if seen.setdefault(frozenset(order), order) != order:
                    return True
    return False


# ---------------------------------------------------------------- one graph
class Case:
    """one generated graph, materialised"""

    def __init__(self, env, fam, top, bare, classes):
        self.env, self.fam, self.top, self.bare, self.classes = env, fam, top, bare, classes
        self.plans = []

    def plan(self, rng):
        reg_all = {k: k.roles["reg"] for k in self.classes if k.roles["reg"]}
        out = [("reg", (), reg_all), ("def", (), reg_all)]
        dyn_classes = [k for k in self.classes if k.roles["dyn"]]
        if dyn_classes:
            subset = [k for k in dyn_classes if rng.random() < 0.7] or [rng.choice(dyn_classes)]
            dyn = tuple(r for k in subset for r in k.roles["dyn"])
            out.append(("dyn", dyn, reg_all))
            out.append(("dyn_noreg", dyn, {k: v for k, v in reg_all.items() if k not in subset}))
        env = self.env
        for i, (pname, dyn, reg) in enumerate(out):
            pl = {"name": pname, "dyn": dyn, "reg": reg, "i": i, "refs": {}}
            try:
                exp = resolve(self.top, dyn, reg)
            except Unsup:
                pl["expect"] = "unsupported"
                self.plans.append(pl)
                continue
            except Abstain as a:
                env.count("abstain:" + str(a))
                continue
            pl["expect"], pl["exp"] = "ok", exp
            pl["refs"]["T_s%d" % i] = erase(exp, "nondyn", "__s%d" % (2 * i))
            if any(n.dynamic and n.cls.ann for n in exp_nodes(exp)):
                pl["refs"]["T_sx%d" % i] = erase(exp, "all", "__s%d" % (2 * i + 1))
            if self.bare and isinstance(exp, Exp):
                for j, (r, src) in enumerate(exp.alts):
                    pl["refs"]["T_s%d_a%d" % (i, j)] = erase(Exp(exp.cls, [(r, src)], exp.dynamic), "nondyn", "__s%d" % (2 * i))
            self.plans.append(pl)

    def union_order_conflict(self):
        trees = [self.top] + [r.src for k in self.classes for r in k.all_roles()] + [t for pl in self.plans for t in pl["refs"].values()]
        return union_order_conflict(trees)

    def source(self):
        decls = {}
        self.top.collect(decls)
        for pl in self.plans:
            for t in pl["refs"].values():
                t.collect(decls)
        src = PRELUDE12 + "\n" + "\n".join(v for v in decls.values() if v) + f"\nT_op = {self.top.ann()}\n"
        for pl in self.plans:
            for name, t in pl["refs"].items():
                src += f"{name} = {t.ann()}\n"
        return src


def register(mod, reg):
    from apischema import deserializer, serializer

    for k, roles in reg.items():
        cls = mod.CLS[k.name]
        for r in roles:
            if r.style == "lazy":
                deserializer(lazy=mod.LAZY_DES[r.tag], target=cls)
            else:
                deserializer(mod.DES[r.tag])
        if len(roles) == 1:
            r = roles[0]
            if r.style == "lazy":
                serializer(lazy=mod.LAZY_SER[r.tag], source=cls)
            else:
                serializer(mod.SER[r.tag])


def cleanup(mod):
    from apischema import cache
    from apischema.conversions import reset_deserializers, reset_serializer

    for cls in list(getattr(mod, "CLS", {}).values()) + list(getattr(mod, "EXTRA_CLS", [])):
        reset_deserializers(cls)
        reset_serializer(cls)
    cache.reset()


def default_conv_fns(mod, reg):
    from apischema.conversions.converters import default_deserialization, default_serialization

    dmap = {mod.CLS[k.name]: tuple(mod.DES[r.tag] for r in roles) for k, roles in reg.items()}
    smap = {mod.CLS[k.name]: mod.SER[roles[0].tag] for k, roles in reg.items() if len(roles) == 1}

    def dcd(tp):
        try:
            hit = dmap.get(tp)
        except TypeError:
            hit = None
        return hit if hit is not None else default_deserialization(tp)

    def dcs(tp):
        try:
            hit = smap.get(tp)
        except TypeError:
            hit = None
        return hit if hit is not None else default_serialization(tp)

    return dcd, dcs


def feats_of(exp_or_top):
    """mechanism-level description of a graph (no names / values)"""
    kinds = set()
    for n in walk_all(exp_or_top):
        if isinstance(n, (Exp, ConvT)):
            kinds.add(n.cls.kind)
        else:
            kinds.add(type(n).__name__)
    return sorted(kinds)


def run_graph(env, case, prog, ndata):
    (apischema, cache, deserialization_method, serialization_method, converters, deserialization_schema, serialization_schema) = api()
    from vf.c12_rt import canon12, erase_img, trig

    mod = prog.module
    rng = env.rng
    gsig = case.top.sig()
    for pl in case.plans:
        pname, dyn, reg = pl["name"], pl["dyn"], pl["reg"]
        env.count("placement:" + pname)
        cleanup(mod)
        kw_d, kw_s = {}, {}
        if pname == "def":
            kw_d["default_conversion"], kw_s["default_conversion"] = default_conv_fns(mod, reg)
        else:
            register(mod, reg)
            cache.reset()
        if dyn:
            dd = tuple(mod.DES[r.tag] for r in dyn)
            ss = tuple(mod.SER[r.tag] for r in dyn)
            single = len(dyn) == 1 and rng.random() < 0.6
            kw_d["conversion"], kw_s["conversion"] = (dd[0], ss[0]) if single else (dd, ss)
        base_wit = {"program": prog.source, "family": case.fam, "placement": pname, "type": case.top.ann(),
                    "dynamic": [r.tag for r in dyn], "registered": {k.name: [r.tag for r in v] for k, v in reg.items()}}
        base_feat = {"family": case.fam, "placement": pname}
        try:
            eval_placement(env, case, pl, mod, kw_d, kw_s, base_wit, base_feat, gsig, ndata)
        finally:
            cleanup(mod)


def eval_placement(env, case, pl, mod, kw_d, kw_s, wit, feat, gsig, ndata):
    (apischema, cache, deserialization_method, serialization_method, converters, deserialization_schema, serialization_schema) = api()
    from vf.c12_rt import canon12, erase_img, trig

    T_op = mod.T_op
    m_op = harness.call(deserialization_method, T_op, **kw_d)
    if pl["expect"] == "unsupported":
        env.case(gsig, pl["name"], "unsupported")
        if typeddict_defect(m_op):
            env.violation({"kind": "dynamic-conversion-on-typeddict", "exc": "TypeError"}, {**wit, "observed": m_op.brief(), "expected": "Unsupported"})
        elif m_op.kind == "exc" and m_op.exc == "Unsupported":
            env.count("unsupported_expected")
            if any(isinstance(n, ObjectT) for n in walk_all(case.top)) and pl["dyn"]:
                env.count("locality_object_field")
        else:
            env.violation({**feat, "kind": "unsupported-expected", "observed": m_op.kind if m_op.kind != "exc" else m_op.exc},
                          {**wit, "expected": "Unsupported (no conversion applies to an opaque class at some occurrence)", "observed": m_op.brief()})
        s_op = harness.call(serialization_method, T_op, **kw_s)
        if not (s_op.kind == "exc" and s_op.exc == "Unsupported"):
            env.violation({**feat, "kind": "unsupported-expected", "op": "serialization", "observed": s_op.kind if s_op.kind != "exc" else s_op.exc},
                          {**wit, "expected": "Unsupported", "observed": s_op.brief()})
        return
    exp = pl["exp"]
    i = pl["i"]
    ref = pl["refs"]["T_s%d" % i]
    T_s = getattr(mod, "T_s%d" % i)
    cache.reset()  # type-keyed caches identify Union[A, B] and Union[B, A] (F21): never share an epoch between the two sides
    m_s = harness.call(deserialization_method, T_s)
    if m_op.kind != "ok" or m_s.kind != "ok":
        if m_op.kind == m_s.kind and m_op.exc == m_s.exc:
            env.count("abstain:both sides fail to compile:" + str(m_op.exc))
        elif m_s.kind != "ok":
            env.count("abstain:reference type fails to compile:" + str(m_s.exc))
        elif typeddict_defect(m_op):
            env.violation({"kind": "dynamic-conversion-on-typeddict", "exc": "TypeError"}, {**wit, "observed": m_op.brief(), "reference": "compiles"})
        else:
            env.violation({**feat, "kind": "compile", "exc": m_op.exc, "graph": feats_of(exp)}, {**wit, "observed": m_op.brief(), "reference": "compiles"})
        return
    m_op, m_s = m_op.value, m_s.value
    root_exact = case.bare and isinstance(exp, Exp)
    if root_exact:  # the root alternatives are tried one by one by the oracle itself; only what is below them matters
        strict = "exact" if all(strictness(src) == "exact" for _, src in exp.alts) else "verdict"
    else:
        strict = strictness(exp)
    alt_methods = []
    if root_exact:
        for j in range(len(exp.alts)):
            cache.reset()
            o = harness.call(deserialization_method, getattr(mod, "T_s%d_a%d" % (i, j)))
            if o.kind != "ok":
                env.count("abstain:reference alternative fails to compile")
                return
            alt_methods.append(o.value)
    # which features does this placement exercise (coverage counters)
    note_features(env, case, pl)
    data, nvalid = make_data(env, ref, ndata)
    single_alts = all(len(n.alts) == 1 for n in exp_nodes(exp))
    s_op = s_s = None
    if single_alts and ambiguous_union_serialization(exp):
        env.count("abstain:serialization of a union of two sequence-like / mapping-like alternatives")
    elif single_alts:
        so = harness.call(serialization_method, T_op, **kw_s)
        cache.reset()
        sr = harness.call(serialization_method, T_s)
        if so.kind == "ok" and sr.kind == "ok":
            s_op, s_s = so.value, sr.value
        elif so.kind == sr.kind and so.exc == sr.exc:
            env.count("abstain:serialization: both sides fail to compile:" + str(so.exc))
        elif sr.kind != "ok":
            env.count("abstain:serialization: reference fails to compile")
        else:
            env.violation({**feat, "kind": "compile", "op": "serialization", "exc": so.exc, "graph": feats_of(exp)}, {**wit, "observed": so.brief(), "reference": "compiles"})
    else:
        env.count("abstain:serialization with several deserializers")
    classes = mod.CLS
    for d in data:
        env.case(gsig, pl["name"], repr(d))
        w = {**wit, "datum": d}
        lhs = harness.call(m_op, copy.deepcopy(d))
        # ---- expected outcome
        if root_exact:
            expd = expected_root(env, exp, alt_methods, d, trig, canon12)
        else:
            rhs = harness.call(m_s, copy.deepcopy(d))
            if rhs.kind == "ok":
                expd = ("ok", canon12(rhs.value), None, rhs.value)
            elif rhs.kind == "verr":
                expd = ("verr", err_key(rhs.errors), None, None)
            else:
                expd = ("exc", rhs.exc, None, None)
        if expd is None:
            continue
        ekind = expd[0]
        if ekind == "exc":
            if lhs.kind == "exc" and lhs.exc == expd[1]:
                env.count("d_value_error_propagates" if expd[1] == "ValueError" and root_exact else "abstain:both raise " + str(expd[1]))
            elif root_exact and expd[1] == "ValueError":
                env.violation({**feat, "kind": "value-error-not-propagated", "observed": lhs.kind if lhs.kind != "exc" else lhs.exc},
                              {**w, "expected": "ValueError raised by a converter without catch_value_error propagates", "observed": lhs.brief()})
            else:
                env.count("abstain:reference raises " + str(expd[1]))
            continue
        if lhs.kind == "exc":
            env.violation({**feat, "kind": "exception", "exc": lhs.exc, "expected": ekind, "graph": feats_of(exp)},
                          {**w, "expected": ekind, "observed": lhs.brief()})
            continue
        if ekind == "ok":
            if lhs.kind != "ok":
                env.violation({**feat, "kind": "false-reject", "graph": feats_of(exp)}, {**w, "expected": "accept " + repr(expd[1])[:300], "observed": lhs.brief()})
                continue
            img = canon12(lhs.value)
            if erase_img(img) != expd[1]:
                env.violation({**feat, "kind": "value", "graph": feats_of(exp)}, {**w, "expected_erased_image": repr(expd[1])[:500], "observed_image": repr(img)[:500]})
                continue
            want_tag = expd[2]
            bad = conforms(lhs.value, exp, classes)
            if bad is None and want_tag is not None and getattr(lhs.value, "tag", None) != want_tag:
                bad = f"converter {getattr(lhs.value, 'tag', None)} applied, expected {want_tag} (first accepting deserializer in registration order)"
            if bad:
                env.violation({**feat, "kind": "wrong-conversion-applied", "detail": classify_bad(bad), "graph": feats_of(exp)},
                              {**w, "mismatch": bad, "observed": lhs.brief(), "expected_roles": describe(exp)})
                continue
            env.count("d_agree_accept")
            # ---- serialization square on the accepted value
            if s_op is not None:
                ref_val = expd[3]
                a, b = harness.call(s_op, lhs.value), harness.call(s_s, ref_val)
                if a.kind == "ok" and b.kind == "ok":
                    try:
                        same = canon(a.value) == canon(b.value)
                    except Unspecified:
                        same = a.value == b.value
                    if same:
                        env.count("s_agree")
                    elif not is_json(b.value):
                        env.count("abstain:reference serialize returns non-JSON objects (union of containers dispatches on the container class)")
                    else:
                        env.violation({**feat, "kind": "serialized-value", "graph": feats_of(exp)}, {**w, "value": repr(lhs.value)[:300], "expected": b.brief(), "observed": a.brief()})
                elif a.kind == b.kind and a.exc == b.exc:
                    env.count("abstain:serialize raises on both sides:" + str(a.exc))
                elif b.kind != "ok":
                    env.count("abstain:reference serialize raises")
                else:
                    env.violation({**feat, "kind": "serialize-exception", "exc": a.exc or "ValidationError", "graph": feats_of(exp)},
                                  {**w, "value": repr(lhs.value)[:300], "expected": b.brief(), "observed": a.brief()})
        else:  # expected rejection
            if lhs.kind == "ok":
                env.violation({**feat, "kind": "false-accept", "graph": feats_of(exp)}, {**w, "expected": "reject " + repr(expd[1])[:300], "observed": lhs.brief()})
                continue
            if strict == "exact":
                if err_key(lhs.errors) != expd[1]:
                    env.violation({**feat, "kind": "errors-differ", "graph": feats_of(exp)}, {**w, "expected_errors": expd[1][:12], "observed": lhs.brief()})
                    continue
            else:
                env.count("errors_verdict_only")
            env.count("d_agree_reject")
    # ---- schemas
    compare_schemas(env, case, pl, mod, "deserialization", deserialization_schema, kw_d, data, wit, feat)
    if single_alts:
        compare_schemas(env, case, pl, mod, "serialization", serialization_schema, kw_s, data, wit, feat)


def _cats(a, side):
    """runtime-class categories a value of alternative `a` may have (side: 'op' converted / 'ref' erased)"""
    from vf.spec import Ann, Coll, MapT, NewT, Tup, Union_
    from vf.c12_graph import AnnX

    while True:
        if isinstance(a, Exp):
            if a.cls.kind == "ml":
                return {"list"}
            if side == "op":
                return {"opq:" + a.cls.name}
            if len(a.alts) != 1:
                return {"?"}
            a = a.alts[0][1]
        elif isinstance(a, (Ann, NewT, AnnX)):
            a = a.t
        else:
            break
    if isinstance(a, Prim):
        return {a.p}
    if isinstance(a, Coll):
        return {"list": {"list"}, "blist": {"list"}, "vartuple": {"tuple"}, "set": {"set"}, "mutset": {"set"}, "frozenset": {"frozenset"},
                "absset": {"set", "frozenset"}, "mutseq": {"list"}, "seq": {"list", "tuple", "str"}, "coll": {"list", "tuple", "str", "set", "frozenset", "dict"}}.get(a.c, {"?"})
    if isinstance(a, Tup):
        return {"tuple"}
    if isinstance(a, MapT):
        return {"dict"}
    if isinstance(a, ObjectT):
        return {"dict"} if a.kind == "typeddict" else {"tuple"} if a.kind == "namedtuple" else {"obj:" + a.name}
    if isinstance(a, Union_):
        out = set()
        for x in a.alts:
            out |= _cats(x, side)
        return out
    return {"?"}


def ambiguous_union_serialization(t):
    """a union two alternatives of which may hold values of the same runtime class (on the converted or on the
    reference side): serialization dispatches on the runtime class only, which alternative then serializes the value
    is not C12's business (C04) -- the serialization square abstains"""
    from vf.spec import Union_

    for n in walk_all(t):
        if isinstance(n, Union_) and any(isinstance(x, Exp) for a in n.alts for x in walk_all(a)):
            for side in ("op", "ref"):
                seen = set()
                for a in n.alts:
                    c = _cats(a, side)
                    if "?" in c or "none" in c and False or (c & seen):
                        return True
                    seen |= c
                if "int" in seen and "bool" in seen or "str" in seen and {"?"} & seen:
                    return True
    return False


def typeddict_defect(o):
    return o.kind == "exc" and o.exc == "TypeError" and "TypedDict does not support" in (o.msg or "")


def has_f26_shape(x):
    """a sub-schema {'type': [..., 'null'], 'enum': [...no null...]} (known finding F26: Optional[Literal/Enum] excludes null);
    typing flattens nested Optionals on the reference side only, so F26 can show on one side alone"""
    if isinstance(x, dict):
        tp = x.get("type")
        if "enum" in x and isinstance(tp, (list, tuple)) and any(str(getattr(t, "value", t)) == "null" for t in tp) and None not in x["enum"]:
            return True
        return any(has_f26_shape(v) for v in x.values())
    if isinstance(x, (list, tuple)):
        return any(has_f26_shape(v) for v in x)
    return False


def expected_root(env, exp, alt_methods, d, trig, canon12):
    """try each deserializer in order, exactly as documented; -> (kind, payload, expected tag, reference value)"""
    errs = []
    accepting = []
    result = None
    for j, ((role, _src), m) in enumerate(zip(exp.alts, alt_methods)):
        r = harness.call(m, copy.deepcopy(d))
        if r.kind == "exc":
            env.count("abstain:reference raises " + str(r.exc))
            return None
        if r.kind == "verr":
            errs += r.errors
            continue
        rejects = role.mode is not None and trig(r.value)
        if result is None and rejects:
            if role.mode == "verr":
                errs.append({"loc": [], "err": f"conv-rejects:{role.tag}"})
                env.count("d_conv_rejects")
                continue
            if role.catch:
                errs.append({"loc": [], "err": f"conv-value-error:{role.tag}"})
                env.count("d_value_error_caught")
                continue
            return ("exc", "ValueError", None, None)
        if not rejects:
            accepting.append(j)
        if result is None:
            result = ("ok", canon12(r.value), role.tag, r.value)
            if len(exp.alts) == 1:
                break
    if result is not None:
        if len(exp.alts) > 1:
            first = accepting[0] if accepting else 0
            env.count("multi_later_alt_wins" if first > 0 else "multi_first_wins")
            if len(accepting) > 1:
                env.count("multi_first_wins_overlap")
        return result
    if len(exp.alts) > 1:
        env.count("multi_all_rejected")
    return ("verr", err_key(errs), None, None)


def classify_bad(bad):
    for key in ("tag", "converter", "expected an instance", "opaque instance"):
        if key in bad:
            return key
    return "structure"


def describe(exp):
    out = []
    for n in exp_nodes(exp):
        out.append({"class": n.cls.name, "dynamic": n.dynamic, "roles": [r.tag for r, _ in n.alts]})
    return out[:12]


def note_features(env, case, pl):
    exp, dyn = pl["exp"], pl["dyn"]
    dyn_classes = {r.cls for r in dyn}

    def rec(n, under_container, under_ml, in_obj):
        if isinstance(n, Exp):
            if n.dynamic:
                r0 = n.alts[0][0]
                if r0.kind == "dyn":
                    if under_container:
                        env.count("dyn_through_container")
                    if under_ml:
                        env.count("dyn_through_ml")
                elif r0.kind == "fld":
                    env.count("field_conv_applied")
                elif r0.kind == "sub":
                    env.count("sub_conv_applied")
            elif in_obj and n.cls in dyn_classes:
                env.count("locality_object_field")
            if any(r.style == "lazy" for r, _ in n.alts):
                env.count("lazy_role_agree")
            if n.cls.kind == "generic":
                env.count("generic_agree")
            for r, s in n.alts:
                rec(s, False, n.cls.kind == "ml", False)
        elif isinstance(n, ObjectT):
            for f in n.fields:
                rec(f.t, False, False, True)
        else:
            for c in n.children():
                rec(c, True, under_ml, in_obj)

    rec(exp, False, False, False)
    depth = chain_depth(exp)
    if depth >= 3:
        env.count("chain_len3")
    env.count("chain_len:%d" % min(depth, 4))


def chain_depth(t):
    best = 0
    for n in walk_all(t):
        if isinstance(n, Exp):
            best = max(best, 1 + max((chain_depth(s) for _, s in n.alts), default=0))
    return best


def compare_schemas(env, case, pl, mod, which, fn, kw, data, wit, feat):
    i = pl["i"]
    exp = pl["exp"]
    from apischema import cache

    a = harness.call(fn, mod.T_op, **kw)
    cache.reset()
    b = harness.call(fn, getattr(mod, "T_s%d" % i))
    short = "des" if which == "deserialization" else "ser"
    if a.kind != "ok" or b.kind != "ok":
        if a.kind == b.kind and a.exc == b.exc:
            env.count(f"abstain:{which} schema fails on both sides:" + str(a.exc))
        elif b.kind != "ok":
            env.count(f"abstain:reference {which} schema fails")
        else:
            env.violation({**feat, "kind": "schema-exception", "which": which, "exc": a.exc, "graph": feats_of(exp)}, {**wit, "observed": a.brief()})
        return
    a, b = a.value, b.value
    env.case(case.top.sig(), pl["name"], "schema:" + which)
    eq = schema_bisim(a, b)
    own = any(n.cls.ann and not n.dynamic for n in exp_nodes(exp))
    if eq:
        env.count(f"schema_{short}_equal")
        if own:
            env.count("schema_own_annotations_merged")
        return
    if eq is None:
        env.count("abstain:schema comparison too deep")
        return
    alt = getattr(mod, "T_sx%d" % i, None)
    if alt is not None:
        b2 = harness.call(fn, alt)
        if b2.kind == "ok" and schema_bisim(a, b2.value):
            env.count("abstain:own annotations also merged for a dynamic conversion (docs silent)")
            env.count(f"schema_{short}_equal")
            return
    if strictness(exp) == "verdict":
        n, dis = schema_semantic(a, b, data)
        if dis is None and n:
            env.count("schema_semantic_equal")
            env.count(f"schema_{short}_equal")
            return
        if dis is None:
            env.count("abstain:schema not comparable by validation")
            return
        if has_f26_shape(a) or has_f26_shape(b):
            env.count("abstain:schemas differ where Optional[Literal/Enum] excludes null (F26)")
            return
        env.violation({**feat, "kind": "schema-semantics", "which": which, "graph": feats_of(exp)}, {**wit, **dis, "converted_schema": a, "reference_schema": b})
        return
    env.violation({**feat, "kind": "schema-differs", "which": which, "own_annotations": bool(own), "graph": feats_of(exp)},
                  {**wit, "converted_schema": a, "reference_schema": b, "reference_type": pl["refs"]["T_s%d" % i].ann()})


# ---------------------------------------------------------------- template families
INHERIT_SRC = """
class KI(OpBase):
    pass
class KI2(KI):
    pass
class KI3(KI2):
    pass
def g_plain(o: KI) -> {U}:
    return unmk(o, ("t",))
class KM(OpBase):
    {DECO}
    def ser(self) -> {U}:
        return self.v
class KM2(KM):
    pass
class KM3(KM):
    {DECO2}
    def ser(self) -> {U}:
        return self.w
CLS.update(KI=KI, KI2=KI2, KI3=KI3, KM=KM, KM2=KM2, KM3=KM3)
U = {U}
"""


def family_inherit(env, g):
    """serializers are inherited by subclasses (function / Conversion / method / property), inherited=False is not,
    an overriding method overrides the inherited serializer; dynamic serializers follow LSP"""
    (apischema, cache, deserialization_method, serialization_method, converters, deserialization_schema, serialization_schema) = api()
    from apischema import serialize, serializer
    from apischema.conversions import Conversion

    rng = env.rng
    gg = GraphGen(rng, g)
    u = gg.leaf()
    decls = {}
    u.collect(decls)
    prop = rng.random() < 0.4
    deco = "@serializer\n    @property" if prop else "@serializer"
    deco2 = "@property" if prop else ""
    src = PRELUDE12 + "\n" + "\n".join(v for v in decls.values() if v) + INHERIT_SRC.replace("{U}", u.ann()).replace("{DECO2}", deco2).replace("{DECO}", deco)
    try:
        prog = load_source(src)
    except Exception as e:
        env.count("program_load_failed:" + type(e).__name__)
        return
    mod = prog.module
    mod.EXTRA_CLS = []
    try:
        m_u = harness.call(deserialization_method, mod.U)
        s_u = harness.call(serialization_method, mod.U)
        if m_u.kind != "ok" or s_u.kind != "ok":
            env.count("abstain:reference type fails to compile")
            return
        cx = ctx_for(u)
        vals = []
        for d in gen_data.valid_data(u, cx, rng, 5):
            o = harness.call(m_u.value, copy.deepcopy(d))
            o2 = harness.call(m_u.value, copy.deepcopy(d))
            if o.kind == "ok":
                vals.append((d, o.value, o2.value))
        if not vals:
            env.count("abstain:no valid value")
            return
        style = rng.choice(["func", "conv", "conv_inh_true", "noinherit", "lazy", "lazy_func", "lazy_noinherit"])
        wit0 = {"program": prog.source, "family": "inherit", "style": style, "U": u.ann()}
        # method / property serializer: inherited by KM2, overridden in KM3
        for cname in ("KM", "KM2", "KM3"):
            cls = mod.CLS[cname]
            a_m = harness.call(serialization_method, cls)
            env.case("inherit-method", cname, prop, u.sig())
            feat = {"family": "inherit", "style": "property" if prop else "method", "subclass_level": cname}
            if a_m.kind != "ok":
                env.violation({**feat, "kind": "serializer-not-inherited", "exc": a_m.exc}, {**wit0, "observed": a_m.brief()})
                continue
            for k, (d, v, v2) in enumerate(vals):
                other = vals[(k + 1) % len(vals)]
                o = cls(v, "t")
                o.w = other[1]
                want = other[2] if cname == "KM3" else v2
                cmp_ser(env, harness.call(a_m.value, o), harness.call(s_u.value, want), feat, {**wit0, "datum": d},
                        "inherit_override" if cname == "KM3" else "inherit_agree")
        if style == "func":
            serializer(mod.g_plain)
        elif style == "conv":
            serializer(Conversion(mod.g_plain, source=mod.KI, target=mod.U))
        elif style == "conv_inh_true":
            serializer(Conversion(mod.g_plain, source=mod.KI, target=mod.U, inherited=True))
        elif style == "lazy":
            serializer(lazy=lambda: Conversion(mod.g_plain, source=mod.KI, target=mod.U), source=mod.KI)
        elif style == "lazy_func":
            serializer(lazy=lambda: mod.g_plain, source=mod.KI)  # the lazy callable hands out the bare converter
        elif style == "lazy_noinherit":
            serializer(lazy=lambda: Conversion(mod.g_plain, source=mod.KI, target=mod.U, inherited=False), source=mod.KI)
        else:
            serializer(Conversion(mod.g_plain, source=mod.KI, target=mod.U, inherited=False))
        cache.reset()
        from typing import Dict, List, Optional, Tuple
        shapes = [("bare", lambda c: c, lambda x: x, lambda t: t), ("list", lambda c: List[c], lambda x: [x], lambda t: List[t]),
                  ("opt", lambda c: Optional[c], lambda x: x, lambda t: Optional[t]), ("dict", lambda c: Dict[str, c], lambda x: {"k": x}, lambda t: Dict[str, t]),
                  ("tuple", lambda c: Tuple[c, int], lambda x: (x, 1), lambda t: Tuple[t, int])]
        for cname in ("KI", "KI2", "KI3"):
            cls = mod.CLS[cname]
            for sname, mk_t, mk_v, mk_r in rng.sample(shapes, 3):
                if style.endswith("noinherit") and sname == "opt":
                    continue  # an unsupported union alternative is silently dropped
                a_m = harness.call(serialization_method, mk_t(cls))
                b_m = harness.call(serialization_method, mk_r(mod.U))
                env.case("inherit", style, cname, sname, u.sig())
                feat = {"family": "inherit", "style": style, "subclass_level": cname, "shape": sname}
                if style.endswith("noinherit") and cname != "KI":
                    if a_m.kind == "exc" and a_m.exc == "Unsupported":
                        env.count("inherit_false_unsupported")
                    else:
                        env.violation({**feat, "kind": "inherited-false-still-inherited"}, {**wit0, "observed": a_m.brief(), "expected": "Unsupported"})
                    continue
                if a_m.kind != "ok" or b_m.kind != "ok":
                    if b_m.kind != "ok":
                        env.count("abstain:reference type fails to compile")
                    else:
                        env.violation({**feat, "kind": "serializer-not-inherited", "exc": a_m.exc}, {**wit0, "observed": a_m.brief()})
                    continue
                for d, v, v2 in vals:
                    a = harness.call(a_m.value, mk_v(cls(v, "t")))
                    b = harness.call(b_m.value, mk_v(v2))
                    cmp_ser(env, a, b, feat, {**wit0, "datum": d}, "inherit_agree")
        # dynamic serializer with a superclass source (LSP)
        cleanup(mod)
        for cname in ("KI2", "KI3"):
            a_m = harness.call(serialization_method, mod.CLS[cname], conversion=mod.g_plain)
            env.case("inherit-lsp", cname, u.sig())
            feat = {"family": "inherit", "style": "dynamic-lsp", "subclass_level": cname}
            if a_m.kind != "ok":
                env.violation({**feat, "kind": "serializer-not-inherited", "exc": a_m.exc}, {**wit0, "observed": a_m.brief()})
                continue
            for d, v, v2 in vals:
                cmp_ser(env, harness.call(a_m.value, mod.CLS[cname](v, "t")), harness.call(s_u.value, v2), feat, {**wit0, "datum": d}, "inherit_agree")
        # schemas of subclasses
        serializer(mod.g_plain)
        cache.reset()
        b = harness.call(serialization_schema, mod.U)
        for cname in ("KI2",):
            a = harness.call(serialization_schema, mod.CLS[cname])
            if a.kind == "ok" and b.kind == "ok":
                env.case("inherit-schema", cname, u.sig())
                if schema_bisim(a.value, b.value):
                    env.count("inherit_schema_equal")
                else:
                    env.violation({"family": "inherit", "kind": "schema-differs", "which": "serialization", "subclass_level": cname},
                                  {**wit0, "converted_schema": a.value, "reference_schema": b.value})
            elif b.kind == "ok":
                env.violation({"family": "inherit", "kind": "schema-exception", "which": "serialization", "exc": a.exc}, {**wit0, "observed": a.brief()})
    finally:
        mod.EXTRA_CLS = [mod.KI, mod.KI2, mod.KI3, mod.KM, mod.KM2, mod.KM3]
        cleanup(mod)
        prog.unload()


GENERIC_INHERIT_SRC = """
TVB = TypeVar("TVB")
class GB(OpBase, Generic[TVB]):
    pass
class GBSub(GB[TVB]):  # still generic
    pass
class GBFixed(GB[{E}]):  # the subclass fixes the argument and is no longer generic
    pass
class GBFixed2(GBFixed):
    pass
class GBSubFixed(GBSub[{E}]):
    pass
def gb_out(o: GB[TVB]) -> List[TVB]:
    return [unmk(o, ("t",))]
CLS.update(GB=GB, GBSub=GBSub, GBFixed=GBFixed, GBFixed2=GBFixed2, GBSubFixed=GBSubFixed)
E = {E}
"""


def family_generic_inherit(env, g):
    """a generic serializer GB[T] -> List[T] is inherited by generic subclasses (GBSub[E]) and by subclasses that fix the
    argument (class GBFixed(GB[E])): serialize / schema are those of List[E], with the conversions and checks of E"""
    (apischema, cache, deserialization_method, serialization_method, converters, deserialization_schema, serialization_schema) = api()
    from apischema import serializer
    from apischema.conversions import Conversion
    from typing import Dict, List, Optional

    rng = env.rng
    gg = GraphGen(rng, g)
    u = gg.leaf()
    decls = {}
    u.collect(decls)
    src = PRELUDE12 + "\nfrom typing import Generic, TypeVar\n" + "\n".join(v for v in decls.values() if v) + GENERIC_INHERIT_SRC.replace("{E}", u.ann())
    try:
        prog = load_source(src)
    except Exception as e:
        env.count("program_load_failed:" + type(e).__name__)
        return
    mod = prog.module
    mod.EXTRA_CLS = []
    try:
        m_u = harness.call(deserialization_method, mod.E)
        if m_u.kind != "ok":
            env.count("abstain:reference type fails to compile")
            return
        cx = ctx_for(u)
        vals = []
        for d in gen_data.valid_data(u, cx, rng, 5):
            o, o2 = harness.call(m_u.value, copy.deepcopy(d)), harness.call(m_u.value, copy.deepcopy(d))
            if o.kind == "ok":
                vals.append((d, o.value, o2.value))
        if not vals:
            env.count("abstain:no valid value")
            return
        style = rng.choice(["func", "conv", "lazy"])
        if style == "func":
            serializer(mod.gb_out)
        elif style == "conv":
            serializer(Conversion(mod.gb_out))
        else:
            serializer(lazy=lambda: mod.gb_out, source=mod.GB)
        cache.reset()
        wit0 = {"program": prog.source, "family": "generic-inherit", "style": style, "E": u.ann()}
        types = {"GB[E]": (mod.GB[mod.E], mod.GB), "GBSub[E]": (mod.GBSub[mod.E], mod.GBSub), "GBFixed": (mod.GBFixed, mod.GBFixed), "GBFixed2": (mod.GBFixed2, mod.GBFixed2),
                 "GBSubFixed": (mod.GBSubFixed, mod.GBSubFixed)}
        shapes = [("bare", lambda c: c, lambda x: x), ("list", lambda c: List[c], lambda x: [x]), ("opt", lambda c: Optional[c], lambda x: x), ("dict", lambda c: Dict[str, c], lambda x: {"k": x})]
        for tname, (tp, cls) in types.items():
            for sname, mk_t, mk_v in rng.sample(shapes, 2):
                for check_type in (False, True):
                    kw = {"check_type": True} if check_type else {}
                    a_m = harness.call(serialization_method, mk_t(tp), **kw)
                    cache.reset()
                    b_m = harness.call(serialization_method, mk_t(List[mod.E]), **kw)
                    env.case("generic-inherit", style, tname, sname, check_type, u.sig())
                    feat = {"family": "generic-inherit", "style": style, "subclass": tname, "shape": sname, "check_type": check_type}
                    if b_m.kind != "ok":
                        env.count("abstain:reference type fails to compile")
                        continue
                    if a_m.kind != "ok":
                        env.violation({**feat, "kind": "serializer-not-inherited", "exc": a_m.exc}, {**wit0, "observed": a_m.brief()})
                        continue
                    for d, v, v2 in vals:
                        cmp_ser(env, harness.call(a_m.value, mk_v(cls(v, "t"))), harness.call(b_m.value, mk_v([v2])), feat, {**wit0, "datum": d}, "generic_inherit_agree")
                    if check_type:
                        # an ill-typed payload is refused like an ill-typed element of List[E]
                        bad = object()
                        a, b = harness.call(a_m.value, mk_v(cls(bad, "t"))), harness.call(b_m.value, mk_v([bad]))
                        if b.kind == "exc" and b.exc == "TypeCheckError" and a.kind == "ok":
                            env.violation({**feat, "kind": "check-type-lost"}, {**wit0, "observed": a.brief(), "reference": b.brief()})
                        else:
                            env.count("generic_inherit_check_type")
            cache.reset()
            a, b = harness.call(serialization_schema, tp), harness.call(serialization_schema, List[mod.E])
            if a.kind == "ok" and b.kind == "ok":
                env.case("generic-inherit-schema", tname, u.sig())
                if schema_bisim(a.value, b.value):
                    env.count("generic_inherit_schema_equal")
                else:
                    env.violation({"family": "generic-inherit", "kind": "schema-differs", "which": "serialization", "subclass": tname},
                                  {**wit0, "converted_schema": a.value, "reference_schema": b.value})
            elif b.kind == "ok":
                env.violation({"family": "generic-inherit", "kind": "schema-exception", "which": "serialization", "exc": a.exc, "subclass": tname}, {**wit0, "observed": a.brief()})
    finally:
        mod.EXTRA_CLS = [mod.GB, mod.GBSub, mod.GBFixed, mod.GBFixed2, mod.GBSubFixed]
        cleanup(mod)
        prog.unload()


def cmp_ser(env, a, b, feat, wit, counter):
    if a.kind == "ok" and b.kind == "ok":
        try:
            same = canon(a.value) == canon(b.value)
        except Unspecified:
            same = a.value == b.value
        if same:
            env.count(counter)
        else:
            env.violation({**feat, "kind": "serialized-value"}, {**wit, "expected": b.brief(), "observed": a.brief()})
    elif a.kind == b.kind and a.exc == b.exc:
        env.count("abstain:serialize raises on both sides:" + str(a.exc))
    elif b.kind != "ok":
        env.count("abstain:reference serialize raises")
    else:
        env.violation({**feat, "kind": "serialize-exception", "exc": a.exc or "ValidationError"}, {**wit, "expected": b.brief(), "observed": a.brief()})


IDENT_SRC = """
class KID(OpBase):
    pass
def to_dt(s: {S}) -> {DT}:
    o = object.__new__({DT})
    object.__setattr__(o, "_vf_from", s)
    return o
def from_dt(o: {DT}) -> {S}:
    return MARK[0]
def kid_from_dt(s: {DT}) -> KID:
    return mk(KID, "kid", s)
def kid_to_dt(o: KID) -> {DT}:
    return unmk(o, ("kid",))
MARK = [None]
@dataclass
class HolderI:
    x: {DT} = field(metadata=conversion(identity, identity))
    y: int = 0
CLS["KID"] = KID
DT = {DT}
S = {S}
"""


def same_outcome(a, b):
    from vf.c12_rt import canon12

    if a.kind != b.kind:
        return False
    if a.kind == "ok":
        return canon12(a.value) == canon12(b.value)
    if a.kind == "verr":
        return err_key(a.errors) == err_key(b.errors)
    return a.exc == b.exc


def family_identity(env, g):
    """`identity` (bare, or Conversion(identity, source=DT, target=DT) through containers / unions, as field
    conversion, as sub_conversion) bypasses the registered conversion of a dataclass DT: results equal those
    obtained before the conversion was registered"""
    (apischema, cache, deserialization_method, serialization_method, converters, deserialization_schema, serialization_schema) = api()
    from typing import Dict, List, Optional, Tuple, Union

    from apischema import deserializer, identity, serializer
    from apischema.conversions import Conversion

    rng = env.rng
    gg = GraphGen(rng, g)
    save = g.max_depth
    g.max_depth = 2
    dt = g.object(0, kind="dataclass", nfields=rng.choice([1, 2, 3]), allow_flatten=False)
    g.max_depth = save
    s = gg.leaf(small=True)
    if union_order_conflict([dt, s]):
        env.count("abstain:same union in two member orders inside one program (typing cache / F21)")
        return
    decls = {}
    dt.collect(decls)
    s.collect(decls)
    src = PRELUDE12 + "\n" + "\n".join(v for v in decls.values() if v) + IDENT_SRC.replace("{DT}", dt.name).replace("{S}", s.ann())
    try:
        prog = load_source(src)
    except Exception as e:
        env.count("program_load_failed:" + type(e).__name__)
        return
    mod = prog.module
    DT = mod.DT
    mod.EXTRA_CLS = [DT]
    wit0 = {"program": prog.source, "family": "identity"}
    explicit = Conversion(identity, source=DT, target=DT)
    shapes = [("bare", DT, lambda x: x), ("list", List[DT], lambda x: [x, x]), ("opt", Optional[DT], lambda x: x), ("dict", Dict[str, DT], lambda x: {"k": x}),
              ("tuple", Tuple[DT, int], lambda x: [x, 1]), ("union", Union[DT, int], lambda x: x), ("holder", mod.HolderI, lambda x: {"x": x})]
    try:
        cache.reset()
        cx = ctx_for(dt)
        atoms = gen_data.atoms_for(dt, cx)
        valid = gen_data.valid_data(dt, cx, rng, 4)
        data = valid + [m for v in valid[:2] for m in gen_data.mutants(v, rng, atoms, 2)] + rng.sample(atoms, 2)
        # ---- before registration: plain behaviour of every shape
        before = {}
        for sname, tp, mkd in shapes:
            dm, sm = harness.call(deserialization_method, tp), harness.call(serialization_method, tp)
            if dm.kind != "ok" or sm.kind != "ok":
                continue
            rows = []
            for d in data:
                o = harness.call(dm.value, copy.deepcopy(mkd(d)))
                ser = harness.call(sm.value, o.value) if o.kind == "ok" else None
                rows.append((d, o, ser))
            before[sname] = (rows, harness.call(deserialization_schema, tp), harness.call(serialization_schema, tp))
        if "bare" not in before:
            env.count("abstain:reference type fails to compile")
            return
        # ---- register DT <- S and DT -> S
        deserializer(mod.to_dt)
        serializer(mod.from_dt)
        cache.reset()
        # the registered conversion applies when nothing bypasses it
        cs = ctx_for(s)
        m_s, m_dt = harness.call(deserialization_method, mod.S), harness.call(deserialization_method, DT)
        if m_s.kind == "ok" and m_dt.kind == "ok":
            for d in gen_data.valid_data(s, cs, rng, 3):
                r, l = harness.call(m_s.value, copy.deepcopy(d)), harness.call(m_dt.value, copy.deepcopy(d))
                env.case("identity-registered", s.sig(), repr(d))
                if r.kind == "ok":
                    from vf.c12_rt import canon12
                    if l.kind == "ok" and type(l.value) is DT and hasattr(l.value, "_vf_from") and canon12(l.value._vf_from) == canon12(r.value):
                        env.count("identity_registered_applies")
                    else:
                        env.violation({"family": "identity", "kind": "registered-conversion-not-applied"}, {**wit0, "datum": d, "observed": l.brief()})
        for sname, tp, mkd in shapes:
            if sname not in before:
                continue
            rows, dsch, ssch = before[sname]
            convs = [("explicit", explicit)] if sname not in ("bare", "opt", "union") else [("explicit", explicit), ("bare-identity", identity)]
            if sname == "holder":
                convs = [("field", None)]
            for cname, conv in convs:
                kw = {} if conv is None else {"conversion": conv}
                feat = {"family": "identity", "shape": sname, "form": cname}
                dm, sm = harness.call(deserialization_method, tp, **kw), harness.call(serialization_method, tp, **kw)
                if dm.kind != "ok" or sm.kind != "ok":
                    env.violation({**feat, "kind": "compile", "exc": dm.exc or sm.exc}, {**wit0, "observed": [dm.brief(), sm.brief()]})
                    continue
                for d, o0, ser0 in rows:
                    env.case("identity", sname, cname, dt.sig(), repr(d))
                    o = harness.call(dm.value, copy.deepcopy(mkd(d)))
                    if same_outcome(o, o0):
                        env.count("identity_bypass_des")
                    else:
                        env.violation({**feat, "kind": "identity-not-bypassing", "op": "deserialize"}, {**wit0, "datum": mkd(d), "expected": o0.brief(), "observed": o.brief()})
                        continue
                    if ser0 is not None and o.kind == "ok":
                        ser = harness.call(sm.value, o.value)
                        if same_outcome(ser, ser0):
                            env.count("identity_bypass_ser")
                        else:
                            env.violation({**feat, "kind": "identity-not-bypassing", "op": "serialize"}, {**wit0, "datum": mkd(d), "expected": ser0.brief(), "observed": ser.brief()})
                for which, fn, ref in (("deserialization", deserialization_schema, dsch), ("serialization", serialization_schema, ssch)):
                    a = harness.call(fn, tp, **kw)
                    env.case("identity-schema", sname, cname, which, dt.sig())
                    if ref.kind == "ok" and a.kind == "ok" and schema_bisim(a.value, ref.value):
                        env.count("identity_bypass_schema")
                    elif ref.kind == "ok":
                        env.violation({**feat, "kind": "identity-not-bypassing", "op": which + "_schema"},
                                      {**wit0, "expected": ref.brief(), "observed": a.brief()})
        # ---- identity as sub_conversion: KID <- DT where DT is deserialized without its registered conversion
        sub_d = Conversion(mod.kid_from_dt, sub_conversion=identity)
        sub_s = Conversion(mod.kid_to_dt, sub_conversion=identity)
        dm, sm = harness.call(deserialization_method, mod.KID, conversion=sub_d), harness.call(serialization_method, mod.KID, conversion=sub_s)
        feat = {"family": "identity", "shape": "sub_conversion", "form": "bare-identity"}
        if dm.kind != "ok" or sm.kind != "ok":
            env.violation({**feat, "kind": "compile", "exc": dm.exc or sm.exc}, {**wit0, "observed": [dm.brief(), sm.brief()]})
        else:
            from vf.c12_rt import canon12, erase_img
            for d, o0, ser0 in before["bare"][0]:
                env.case("identity-sub", dt.sig(), repr(d))
                o = harness.call(dm.value, copy.deepcopy(d))
                ok = o.kind == o0.kind and (o.kind != "ok" or (type(o.value) is mod.KID and erase_img(canon12(o.value)) == canon12(o0.value))) and (o.kind != "verr" or err_key(o.errors) == err_key(o0.errors))
                if not ok:
                    env.violation({**feat, "kind": "identity-not-bypassing", "op": "deserialize"}, {**wit0, "datum": d, "expected": o0.brief(), "observed": o.brief()})
                    continue
                env.count("identity_bypass_des")
                if o.kind == "ok" and ser0 is not None:
                    ser = harness.call(sm.value, o.value)
                    if same_outcome(ser, ser0):
                        env.count("identity_bypass_ser")
                    else:
                        env.violation({**feat, "kind": "identity-not-bypassing", "op": "serialize"}, {**wit0, "datum": d, "expected": ser0.brief(), "observed": ser.brief()})
    finally:
        cleanup(mod)
        prog.unload()


REC_SRC = """
class RK(OpBase):
    pass
ELT = {E}
def rk_in(s: List[Union[{E}, RK]]) -> RK:
    return mk(RK, "rk", s)
def rk_out(o: RK) -> List[Union[{E}, RK]]:
    return unmk(o, ("rk",))
_tmp_d = [None]
_tmp_s = [None]
REC_D = Conversion(rk_in, sub_conversion=LazyConversion(lambda: _tmp_d[0]))
REC_S = Conversion(rk_out, sub_conversion=LazyConversion(lambda: _tmp_s[0]))
_tmp_d[0] = REC_D
_tmp_s[0] = REC_S
CLS["RK"] = RK
"""


def family_recursive(env, g):
    """recursive conversions: RK <- List[Union[E, RK]] (dynamic with a lazy recursive sub-conversion as in the docs,
    registered function, registered lazy).  Oracle: the nested-list structure of the datum."""
    (apischema, cache, deserialization_method, serialization_method, converters, deserialization_schema, serialization_schema) = api()
    from apischema import deserializer, serializer
    from apischema.conversions import Conversion
    from vf.c12_rt import OpBase

    rng = env.rng
    ename, ok_leaf, leaves, bad = rng.choice([
        ("int", lambda x: type(x) is int, [0, 1, -3, 7], ["a", None, 1.5, True, {}]),
        ("str", lambda x: type(x) is str, ["", "a", "xyz"], [1, None, True, {}]),
        ("bool", lambda x: type(x) is bool, [True, False], [1, "a", None, {}]),
    ])
    try:
        prog = load_source(PRELUDE12 + REC_SRC.replace("{E}", ename))
    except Exception as e:
        env.count("program_load_failed:" + type(e).__name__)
        return
    mod = prog.module
    RK = mod.RK

    def gen(depth, p_bad):
        out = []
        for _ in range(rng.randint(0, 3)):
            q = rng.random()
            if q < 0.35 and depth < 4:
                out.append(gen(depth + 1, p_bad))
            elif q < 0.35 + p_bad:
                out.append(rng.choice(bad))
            else:
                out.append(rng.choice(leaves))
        return out

    def valid(d):
        return type(d) is list and all(ok_leaf(x) or valid(x) for x in d)

    def shape_ok(v, d):
        if type(v) is not RK or v.tag != "rk" or type(v.v) is not list or len(v.v) != len(d):
            return False
        return all(shape_ok(x, y) if type(y) is list else (type(x) is type(y) and x == y) for x, y in zip(v.v, d))

    def build(d):
        return RK([build(x) if type(x) is list else x for x in d], "rk")

    variant = rng.choice(["dynamic-lazy-sub", "registered", "registered-lazy"])
    wit0 = {"program": prog.source, "family": "recursive", "variant": variant}
    feat = {"family": "recursive", "variant": variant}
    try:
        kw_d, kw_s = {}, {}
        if variant == "dynamic-lazy-sub":
            kw_d["conversion"], kw_s["conversion"] = mod.REC_D, mod.REC_S
        elif variant == "registered":
            deserializer(mod.rk_in)
            serializer(mod.rk_out)
        else:
            from typing import List, Union
            src_t = List[Union[mod.ELT, RK]]
            deserializer(lazy=lambda: Conversion(mod.rk_in, source=src_t, target=RK), target=RK)
            serializer(lazy=lambda: Conversion(mod.rk_out, source=RK, target=src_t), source=RK)
        cache.reset()
        dm, sm = harness.call(deserialization_method, RK, **kw_d), harness.call(serialization_method, RK, **kw_s)
        if dm.kind != "ok" or sm.kind != "ok":
            env.violation({**feat, "kind": "compile", "exc": dm.exc or sm.exc}, {**wit0, "observed": [dm.brief(), sm.brief()]})
            return
        data = [gen(0, 0.0) for _ in range(8)] + [gen(0, 0.2) for _ in range(6)] + [rng.choice(bad), [[[]]], []]
        for d in data:
            env.case("recursive", variant, ename, repr(d))
            o = harness.call(dm.value, copy.deepcopy(d))
            if valid(d):
                if o.kind == "ok" and shape_ok(o.value, d):
                    env.count("recursive_des_agree")
                else:
                    env.violation({**feat, "kind": "false-reject" if o.kind != "ok" else "value"}, {**wit0, "datum": d, "observed": o.brief()})
                    continue
                ser = harness.call(sm.value, build(d))
                if ser.kind == "ok" and canon(ser.value) == canon(d):
                    env.count("recursive_ser_agree")
                else:
                    env.violation({**feat, "kind": "serialized-value"}, {**wit0, "datum": d, "observed": ser.brief()})
            else:
                if o.kind == "verr":
                    env.count("recursive_des_reject")
                else:
                    env.violation({**feat, "kind": "false-accept" if o.kind == "ok" else "exception", "exc": o.exc}, {**wit0, "datum": d, "observed": o.brief()})
        env.count("abstain:schema of recursive conversions")
    finally:
        cleanup(mod)
        prog.unload()


LSP_SRC = """
class LB:
    def __init__(self, v, tag):
        self.v, self.tag = v, tag
    def __eq__(self, o):
        return type(o) is type(self) and (o.v, o.tag) == (self.v, self.tag)
    __hash__ = None
    def __repr__(self):
        return f"{type(self).__name__}({self.v!r}, {self.tag!r})"

class LS(LB):
    pass

def lb_reg_in(s: str) -> LB:
    return LB(s, "reg-base")
def ls_reg_in(s: str) -> LS:
    return LS(s, "reg-sub")
def lb_reg_out(b: LB) -> str:
    return "reg-base:" + str(b.v)
def ls_reg_out(b: LS) -> str:
    return "reg-sub:" + str(b.v)
def ls_from_int(i: int) -> LS:
    return LS(i, "dyn-sub")
def lb_from_int(i: int) -> LB:
    return LB(i, "dyn-base")
def lb_to_int(b: LB) -> int:
    return 1000 + len(str(b.v))
def ls_to_int(b: LS) -> int:
    return 2000 + len(str(b.v))
CLS = {"LB": LB, "LS": LS}
"""


def family_lsp(env, g):
    """Liskov rule of dynamic conversions (docs/conversions.md + examples/dynamic_conversions_lsp.py): a dynamic deserializer applies
    when its target is the visited class or a *subclass* of it, a dynamic serializer when its source is the visited class or a
    *superclass* of it; otherwise the registered conversion of the visited class is used.  Direct expectations, no model."""
    (apischema, cache, deserialization_method, serialization_method, converters, deserialization_schema, serialization_schema) = api()
    from typing import Dict, List, Optional
    from apischema import deserializer, serializer

    rng = env.rng
    try:
        prog = load_source(PRELUDE12 + LSP_SRC)
    except Exception as e:
        env.count("program_load_failed:" + type(e).__name__)
        return
    mod = prog.module
    LB, LS = mod.LB, mod.LS
    wrap_name = rng.choice(["bare", "list", "optional", "dict"])
    wrapT = {"bare": lambda t: t, "list": lambda t: List[t], "optional": lambda t: Optional[t], "dict": lambda t: Dict[str, t]}[wrap_name]
    wrapd = {"bare": lambda d: d, "list": lambda d: [d], "optional": lambda d: d, "dict": lambda d: {"k": d}}[wrap_name]
    unwrap = {"bare": lambda v: v, "list": lambda v: v[0], "optional": lambda v: v, "dict": lambda v: v["k"]}[wrap_name]
    try:
        for f in (mod.lb_reg_in, mod.ls_reg_in):
            deserializer(f)
        for f in (mod.lb_reg_out, mod.ls_reg_out):
            serializer(f)
        cache.reset()
        feat = {"family": "lsp", "wrap": wrap_name}
        wit0 = {"program": prog.source, "family": "lsp", "wrap": wrap_name}
        # (visited class, dynamic deserializer, datum, expected: ("ok", instance) | "reject")
        dcases = [
            ("LB", "ls_from_int", 3, ("ok", LS(3, "dyn-sub"))), ("LB", "ls_from_int", "x", "reject"),       # target LS is a subclass of LB: applies
            ("LS", "lb_from_int", 3, "reject"), ("LS", "lb_from_int", "x", ("ok", LS("x", "reg-sub"))),      # target LB is not an LS: registered one is used
            ("LB", "lb_from_int", 3, ("ok", LB(3, "dyn-base"))), ("LS", "ls_from_int", 3, ("ok", LS(3, "dyn-sub"))),  # exact class
            ("LB", None, "x", ("ok", LB("x", "reg-base"))), ("LS", None, "x", ("ok", LS("x", "reg-sub"))),
        ]
        for cname, conv, d, exp in dcases:
            kw = {"conversion": getattr(mod, conv)} if conv else {}
            o = harness.call(apischema.deserialize, wrapT(getattr(mod, cname)), wrapd(d), **kw)
            env.count("lsp_deserialization_checks")
            env.case("lsp", "des", wrap_name, cname, conv, repr(d))
            ok = (o.kind == "verr") if exp == "reject" else (o.kind == "ok" and unwrap(o.value) == exp[1])
            if not ok:
                env.violation({**feat, "kind": "lsp-deserializer-selection", "visited": cname, "dynamic_target": {"ls_from_int": "LS", "lb_from_int": "LB", None: None}[conv],
                               "expected": "reject" if exp == "reject" else "ok"}, {**wit0, "call": f"deserialize({wrap_name}[{cname}], {d!r}, conversion={conv})", "observed": o.brief(), "expected": repr(exp)})
            sch = harness.call(deserialization_schema, wrapT(getattr(mod, cname)), **kw)
            env.count("lsp_schema_checks")
            want_type = "integer" if (conv and exp != "reject" and type(d) is int) or (conv and exp == "reject" and type(d) is str) else "string"
            other = "integer" if want_type == "string" else "string"
            if sch.kind != "ok" or f'"{want_type}"' not in json.dumps(sch.value) or f'"{other}"' in json.dumps(sch.value):
                env.violation({**feat, "kind": "lsp-deserialization-schema", "visited": cname, "dynamic": conv}, {**wit0, "observed": sch.brief(), "expected_type": want_type})
        scases = [
            ("LS", "lb_to_int", LS("ab", "t"), 1002),           # source LB is a superclass of LS: applies
            ("LB", "ls_to_int", LB("ab", "t"), "reg-base:ab"),  # source LS is not a superclass of LB: registered one is used
            ("LB", "lb_to_int", LB("ab", "t"), 1002), ("LS", "ls_to_int", LS("ab", "t"), 2002),
            ("LB", None, LB("ab", "t"), "reg-base:ab"), ("LS", None, LS("ab", "t"), "reg-sub:ab"),
        ]
        for cname, conv, v, exp in scases:
            kw = {"conversion": getattr(mod, conv)} if conv else {}
            o = harness.call(apischema.serialize, wrapT(getattr(mod, cname)), wrapd(v), **kw)
            env.count("lsp_serialization_checks")
            env.case("lsp", "ser", wrap_name, cname, conv)
            if not (o.kind == "ok" and unwrap(o.value) == exp):
                env.violation({**feat, "kind": "lsp-serializer-selection", "visited": cname, "dynamic_source": {"lb_to_int": "LB", "ls_to_int": "LS", None: None}[conv]},
                              {**wit0, "call": f"serialize({wrap_name}[{cname}], {v!r}, conversion={conv})", "observed": o.brief(), "expected": repr(exp)})
    finally:
        cleanup(mod)
        prog.unload()


RECFIELD_SRC = """
from apischema.metadata import conversion as conversion_md

def rn_to_pair(n: "RNode") -> Tuple[str, "RNode"]:
    return ("t", n)

def rn_from_pair(p: Tuple[str, "RNode"]) -> "RNode":
    return p[1]

@dataclass
class RNode:
    v: int
    kids: List["RNode"] = field(default_factory=list)
    tagged: {WRAP}["RNode"] = field(default_factory={FACTORY}, metadata=conversion_md(deserialization=rn_from_pair, serialization=rn_to_pair))
CLS = {{"RNode": RNode}}
"""


def family_recfield(env, g):
    """a recursive class with a field whose field-level conversion re-enters the class (RNode <-> Tuple[str, RNode]): the conversion
    applies at that field, at every depth, and nowhere else (direct expectations)"""
    (apischema, cache, deserialization_method, serialization_method, converters, deserialization_schema, serialization_schema) = api()

    rng = env.rng
    wrap, factory = rng.choice([("List", "list"), ("List", "list"), ("Optional", "lambda: None")])
    try:
        prog = load_source(PRELUDE12 + RECFIELD_SRC.replace("{WRAP}", wrap).replace("{FACTORY}", factory).replace("{{", "{").replace("}}", "}"))
    except Exception as e:
        env.count("program_load_failed:" + type(e).__name__)
        return
    mod = prog.module
    RNode = mod.RNode
    is_list = wrap == "List"

    def leaf(v):
        return {"v": v, "kids": [], "tagged": [] if is_list else None}

    def obj(d):
        t = d["tagged"]
        return RNode(d["v"], [obj(k) for k in d["kids"]], ([obj(p[1]) for p in t] if is_list else (None if t is None else obj(t[1]))))

    def tag(d):
        return [["t", d]] if is_list else ["t", d]

    try:
        cache.reset()
        feat = {"family": "recfield", "wrap": wrap}
        wit0 = {"program": prog.source, "family": "recfield"}
        deep = {"v": 1, "kids": [{**leaf(2), "tagged": tag(leaf(3))}], "tagged": tag({**leaf(4), "kids": [leaf(5)], "tagged": tag(leaf(6))})}
        good = [leaf(0), {**leaf(1), "tagged": tag(leaf(2))}, deep]
        for d in good:
            o = harness.call(apischema.deserialize, RNode, copy.deepcopy(d))
            env.count("recfield_checks")
            env.case("recfield", wrap, "des", repr(d)[:80])
            if not (o.kind == "ok" and o.value == obj(d)):
                env.violation({**feat, "kind": "false-reject" if o.kind != "ok" else "value", "op": "deserialize"}, {**wit0, "datum": d, "observed": o.brief()})
                continue
            so = harness.call(apischema.serialize, RNode, obj(d))
            env.count("recfield_checks")
            if not (so.kind == "ok" and canon(so.value) == canon(d)):
                env.violation({**feat, "kind": "serialized-value", "op": "serialize"}, {**wit0, "datum": d, "observed": so.brief()})
        # the pair form is required at `tagged` (a plain object there is rejected) and refused at `kids`
        bad = [{**leaf(1), "tagged": ([leaf(2)] if is_list else leaf(2))}, {**leaf(1), "kids": [["t", leaf(2)]]},
               {**leaf(1), "kids": [{**leaf(2), "tagged": ([leaf(3)] if is_list else leaf(3))}]}]
        for d in bad:
            o = harness.call(apischema.deserialize, RNode, copy.deepcopy(d))
            env.count("recfield_checks")
            env.case("recfield", wrap, "bad", repr(d)[:80])
            if o.kind != "verr":
                env.violation({**feat, "kind": "false-accept" if o.kind == "ok" else "exception", "exc": o.exc, "op": "deserialize"}, {**wit0, "datum": d, "observed": o.brief()})
    finally:
        cleanup(mod)
        prog.unload()


# ---------------------------------------------------------------- driver
def one_graph(env, j, ndata):
    rng = env.rng
    g = gen_types.Gen(rng, max_depth=rng.choice([2, 2, 3]), recursion=True)
    gg = GraphGen(rng, g)
    try:
        fam, top, bare = gg.build()
    except Unspecified:
        env.count("generator_gave_up")
        return
    classes = all_classes_deep(top)
    case = Case(env, fam, top, bare, classes)
    case.plan(rng)
    if not case.plans:
        env.count("graphs_all_placements_abstained")
        return
    if case.union_order_conflict():
        env.count("abstain:same union in two member orders inside one program (typing cache / F21)")
        return
    src = case.source()
    try:
        prog = load_source(src)
    except Exception as e:
        env.count("program_load_failed")
        env.count("program_load_failed:" + type(e).__name__)
        if env.counters["program_load_failed"] <= 3:
            env.notes.append(f"load failed: {type(e).__name__}: {e} :: type {top.ann()[:200]}")
        return
    try:
        run_graph(env, case, prog, ndata)
        env.count("graphs")
        env.count("family:" + fam)
        if len(env.samples) < 3 and rng.random() < 0.05:
            env.sample({"family": fam, "type": top.ann(), "classes": {k.name: {kind: [(r.tag, r.src.ann(), r.style, r.mode) for r in rs] for kind, rs in k.roles.items() if rs} for k in classes}})
    finally:
        cleanup(prog.module)
        prog.unload()


PARTS = ("graph", "inherit", "identity", "recursive", "lsp", "recfield")


def run_part(env, part, j, ndata=22):
    """one unit of work with its own PRNG (derived from seed / tier / shard / index / part), so that a witness can be
    regenerated alone by `replay`"""
    from vf.core import h64

    env.rng = random.Random(h64("c12", env.seed, env.tier, env.shard, env.nshards, j, part))
    env.cur = {"tier": env.tier, "shard": env.shard, "nshards": env.nshards, "j": j, "part": part}
    if part == "graph":
        one_graph(env, j, ndata)
    else:
        g = gen_types.Gen(env.rng, max_depth=2, recursion=False)
        {"inherit": family_inherit, "identity": family_identity, "recursive": family_recursive, "lsp": family_lsp, "recfield": family_recfield,
         "generic-inherit": family_generic_inherit}[part](env, g)


def tag_origin(env):
    if getattr(env, "_c12_tagged", False):
        return
    orig = env.violation
    env.violation = lambda feat, wit: orig(feat, {**wit, "origin": dict(getattr(env, "cur", {}))})
    env._c12_tagged = True


def run(env):
    tag_origin(env)
    n = env.n(2400, 90000)
    for j in range(n):
        if env.out_of_time():
            env.notes.append("time cap reached")
            break
        run_part(env, "graph", j)
        if j % 6 in (0, 2, 4):
            run_part(env, PARTS[1 + (j % 6) // 2], j)
        if j % 24 == 1:
            run_part(env, "lsp", j)
        if j % 24 == 13:
            run_part(env, "recfield", j)
        if j % 24 == 7:
            run_part(env, "generic-inherit", j)


def finish_coverage(cov, counters, tier):
    cov["exhaustive"] = False
    cov["abstentions"] = {k[8:]: v for k, v in counters.items() if k.startswith("abstain:")}
    cov["counters"] = {k: v for k, v in cov["counters"].items() if not k.startswith("abstain:")}


def replay(env, rep):
    """regenerate the unit of work (graph / template family instance) the witness came from -- its PRNG is derived from
    (seed, tier, shard, nshards, index, part) only -- and re-evaluate every oracle on it; the witness reproduces when a
    violation with the same features is reported again"""
    w = rep["witness"]
    o = w.get("origin")
    print("replay: family", w.get("family"), "placement", w.get("placement"), "type", w.get("type"))
    print("recorded observed:", json.dumps(w.get("observed"), default=str)[:400])
    if not o:
        print("witness has no origin; cannot regenerate")
        return
    env.seed, env.tier, env.shard, env.nshards = rep.get("seed", env.seed), o["tier"], o["shard"], o["nshards"]
    tag_origin(env)
    run_part(env, o["part"], o["j"])
    same = [v for v in env.violations if v["features"] == rep["features"]]
    other = [v for v in env.violations if v["features"] != rep["features"]]
    print(f"regenerated {o}: {len(same)} violation(s) with the recorded features, {len(other)} other")
    for v in same[:1]:
        print("observed now:", json.dumps(v["witness"].get("observed"), default=str)[:400])
    env.violations[:] = same
