"""Data spaces: atoms, valid data (from the model), boundary mutants, random deep JSON, hostile objects."""
import copy

from vf.spec import Ctx, ObjectT, T, Unspecified

BASE_ATOMS = [None, True, False, 0, 1, -1, 2, 3, 2**63, 0.5, -1.5, 2.0, "", "a", "b", "ab", "1", "true",
              [], {}, [1], ["a"], [1, "a"], [1, 1], {"a": 1}, [[1]], {"a": {"b": 1}}]


def _key(x):
    return (type(x).__name__, repr(x))


def atoms_for(t: T, cx: Ctx):
    extra = set()
    try:
        t.atoms(extra, cx)
    except Exception:
        pass
    seen, out = set(), []
    for a in BASE_ATOMS + sorted((e for e in extra if e is None or isinstance(e, (bool, int, float, str))), key=_key):
        k = _key(a)
        if k not in seen:
            seen.add(k)
            out.append(a)
    return out


def valid_data(t: T, cx: Ctx, rng, n):
    out = []
    for _ in range(n * 3):
        cx.budget = 3000
        try:
            out.append(t.valid(rng, cx))
        except Unspecified:
            continue
        except RecursionError:
            continue
        if len(out) >= n:
            break
    return out


def paths(d, prefix=()):
    yield prefix
    if type(d) is list:
        for i, x in enumerate(d):
            yield from paths(x, (*prefix, i))
    elif type(d) is dict:
        for k, x in d.items():
            yield from paths(x, (*prefix, k))


def get_at(d, path):
    for p in path:
        d = d[p]
    return d


def set_at(d, path, v):
    """Return a deep copy of d with the value at path replaced by v."""
    if not path:
        return copy.deepcopy(v)
    d = copy.deepcopy(d)
    cur = d
    for p in path[:-1]:
        cur = cur[p]
    cur[path[-1]] = copy.deepcopy(v)
    return d


def mutants(d, rng, atoms, n, extra_keys=("zz", "extra", "a", "x-new", "k_new")):
    """One-step boundary mutations of d at random paths."""
    ps = list(paths(d))
    out = []
    for _ in range(n):
        p = rng.choice(ps)
        cur = get_at(d, p)
        k = rng.random()
        try:
            if k < 0.45 or (type(cur) not in (list, dict)):
                out.append(set_at(d, p, rng.choice(atoms)))
            elif type(cur) is dict:
                c = copy.deepcopy(cur)
                r = rng.random()
                if r < 0.4 and c:
                    del c[rng.choice(list(c))]
                elif r < 0.8:
                    c[rng.choice(extra_keys)] = rng.choice(atoms)
                elif c:
                    k1 = rng.choice(list(c))
                    c[k1 + "_"] = c.pop(k1)
                out.append(set_at(d, p, c))
            else:
                c = copy.deepcopy(cur)
                r = rng.random()
                if r < 0.3 and c:
                    del c[rng.randrange(len(c))]
                elif r < 0.6:
                    c.insert(rng.randint(0, len(c)), rng.choice(atoms))
                elif r < 0.8 and c:
                    c.append(copy.deepcopy(rng.choice(c)))
                elif len(c) >= 2:
                    c[0], c[-1] = c[-1], c[0]
                else:
                    c.append(rng.choice(atoms))
                out.append(set_at(d, p, c))
        except Exception:
            continue
    return out


def deep_json(rng, depth=0, maxdepth=5):
    k = rng.random()
    if depth >= maxdepth or k < 0.4:
        return rng.choice([None, True, False, 0, 1, -3, 2.5, "", "a", "xyz", 10**20])
    if k < 0.7:
        return [deep_json(rng, depth + 1, maxdepth) for _ in range(rng.randint(0, 3))]
    return {rng.choice(["a", "b", "f1", "f2", "x-k", "k_1", "zz"]): deep_json(rng, depth + 1, maxdepth) for _ in range(rng.randint(0, 3))}


# ---------------------------------------------------------------- hostile (C03)
class MyStr(str):
    pass


class MyInt(int):
    pass


class MyFloat(float):
    pass


class MyList(list):
    pass


class MyDict(dict):
    pass


class Unhashable:
    __hash__ = None

    def __repr__(self):
        return "Unhashable()"


def hostile_atoms():
    return [float("nan"), float("inf"), float("-inf"), 10**400, -(10**400), 10**5000,  # 10**5000: beyond the int -> str digit limit
            MyStr("a"), MyStr("1"), MyInt(1), MyFloat(1.5),
            MyList([1]), MyDict({"a": 1}), (1, 2), (), b"ab", bytearray(b"a"), {1: "a"}, {1: "a", "b": "c"}, {None: 1}, {("t",): 1},
            {1, 2}, frozenset([1]), Unhashable(), object(), 1j, [Unhashable()], {"a": Unhashable()}, range(2), Ellipsis, int, "\ud800",
            [[]], [{}], {"": None}, -0.0, 1e308, True, 2**64]


def nested(depth, leaf=0, kind="list"):
    d = leaf
    for _ in range(depth):
        d = [d] if kind == "list" else {"a": d}
    return d


def fingerprint(x, depth=0, memo=None):
    """Structural fingerprint incl. classes and container identities (purity monitor)."""
    if depth > 400:
        return "<deep>"
    t = type(x)
    if t in (list, tuple) or isinstance(x, (list, tuple)):
        return (t.__name__, id(x), tuple(fingerprint(e, depth + 1) for e in x))
    if isinstance(x, dict):
        return (t.__name__, id(x), tuple((fingerprint(k, depth + 1), fingerprint(v, depth + 1)) for k, v in x.items()))
    if isinstance(x, (set, frozenset)):
        return (t.__name__, id(x), frozenset(fingerprint(e, depth + 1) for e in x))
    if t is float and x != x:
        return ("float", "nan")
    if isinstance(x, (bool, int, float, str, bytes, type(None))):
        return (t.__name__, x)
    return (t.__name__, id(x))
