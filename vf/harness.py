"""Boundary recorder helpers shared by the checks: outcome capture, error-kind tagging,
compiled-tree signatures (coverage evidence), apischema option plumbing."""
import dataclasses
from collections import Counter

from vf.spec import ALIASERS

TAGS = ["minimum", "maximum", "exclusive_minimum", "exclusive_maximum", "multiple_of", "min_length", "max_length",
        "pattern", "min_items", "max_items", "unique_items", "min_properties", "max_properties", "one_of"]
_saved = {}


def tag_errors(on=True):
    """Replace every customisable message by a tagged one ('§kind:param') or restore the defaults.
    Must be followed by a cache reset (settings.errors has no reset of its own)."""
    from apischema import settings
    from apischema.cache import reset

    e = settings.errors
    if on:
        if not _saved:
            for t in TAGS + ["unexpected_property", "missing_property"]:
                _saved[t] = getattr(e, t)
        for t in TAGS:
            setattr(e, t, "§" + t + ":{}")
        e.unexpected_property = "§unexpected"
        e.missing_property = "§missing"
    elif _saved:
        for t, v in _saved.items():
            setattr(e, t, v)
    reset()


def err_kind(msg):
    if isinstance(msg, str):
        if msg.startswith("§"):
            return msg[1:].split(":")[0].split(" ")[0]
        if msg.startswith("expected type"):
            return "type"
    return "other"


def options(cx, **extra):
    """apischema keyword arguments for a model context."""
    kw = dict(additional_properties=cx.additional_properties, fall_back_on_default=cx.fall_back_on_default)
    if cx.aliaser != "identity":
        kw["aliaser"] = ALIASERS[cx.aliaser]
    if cx.coerce:
        kw["coerce"] = True
    kw.update(extra)
    return kw


class Outcome:
    __slots__ = ("kind", "value", "errors", "exc", "msg", "site", "error")

    def __init__(self, kind, value=None, errors=None, exc=None, msg=None, site=None, error=None):
        self.kind, self.value, self.errors, self.exc, self.msg, self.site, self.error = kind, value, errors, exc, msg, site, error

    def brief(self):
        if self.kind == "ok":
            return {"ok": safe_repr(self.value)[:300]}
        if self.kind == "verr":
            return {"ValidationError": self.errors[:12]}
        return {"exception": self.exc, "msg": (self.msg or "")[:300]}


def call(fn, *a, **kw) -> Outcome:
    """Run a public function; classify the outcome (return / ValidationError / other exception)."""
    from apischema import ValidationError

    try:
        v = fn(*a, **kw)
    except ValidationError as e:
        try:
            errs = e.errors
        except Exception as e2:  # errors list not computable
            return Outcome("exc", exc="errors:" + type(e2).__name__, msg=str(e2))
        return Outcome("verr", errors=errs, error=e)
    except RecursionError as e:
        return Outcome("exc", exc="RecursionError", msg=str(e), site="recursion")
    except Exception as e:
        return Outcome("exc", exc=type(e).__name__, msg=_safe_str(e), site=_site(e))
    return Outcome("ok", value=v)


def safe_repr(v):
    try:
        return repr(v)
    except Exception as e:
        return f"<repr raised {type(e).__name__}: {e}>"


def _safe_str(e):
    try:
        return str(e)
    except Exception:
        return "<str failed>"


def _site(e):
    """innermost frame inside the apischema package: 'module.function' (witness feature)"""
    tb, site = e.__traceback__, None
    while tb is not None:
        fn = tb.tb_frame.f_code.co_filename
        if "/apischema/" in fn:
            site = fn.split("/apischema/")[-1][:-3].replace("/", ".") + ":" + tb.tb_frame.f_code.co_name
        tb = tb.tb_next
    return site


def tree_classes(method, counter: Counter, limit=400):
    """Class names of the nodes of a compiled method tree (coverage evidence only)."""
    seen, stack, names = set(), [getattr(method, "__self__", method)], []
    while stack and len(seen) < limit:
        n = stack.pop()
        if id(n) in seen:
            continue
        seen.add(id(n))
        mod = type(n).__module__ or ""
        if mod.startswith("apischema") and dataclasses.is_dataclass(n) or mod.endswith(".methods"):
            names.append(type(n).__name__)
            counter["node:" + type(n).__name__] += 1
            if dataclasses.is_dataclass(n):
                for f in dataclasses.fields(n):
                    stack.append(getattr(n, f.name, None))
        elif isinstance(n, (tuple, list)):
            stack.extend(n)
        elif isinstance(n, dict):
            stack.extend(n.values())
    return "/".join(sorted(set(names)))


def reset_all():
    from apischema.cache import reset

    reset()


def undefined_variants(t, v, limit=2):
    """copies of the dataclass instance v (of the ObjectT t) where a field typed Union[X, UndefinedType] holds Undefined, or a
    required none_as_undefined field holds None: values of the type that deserialization never produces"""
    import copy
    import dataclasses
    from apischema import Undefined
    from vf.spec import ObjectT

    out = []
    if isinstance(t, ObjectT) and t.kind == "typeddict" and type(v) is dict:
        # a TypedDict value whose key typed Union[X, UndefinedType] holds Undefined (present key, to be omitted)
        for f in t.fields:
            if f.undefined and not f.aggregate and len(out) < limit:
                out.append({**v, f.name: Undefined})
        return out
    if isinstance(t, ObjectT) and t.kind == "namedtuple" and isinstance(v, tuple) and hasattr(v, "_replace"):
        for f in t.fields:
            if f.undefined and not f.aggregate and len(out) < limit:
                try:
                    out.append(v._replace(**{f.name: Undefined}))
                except Exception:
                    pass
        return out
    if not (isinstance(t, ObjectT) and t.kind == "dataclass" and dataclasses.is_dataclass(v)):
        return out
    if t.fields_set:
        # a with_fields_set instance whose required field has been explicitly unset (only reachable through unset_fields)
        from apischema.fields import unset_fields
        for f in t.fields:
            if f.required and not f.aggregate and not f.init_false and not f.initvar and not f.skip_ser and not f.default_as_set:
                try:
                    from apischema.fields import FIELDS_SET_ATTR
                    c = copy.copy(v)
                    c.__dict__[FIELDS_SET_ATTR] = set(v.__dict__[FIELDS_SET_ATTR])  # (copy.copy shares the set)
                    unset_fields(c, f.name)
                    out.append(c)
                except Exception:
                    pass
                break
    for f in t.fields:
        special = Undefined if f.undefined else None if (f.none_as_undefined and not f.has_default) else ...
        if special is not ... and not f.init_false and not f.initvar and len(out) < limit + 1:
            try:
                c = copy.copy(v)
                object.__setattr__(c, f.name, special)
                from apischema.fields import FIELDS_SET_ATTR
                fs = getattr(v, "__dict__", {}).get(FIELDS_SET_ATTR)
                if fs is not None:
                    c.__dict__[FIELDS_SET_ATTR] = set(fs) | {f.name}
            except Exception:
                continue
            out.append(c)
    return out


def sequence_variants(t, v, limit=2):
    """values of the same type with another runtime class where the annotation is abstract: a tuple for Sequence[T] /
    Collection[T] (top level or dataclass field) -- deserialization always builds lists / tuples of one kind there"""
    import copy
    import dataclasses
    from vf.spec import Coll, ObjectT, strip

    out = []
    b = strip(t)
    if isinstance(b, Coll) and b.c in ("seq", "coll") and isinstance(v, (list, tuple)):
        out.append(tuple(v) if isinstance(v, list) else list(v))
    elif isinstance(b, ObjectT) and b.kind == "dataclass" and dataclasses.is_dataclass(v):
        for f in b.fields:
            fb = strip(f.t)
            if isinstance(fb, Coll) and fb.c in ("seq", "coll") and not f.init_false and not f.initvar and len(out) < limit:
                cur = getattr(v, f.name, None)
                if isinstance(cur, (list, tuple)):
                    c = copy.copy(v)
                    try:
                        object.__setattr__(c, f.name, tuple(cur) if isinstance(cur, list) else list(cur))
                    except Exception:
                        continue
                    out.append(c)
    return out
