"""C02 — rejections report every violation once, at its location.
Monitors ValidationError.errors of rejected calls.  Oracles: (a) additivity of independent violations (model-free),
(b) location/kind set equality with the reference model, (c) canonical order + determinism of the list."""
import copy
import itertools

from vf import gen_data, gen_types, harness
from vf.spec import Ann, Ctx, Err, MapT, Ok, Prim, Program, Union_, Unspecified, jtype

PROP = "C02"
SHARDS = {"quick": 8, "thorough": 16}
TIME_CAP = {"quick": 70, "thorough": 900}
REQUIRED = ["coerce_programs", "long_array_rejections", "rejections_compared", "multi_violation_data", "additivity_pairs", "order_checks", "determinism_checks", "multiplicity_checks", "default_message_runs", "programs"]
RULE = ("C01 program space; data = model-valid data with k=1..5 compounded boundary mutations at random paths (so several simultaneous violations), plus atoms; "
        "for union-free programs all single wrong-type replacements at every path and all pairs at independent paths (additivity). "
        "A case = (type signature, options, datum); non-trivial when the rejection carries >= 2 entries or a nested location; distinct by hash.")
ASSUMPTIONS = ["locations/kinds oracle: reference model (vf/spec.py); a non-hashable datum at a Literal/Enum position may be reported as a type or as a oneOf error",
               "additivity (model-free) is evaluated on union-free programs without uniqueness constraints (couplings), value replacements only",
               "error kinds are read from tagged settings.errors messages; a second pass with the default messages compares locations only"]


def loc_kind_set(errors):
    return {(tuple(e["loc"]), harness.err_kind(e["err"])) for e in errors}


def canonical_order(entries):
    """entries: list of (loc tuple, msg). Re-flatten 'own messages first, then children in key order'."""
    own = [e for e in entries if not e[0]]
    groups = {}
    for loc, msg in entries:
        if loc:
            groups.setdefault(loc[0], []).append((loc[1:], msg))
    out = list(own)
    for key in sorted(groups, key=lambda k: (0, k, "") if isinstance(k, int) and not isinstance(k, bool) else (1, 0, str(k))):
        out += [((key, *loc), msg) for loc, msg in canonical_order(groups[key])]
    return out


def reorder(d, rng):
    """same datum with every dict rebuilt in a different insertion order"""
    if type(d) is dict:
        items = list(d.items())
        rng.shuffle(items)
        return {k: reorder(v, rng) for k, v in items}
    if type(d) is list:
        return [reorder(x, rng) for x in d]
    return d


def multiset(errors):
    out = {}
    for e in errors:
        k = (tuple(e["loc"]), e["err"])
        out[k] = out.get(k, 0) + 1
    return out


def compound(v, rng, atoms, k):
    d = v
    for _ in range(k):
        ms = gen_data.mutants(d, rng, atoms, 1)
        if ms:
            d = ms[0]
    return d


def long_list_variants(v, rng, atoms):
    """arrays of >= 12 items with ill-typed items at indices 2 and 10 (index order is numeric, not lexicographic)"""
    out = []
    for p in list(gen_data.paths(v)):
        cur = gen_data.get_at(v, p)
        if type(cur) is list and cur:
            long = [copy.deepcopy(cur[i % len(cur)]) for i in range(12)]
            for i in (2, 10, 11):
                bad = rng.choice(atoms)
                if type(bad) is type(long[i]):
                    bad = {"$bad": 1} if not isinstance(long[i], dict) else "bad"
                long[i] = bad
            try:
                out.append(gen_data.set_at(v, p, long))
            except Exception:
                pass
            if len(out) >= 2:
                break
    return out


def union_free(t):
    return not any(isinstance(n, Union_) for n in t.walk())


def has_unique(prog):
    return "unique=True" in prog.source


def check_program(env, prog, label, ndata):
    from apischema import deserialization_method

    rng = env.rng
    t = prog.t
    sig = t.sig()
    cx = prog.ctx(additional_properties=rng.random() < 0.3, fall_back_on_default=rng.random() < 0.15, aliaser=rng.choice(["identity", "identity", "camel", "custom"]))
    if rng.random() < 0.15:
        cx.coerce = True  # errors must be as complete under coercion (the model knows the coercion table)
        env.count("coerce_programs")
    harness.reset_all()
    kw = harness.options(cx)
    o = harness.call(deserialization_method, prog.T, **kw)
    if o.kind != "ok":
        env.violation({"kind": "compile", "exc": o.exc or "ValidationError"}, {"program": prog.source, "options": repr(kw)})
        return
    method = o.value
    harness.tree_classes(method, env.counters)
    atoms = gen_data.atoms_for(t, cx)
    valid = gen_data.valid_data(t, cx, rng, 4)
    data = []
    for v in valid:
        for k in (1, 2, 3, 5):
            for _ in range(max(1, ndata // 16)):
                data.append(compound(v, rng, atoms, k))
    data += atoms[:: max(1, len(atoms) // 8)]
    for v in valid[:2]:
        data += long_list_variants(v, rng, atoms)
    ufree = union_free(t)
    plain_keys = all(isinstance(n.k, Prim) for n in t.walk() if isinstance(n, MapT))  # key rule and value rule may share loc and message
    optsig = (cx.additional_properties, cx.fall_back_on_default, cx.aliaser, cx.coerce)
    base_wit = {"program": prog.source, "label": label, "options": {"additional_properties": cx.additional_properties, "fall_back_on_default": cx.fall_back_on_default, "aliaser": cx.aliaser, "coerce": cx.coerce}}
    for d in data:
        real = harness.call(method, d)
        if real.kind != "verr":
            continue
        # (c) order + determinism -- model-free
        entries = [(tuple(e["loc"]), e["err"]) for e in real.errors]
        env.count("order_checks")
        if any(isinstance(k, int) and k >= 10 for loc, _ in entries for k in loc):
            env.count("long_array_rejections")
        if canonical_order(entries) != entries:
            env.violation({"kind": "order"}, {**base_wit, "datum": d, "errors": real.errors, "canonical": canonical_order(entries)})
        d2 = reorder(copy.deepcopy(d), rng)
        real2 = harness.call(method, d2)
        env.count("determinism_checks")
        if real2.kind != "verr" or real2.errors != real.errors:
            env.violation({"kind": "nondeterministic"}, {**base_wit, "datum": d, "reordered": d2, "errors": real.errors, "errors2": real2.brief()})
        # (b) model
        try:
            r = t.deser(d, cx)
        except Unspecified as u:
            env.count("unspecified:" + str(u))
            continue
        except RecursionError:
            continue
        if isinstance(r, Ok):
            continue  # verdict disagreement is C01's
        env.count("rejections_compared")
        if len(r.errs) >= 2:
            env.count("multi_violation_data")
        env.case(sig, optsig, repr(d), nontrivial=len(real.errors) >= 2 or any(e["loc"] for e in real.errors))
        got = loc_kind_set(real.errors)
        want = {(loc, kind) for loc, kind, _ in r.errs}
        # a non-matching datum at a Literal/Enum position may be reported as oneOf or (unhashable datum) as a type error
        lit_locs = {loc for loc, kind, exp in r.errs if kind == "one_of"}
        got_n = (got - {(loc, "type") for loc in lit_locs if (loc, "type") not in want}) | {(loc, "one_of") for loc in lit_locs if (loc, "type") in got}
        if got_n != want:
            missing = sorted(want - got_n, key=repr)
            extra = sorted(got_n - want, key=repr)
            exp_of = {(loc, kind): exp for loc, kind, exp in r.errs}
            feats = {"kind": "locations",
                     "missing": sorted({f"{k}@{exp_of.get((l, k))}" for l, k in missing})[:3],
                     "extra": sorted({k for _, k in extra})[:3]}
            env.violation(feats, {**base_wit, "datum": d, "model_errors": [(list(l), k) for l, k in sorted(want, key=repr)], "observed": real.errors, "missing": [(list(l), k) for l, k in missing], "extra": [(list(l), k) for l, k in extra]})
        elif ufree and plain_keys:
            env.count("multiplicity_checks")
            ms = {}
            for e in real.errors:
                k = (tuple(e["loc"]), e["err"])
                ms[k] = ms.get(k, 0) + 1
            dup = [(k[0], harness.err_kind(k[1])) for k, n in ms.items() if n > 1]
            if dup:
                env.violation({"kind": "duplicate-entry", "err_kind": dup[0][1]}, {**base_wit, "datum": d, "observed": real.errors})
    # (a) additivity on union-free programs without uniqueness couplings
    if ufree and not has_unique(prog) and not cx.fall_back_on_default:
        for v in valid[:2]:
            if harness.call(method, v).kind != "ok":
                continue
            ps = [p for p in gen_data.paths(v) if p]
            rng.shuffle(ps)
            singles = []
            for p in ps[:10]:
                cur = gen_data.get_at(v, p)
                for a in rng.sample(atoms, min(3, len(atoms))):
                    if jtype(a) == jtype(cur):
                        continue
                    m = gen_data.set_at(v, p, a)
                    rm = harness.call(method, m)
                    if rm.kind == "verr":
                        singles.append((p, a, multiset(rm.errors)))
                        break
            for (p1, a1, e1), (p2, a2, e2) in itertools.combinations(singles, 2):
                n = min(len(p1), len(p2))
                if p1[:n] == p2[:n]:
                    continue  # one is a prefix of the other: not independent
                both = gen_data.set_at(gen_data.set_at(v, p1, a1), p2, a2)
                rb = harness.call(method, both)
                env.count("additivity_pairs")
                env.case(sig, optsig, "pair", repr(both))
                expect = dict(e1)
                for k, c in e2.items():
                    expect[k] = max(expect.get(k, 0), c)
                if rb.kind != "verr" or multiset(rb.errors) != expect:
                    env.violation({"kind": "non-additive"}, {**base_wit, "valid": v, "v1": [list(p1), a1], "v2": [list(p2), a2], "errors1": sorted(map(repr, e1)), "errors2": sorted(map(repr, e2)), "errors_both": rb.brief()})
    env.count("programs")


def default_messages_pass(env, prog, label):
    """Same oracle (b) on locations only, with the default (untagged) messages."""
    from apischema import deserialization_method
    rng = env.rng
    cx = prog.ctx()
    harness.tag_errors(False)
    try:
        o = harness.call(deserialization_method, prog.T)
        if o.kind != "ok":
            return
        atoms = gen_data.atoms_for(prog.t, cx)
        for v in gen_data.valid_data(prog.t, cx, rng, 2):
            for k in (1, 3):
                d = compound(v, rng, atoms, k)
                real = harness.call(o.value, d)
                try:
                    r = prog.t.deser(d, cx)
                except (Unspecified, RecursionError):
                    continue
                if real.kind == "verr" and isinstance(r, Err):
                    env.count("default_message_runs")
                    got = {tuple(e["loc"]) for e in real.errors}
                    want = {loc for loc, _, _ in r.errs}
                    if got != want:
                        env.violation({"kind": "locations-default-messages"}, {"program": prog.source, "datum": d, "observed": real.errors, "model_locs": sorted(map(list, want), key=repr)})
    finally:
        harness.tag_errors(True)


def run(env):
    harness.tag_errors(True)
    rng = env.rng
    for i, (label, build) in enumerate(gen_types.directed_shapes()):
        if i % env.nshards != env.shard:
            continue
        prog = Program(build(gen_types.Gen(rng, max_depth=2)))
        try:
            prog.load()
        except Exception:
            env.count("program_load_failed")
            continue
        try:
            for _ in range(3):  # (options are drawn inside: aliaser, additional_properties, coercion)
                check_program(env, prog, "directed:" + label, ndata=32)
            env.count("directed_shape_programs")
        finally:
            prog.unload()
    n = env.n(5000, 100000)
    small = [b for _, b in gen_types.enumerate_small(depth2=False)]
    for j in range(n):
        if env.out_of_time():
            env.notes.append("time cap reached")
            break
        g = gen_types.Gen(rng, max_depth=rng.choice([2, 3, 4]), pattern_overlap=True)
        k = rng.random()
        if k < 0.15:
            t = rng.choice(small)(g)
            if t is None:
                continue
        elif k < 0.45:
            g.feats = set()  # plain objects/containers: many union-free programs for additivity
            t = g.object(0, nfields=rng.choice([2, 3, 4]))
        elif k < 0.7:
            t = g.type(0)
        else:
            t = g.object(0)
        prog = Program(t)
        try:
            prog.load()
        except Exception:
            env.count("program_load_failed")
            continue
        try:
            check_program(env, prog, f"random#{env.shard}.{j}", ndata=32)
            if rng.random() < 0.1:
                default_messages_pass(env, prog, f"random#{env.shard}.{j}")
            if len(env.samples) < 3 and rng.random() < 0.03:
                env.sample({"type": t.ann(), "sig": t.sig()})
        finally:
            prog.unload()


def finish_coverage(cov, counters, tier):
    cov["exhaustive"] = False


def replay(env, rep):
    from vf.replay import generic
    generic(env, rep)
