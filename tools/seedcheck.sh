#!/bin/bash
# tools/seedcheck.sh : every stored seeded change must still apply to the current /repo tree (run after each fix: commit)
t=$(mktemp -d /tmp/seedcheck-XXXX); (cd /repo && git archive HEAD | tar -x -C $t)
bad=0
for d in /verif/seeded/S*; do
  if ! (cd $t && patch -p1 --dry-run -s -i $d/patch.diff >/dev/null 2>&1); then echo "DOES NOT APPLY: $d"; bad=1; fi
done
rm -rf $t; [ $bad = 0 ] && echo "all $(ls -d /verif/seeded/S* | wc -l) seeded changes apply to /repo HEAD"
exit $bad
