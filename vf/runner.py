"""./check driver: shards a check over worker subprocesses, merges what the monitors observed,
classifies witnesses against known_findings.json, writes evidence and replays, sets the exit code.

exit 0: held on everything observed (KNOWN-FINDING lines allowed)
exit 1: VIOLATION property=<id> replay=<path>
exit 2: INCONCLUSIVE (watchdog fired / a deciding monitor was never reached) -- never "held"
exit 3: harness error
"""
import argparse
import importlib
import json
import os
import shutil
import subprocess
import sys
import tempfile
import time
from array import array
from collections import Counter

VERIF = os.path.dirname(os.path.dirname(os.path.abspath(__file__)))
# evidence/ and replays/ are written under /verif unless VERIF_OUT names another directory (used when a check is run against a
# scratch copy of the repository carrying a seeded change: several such runs in parallel, committed evidence left alone)
OUT = os.environ.get("VERIF_OUT") or VERIF


def load_findings():
    path = os.path.join(VERIF, "known_findings.json")
    if not os.path.exists(path):
        return []
    with open(path) as f:
        return json.load(f)["findings"]


def matches(match: dict, features: dict) -> bool:
    for k, want in match.items():
        if k not in features:
            return False
        have = features[k]
        if isinstance(want, list):
            if isinstance(have, list):
                if not set(map(str, have)) <= set(map(str, want)):
                    return False
            elif have not in want:
                return False
        elif have != want:
            return False
    return True


def classify(prop, features, findings):
    for f in findings:
        if f.get("status") != "known" or f["property"] != prop:
            continue
        if matches(f["match"], features):
            return f
    return None


def main(argv=None):
    ap = argparse.ArgumentParser()
    ap.add_argument("prop")
    ap.add_argument("--tier", default=os.environ.get("VERIF_TIER") or "quick", choices=["quick", "thorough"])
    ap.add_argument("--replay")
    ap.add_argument("--shards", type=int)
    ap.add_argument("--seed", type=int)
    ap.add_argument("--keep", action="store_true")
    a = ap.parse_args(argv)
    prop = a.prop.upper()
    seed = a.seed if a.seed is not None else int(os.environ.get("VERIF_SEED") or 0)
    mod = importlib.import_module(f"vf.checks.{prop.lower()}")
    t0 = time.time()
    py = "/venv/bin/python"
    env = dict(os.environ, PYTHONHASHSEED="0", PYTHONDONTWRITEBYTECODE="1")
    env.pop("PYTHONPATH", None)
    env["PYTHONPATH"] = VERIF

    if a.replay:
        r = subprocess.run([py, "-B", "-m", "vf.worker", prop, "replay", str(seed), "0", "1", os.path.abspath(a.replay)], env=env, cwd=VERIF)
        return r.returncode

    import glob
    for old in glob.glob(os.path.join(OUT, "replays", f"{prop}-*.json")):
        os.remove(old)
    nshards = a.shards or int(os.environ.get("VERIF_SHARDS") or 0) or mod.SHARDS[a.tier]
    cap = mod.TIME_CAP[a.tier]
    work = tempfile.mkdtemp(prefix=f"{prop}-", dir=_workdir())
    procs = []
    for s in range(nshards):
        out = os.path.join(work, f"s{s}.json")
        log = open(os.path.join(work, f"s{s}.log"), "w")
        p = subprocess.Popen([py, "-B", "-m", "vf.worker", prop, a.tier, str(seed), str(s), str(nshards), out], env=env, cwd=VERIF, stdout=log, stderr=subprocess.STDOUT)
        procs.append((s, p, out, log))
    hard = cap * 3 + 120
    results, problems = [], []
    for s, p, out, log in procs:
        try:
            rc = p.wait(timeout=max(1, hard - (time.time() - t0)))
        except subprocess.TimeoutExpired:
            p.kill()
            p.wait()
            problems.append(f"shard {s}: watchdog fired after {hard}s (inconclusive)")
            continue
        finally:
            log.close()
        if rc != 0 or not os.path.exists(out):
            tail = open(os.path.join(work, f"s{s}.log")).read()[-3000:]
            problems.append(f"shard {s}: worker exit {rc}\n{tail}")
            continue
        with open(out) as f:
            r = json.load(f)
        arr = array("Q")
        with open(out + ".hashes", "rb") as f:
            arr.frombytes(f.read())
        r["hashes"] = arr
        results.append(r)

    # ---- merge
    evaluations = sum(r["evaluations"] for r in results)
    distinct = set()
    for r in results:
        distinct.update(r["hashes"])
    counters = Counter()
    for r in results:
        counters.update(r["counters"])
    samples = [s for r in results for s in r["samples"]][:8]
    notes = sorted({n for r in results for n in r["notes"]})
    inconclusive = [x for r in results for x in r["inconclusive"]]
    timed_out = sum(1 for r in results if r["timed_out"])
    violations = [v for r in results for v in r["violations"]]
    groups = Counter()
    for r in results:
        groups.update(r["viol_groups"])

    findings = load_findings()
    known_seen, new = {}, []
    for v in violations:
        f = classify(prop, v["features"], findings)
        if f is not None:
            known_seen.setdefault(f["id"], [f, 0])[1] += 1
        else:
            new.append(v)
    # groups whose witnesses were capped still need classification by features
    new_groups = Counter()
    for key, n in groups.items():
        feats = json.loads(key)
        f = classify(prop, feats, findings)
        if f is None:
            new_groups[key] += n
        else:
            known_seen.setdefault(f["id"], [f, 0])
            known_seen[f["id"]][1] = max(known_seen[f["id"]][1], n)

    for fid, (f, n) in sorted(known_seen.items()):
        print(f"KNOWN-FINDING: property={prop} {fid}: {f['what_fails']} ({n} witness(es) this run)")

    rc = 0
    replay_paths = []
    if new:
        rc = 1
        rdir = os.path.join(OUT, "replays")
        os.makedirs(rdir, exist_ok=True)
        seen_keys = set()
        k = 0
        for v in new:
            key = json.dumps(v["features"], sort_keys=True, default=str)
            if key in seen_keys:
                continue
            seen_keys.add(key)
            k += 1
            if k > int(os.environ.get('VERIF_MAX_REPLAYS') or 12):
                break
            path = os.path.join("replays", f"{prop}-{k}.json")
            with open(os.path.join(OUT, path), "w") as f:
                json.dump({"property": prop, "seed": seed, "tier": a.tier, "features": v["features"], "witness": v["witness"], "count_in_run": new_groups.get(key, 1)}, f, indent=1, default=str)
            replay_paths.append(path)
            print(f"VIOLATION property={prop} replay={path}")
            print(f"  features: {key[:400]}")
    required = getattr(mod, "REQUIRED", [])
    missing = [c for c in required if counters.get(c, 0) == 0]
    if problems or missing or inconclusive:
        for p_ in problems:
            print(f"INCONCLUSIVE property={prop} reason={p_}")
        for m in missing:
            print(f"INCONCLUSIVE property={prop} reason=deciding monitor/counter '{m}' was never reached")
        for m in inconclusive[:5]:
            print(f"INCONCLUSIVE property={prop} reason={m}")
        if rc == 0:
            rc = 2 if not any("worker exit" in p_ for p_ in problems) else 3

    wall = round(time.time() - t0, 2)
    cov = {
        "evaluations": evaluations,
        "distinct_nontrivial": len(distinct),
        "rule": mod.RULE,
        "samples": samples,
        "shards": nshards,
        "shards_stopped_by_time_cap": timed_out,
        "counters": dict(sorted(counters.items())),
        "known_findings_seen": {k: v[1] for k, v in sorted(known_seen.items())},
        "new_violation_groups": len(new_groups),
        "notes": notes,
    }
    soft = [c for c in getattr(mod, "EXPECTED_NODES", []) if counters.get(c, 0) == 0]
    if soft:
        cov["coverage_gaps"] = soft  # informational: method-tree node classes never compiled in this run
    if hasattr(mod, "finish_coverage"):
        mod.finish_coverage(cov, counters, a.tier)
    ev = {
        "property_id": prop,
        "tier": a.tier,
        "seed": seed,
        "level": getattr(mod, "LEVEL", "exploration"),
        "coverage": cov,
        "assumptions": getattr(mod, "ASSUMPTIONS", []),
        "wall_s": wall,
        "violations": len(new_groups),
        "verdict": {0: "held on what was observed", 1: "violated", 2: "inconclusive", 3: "harness error"}[rc],
    }
    os.makedirs(os.path.join(OUT, "evidence"), exist_ok=True)
    with open(os.path.join(OUT, "evidence", f"{prop}.json"), "w") as f:
        json.dump(ev, f, indent=1, default=str)
    print(f"{prop} tier={a.tier} seed={seed}: {ev['verdict']}; evaluations={evaluations} distinct_nontrivial={len(distinct)} known={len(known_seen)} new_groups={len(new_groups)} wall={wall}s")
    if not a.keep:
        shutil.rmtree(work, ignore_errors=True)
    return rc


def _workdir():
    d = os.path.join(VERIF, ".work")
    os.makedirs(d, exist_ok=True)
    return d


if __name__ == "__main__":
    try:
        code = main()
    except SystemExit:
        raise
    except BaseException:  # a crash of the machinery itself is neither "held" nor a violation
        import traceback
        traceback.print_exc()
        print("HARNESS ERROR: the check could not run (exit 3)")
        code = 3
    sys.exit(code)
