#!/bin/bash
# tools/sweep.sh "<seeds>" <checks...> : quick tier of each check for each seed on the unchanged tree; one summary line per run
cd /verif
seeds=$1; shift
for c in "$@"; do for s in $seeds; do
  out=$(VERIF_SEED=$s ./check $c --tier quick 2>&1)
  echo "$c seed=$s exit=$? $(echo "$out" | grep -c '^VIOLATION') viol | $(echo "$out" | tail -1 | cut -c1-150)"
  echo "$out" | grep -A1 '^VIOLATION' | grep features | head -3
done; done
