"""C20 helper: the mutants / refactorings of the mutation self-test (docs/reports/C20.md section 5), as small patch scripts.

Each script edits files relative to the current directory and asserts that it changed something.  Baseline: a tree that
contains the fixes ab1b3b8 and ceeffd5.  Usage (never on /repo itself):

    rm -rf /tmp/x && cp -r /repo /tmp/x && cd /tmp/x && /venv/bin/python -m vf.c20_mutants m1_remove_lock   # PYTHONPATH=/verif
    /venv/bin/python -m pytest -q -p no:cacheprovider -x -q && cd /verif && VERIF_REPO=/tmp/x ./check C20 --tier quick

m* must give exit 1 (m5, m6: thorough tier only), r* must stay silent.
"""
import sys

SCRIPTS = {'m10_stale_dict': '# M10: the re-fetch of the kept dictionary under the lock is dropped again (= the second pre-existing defect)\n'
                   "p='apischema/recursion.py'\n"
                   's=open(p).read(); s0=s\n'
                   's=s.replace("            cache = recursion_cache(checker_cls)\\n            if rec_key not in cache:  # may","            if rec_key not '
                   'in cache:  # may")\n'
                   "assert s != s0, 'mutation did not apply'\n"
                   "open(p,'w').write(s)\n",
 'm1_remove_lock': '# M1: the lock is removed again (= the pre-existing defect)\n'
                   "p='apischema/recursion.py'\n"
                   's=open(p).read(); s0=s\n'
                   "s=s.replace('''        with _analysis_lock:\n"
                   '            # two threads calling recursion_cache for the first time at once (lru_cache\n'
                   '            # miss in both) get two different dicts and only one is kept: use the kept one\n'
                   '            cache = recursion_cache(checker_cls)\n'
                   '            if rec_key not in cache:  # may have been filled while waiting\n'
                   "                checker_cls(default_conversion).visit_with_conv(tp, conversion)''','''        "
                   "checker_cls(default_conversion).visit_with_conv(tp, conversion)''')\n"
                   "assert s != s0, 'mutation did not apply'\n"
                   "open(p,'w').write(s)\n",
 'm2_lock_per_call': '# M2: a new lock object per call (classic mistake): no mutual exclusion at all\n'
                     "p='apischema/recursion.py'\n"
                     's=open(p).read(); s0=s\n'
                     'assert "with _analysis_lock:" in s\n'
                     's=s.replace("with _analysis_lock:","with threading.RLock():")\n'
                     "assert s != s0, 'mutation did not apply'\n"
                     "open(p,'w').write(s)\n",
 'm3_narrow_lock': '# M3: lock narrowed to the traversal inside RecursiveChecker.visit; the cache writes of the outermost key happen after release\n'
                   "p='apischema/recursion.py'\n"
                   's=open(p).read(); s0=s\n'
                   "s=s.replace('''        with _analysis_lock:\n"
                   '            # two threads calling recursion_cache for the first time at once (lru_cache\n'
                   '            # miss in both) get two different dicts and only one is kept: use the kept one\n'
                   '            cache = recursion_cache(checker_cls)\n'
                   '            if rec_key not in cache:  # may have been filled while waiting\n'
                   "                checker_cls(default_conversion).visit_with_conv(tp, conversion)''','''        "
                   "checker_cls(default_conversion).visit_with_conv(tp, conversion)''')\n"
                   "s=s.replace('''            try:\n"
                   '                super().visit(tp)\n'
                   '            finally:\n'
                   '                self._guard.pop()\n'
                   "                self._guard_indices.pop(rec_key)''','''            try:\n"
                   '                with _analysis_lock:\n'
                   '                    super().visit(tp)\n'
                   '            finally:\n'
                   '                self._guard.pop()\n'
                   "                self._guard_indices.pop(rec_key)''')\n"
                   "s=s.replace('''class RecursiveChecker(ConversionsVisitor[Conv, Any], ObjectVisitor[Any]):''','''_analysis_lock = threading.RLock()\n"
                   '\n'
                   '\n'
                   "class RecursiveChecker(ConversionsVisitor[Conv, Any], ObjectVisitor[Any]):''')\n"
                   "assert s != s0, 'mutation did not apply'\n"
                   "open(p,'w').write(s)\n",
 'm4_recmethod_global': '# M4: RecMethod (deserialization) resolves its lazy through a module-level "current" slot: under a race the method is\n'
                        '# stored on the wrong RecMethod\n'
                        "p='apischema/deserialization/methods.py'\n"
                        's=open(p).read(); s0=s\n'
                        "s=s.replace('''    def deserialize(self, data: Any) -> Any:\n"
                        '        if self.method is None:\n'
                        '            self.method = self.lazy()\n'
                        "        return self.method.deserialize(data)''','''    def deserialize(self, data: Any) -> Any:\n"
                        '        global _resolving\n'
                        '        if self.method is None:\n'
                        '            _resolving = self\n'
                        '            method = self.lazy()\n'
                        '            _resolving.method = method\n'
                        '            return method.deserialize(data)\n'
                        "        return self.method.deserialize(data)''')\n"
                        "s=s.replace('''@dataclass\n"
                        "class RecMethod(DeserializationMethod):''','''_resolving: Any = None\n"
                        '\n'
                        '\n'
                        '@dataclass\n'
                        "class RecMethod(DeserializationMethod):''')\n"
                        "assert s != s0, 'mutation did not apply'\n"
                        "open(p,'w').write(s)\n",
 'm5_validators_memo': '# M5: get_validators memoised with a non-atomic check-then-set (slot reserved before it is filled)\n'
                       "p='apischema/validation/validators.py'\n"
                       's=open(p).read(); s0=s\n'
                       's=s.replace(\'\'\'def get_validators(tp: AnyType) -> Sequence["Validator"]:\n'
                       '    return list(\n'
                       '        chain.from_iterable(_validators[cls] for cls in getattr(tp, "__mro__", [tp]))\n'
                       "    )''','''_validators_memo: dict = {}\n"
                       '_registrations = [0]\n'
                       '\n'
                       '\n'
                       'def get_validators(tp: AnyType) -> Sequence["Validator"]:\n'
                       '    key = (tp, _registrations[0])\n'
                       '    if key not in _validators_memo:\n'
                       '        result = _validators_memo[key] = []\n'
                       '        for cls in getattr(tp, "__mro__", [tp]):\n'
                       '            result.extend(_validators[cls])\n'
                       "    return list(_validators_memo[key])''')\n"
                       "s=s.replace('        _validators[owner].append(self)','        _validators[owner].append(self)\\n        _registrations[0] += 1')\n"
                       "assert s != s0, 'mutation did not apply'\n"
                       "open(p,'w').write(s)\n",
 'm6_lazyconv_reserve': '# M6: LazyConversion memo written by hand "to call the user\'s getter only once": the cell is reserved before the getter ran\n'
                        "p='apischema/conversions/conversions.py'\n"
                        's=open(p).read(); s0=s\n'
                        "s=s.replace('''    def __post_init__(self):\n"
                        '        object.__setattr__(self, "get", lru_cache(1)(self.get))\'\'\',\'\'\'    def __post_init__(self):\n'
                        '        getter, cell = self.get, []\n'
                        '\n'
                        '        def get():\n'
                        '            if not cell:\n'
                        '                cell.append(None)\n'
                        '                cell[0] = getter()\n'
                        '            return cell[0]\n'
                        '\n'
                        '        object.__setattr__(self, "get", get)\'\'\')\n'
                        "assert s != s0, 'mutation did not apply'\n"
                        "open(p,'w').write(s)\n",
 'm7_ser_factory_dict': '# M7: the per-configuration lru_cache of serialization methods replaced by a hand-written dict that publishes a\n'
                        '# placeholder before the method is built\n'
                        "p='apischema/serialization/__init__.py'\n"
                        's=open(p).read(); s0=s\n'
                        "old='''    @lru_cache()\n"
                        '    def factory(tp: AnyType) -> SerializationMethod:\n'
                        "        return SerializationMethodVisitor('''\n"
                        'assert old in s\n'
                        "s=s.replace(old,'''    methods: dict = {}\n"
                        '\n'
                        '    def factory(tp: AnyType) -> SerializationMethod:\n'
                        '        if tp in methods:\n'
                        '            return methods[tp]\n'
                        '        built: list = []\n'
                        '        methods[tp] = RecMethod(lambda: built[0])\n'
                        '        built.append(_build(tp))\n'
                        '        methods[tp] = built[0]\n'
                        '        return built[0]\n'
                        '\n'
                        '    def _build(tp: AnyType) -> SerializationMethod:\n'
                        "        return SerializationMethodVisitor(''')\n"
                        "assert s != s0, 'mutation did not apply'\n"
                        "open(p,'w').write(s)\n",
 'm8_shared_visitor_cache': '# M8: the "currently being built" table of RecursiveConversionsVisitor becomes shared by all visitors of a class (class '
                            'attribute)\n'
                            "p='apischema/recursion.py'\n"
                            's=open(p).read(); s0=s\n'
                            "old='''        super().__init__(default_conversion)\n"
                            '        self._cache: Dict[Tuple[AnyType, Optional[AnyConversion]], Result] = {}\n'
                            "        self._first_visit = True'''\n"
                            'assert old in s\n'
                            "s=s.replace(old,'''        super().__init__(default_conversion)\n"
                            "        self._first_visit = True''')\n"
                            "s=s.replace('''class RecursiveConversionsVisitor(ConversionsVisitor[Conv, Result]):\n"
                            "''','''class RecursiveConversionsVisitor(ConversionsVisitor[Conv, Result]):\n"
                            '    _cache: Dict[Tuple[AnyType, Optional[AnyConversion]], Any] = {}\n'
                            '\n'
                            "''')\n"
                            "assert s != s0, 'mutation did not apply'\n"
                            "open(p,'w').write(s)\n",
 'm9_isrec_default': '# M9: is_recursive answers from the shared dictionary without waiting for a running analysis: absent -> "not recursive"\n'
                     "p='apischema/recursion.py'\n"
                     's=open(p).read(); s0=s\n'
                     "old='''        with _analysis_lock:\n"
                     '            # two threads calling recursion_cache for the first time at once (lru_cache\n'
                     '            # miss in both) get two different dicts and only one is kept: use the kept one\n'
                     '            cache = recursion_cache(checker_cls)\n'
                     '            if rec_key not in cache:  # may have been filled while waiting\n'
                     '                checker_cls(default_conversion).visit_with_conv(tp, conversion)\n'
                     "    return cache[rec_key]'''\n"
                     'assert old in s\n'
                     "s=s.replace(old,'''        if not _analysis_lock.acquire(blocking=False):\n"
                     '            return cache.get(rec_key, False)  # another analysis is running: be optimistic\n'
                     '        try:\n'
                     '            cache = recursion_cache(checker_cls)\n'
                     '            if rec_key not in cache:\n'
                     '                checker_cls(default_conversion).visit_with_conv(tp, conversion)\n'
                     '        finally:\n'
                     '            _analysis_lock.release()\n'
                     "    return cache[rec_key]''')\n"
                     "assert s != s0, 'mutation did not apply'\n"
                     "open(p,'w').write(s)\n",
 'r1_refactor_lock_in_checker': '# R1 (behaviour preserving): private result dict per analysis, merged atomically under the lock, lru size changed\n'
                                "p='apischema/recursion.py'\n"
                                's=open(p).read(); s0=s\n'
                                "old='''        with _analysis_lock:\n"
                                '            # two threads calling recursion_cache for the first time at once (lru_cache\n'
                                '            # miss in both) get two different dicts and only one is kept: use the kept one\n'
                                '            cache = recursion_cache(checker_cls)\n'
                                '            if rec_key not in cache:  # may have been filled while waiting\n'
                                "                checker_cls(default_conversion).visit_with_conv(tp, conversion)'''\n"
                                'assert old in s\n'
                                "s=s.replace(old,'''        _analysis_lock.acquire()\n"
                                '        try:\n'
                                '            cache = recursion_cache(checker_cls)\n'
                                '            if rec_key in cache:\n'
                                '                return cache[rec_key]\n'
                                '            checker = checker_cls(default_conversion)\n'
                                '            checker.visit_with_conv(tp, conversion)\n'
                                '        finally:\n'
                                "            _analysis_lock.release()''')\n"
                                "assert s != s0, 'mutation did not apply'\n"
                                "open(p,'w').write(s)\n"
                                "p='apischema/cache.py'\n"
                                's=open(p).read(); s0=s\n'
                                's=s.replace("cached = cast(Func, lru_cache()(func))","cached = cast(Func, lru_cache(maxsize=256)(func))")\n'
                                "assert s != s0, 'mutation did not apply'\n"
                                "open(p,'w').write(s)\n",
 'r2_refactor_recmethod': '# R2 (behaviour preserving): RecMethod resolves through a local variable; LazyConversion uses a larger lru; statements reordered\n'
                          "p='apischema/deserialization/methods.py'\n"
                          's=open(p).read(); s0=s\n'
                          "s=s.replace('''    def deserialize(self, data: Any) -> Any:\n"
                          '        if self.method is None:\n'
                          '            self.method = self.lazy()\n'
                          "        return self.method.deserialize(data)''','''    def deserialize(self, data: Any) -> Any:\n"
                          '        method = self.method\n'
                          '        if method is None:\n'
                          '            method = self.method = self.lazy()\n'
                          "        return method.deserialize(data)''')\n"
                          "assert s != s0, 'mutation did not apply'\n"
                          "open(p,'w').write(s)\n"
                          "p='apischema/serialization/methods.py'\n"
                          's=open(p).read(); s0=s\n'
                          "s=s.replace('''        if self.method is None:\n"
                          '            self.method = self.lazy()\n'
                          "        return self.method.serialize(obj)''','''        method = self.method\n"
                          '        if method is None:\n'
                          '            self.method = method = self.lazy()\n'
                          "        return method.serialize(obj)''')\n"
                          "assert s != s0, 'mutation did not apply'\n"
                          "open(p,'w').write(s)\n"
                          "p='apischema/conversions/conversions.py'\n"
                          's=open(p).read(); s0=s\n'
                          "s=s.replace('lru_cache(1)(self.get)','lru_cache(maxsize=4)(self.get)')\n"
                          "assert s != s0, 'mutation did not apply'\n"
                          "open(p,'w').write(s)\n",
 'r3_refactor_private_dict': '# R3 (behaviour preserving): each analysis works on a private dict (snapshot of the shared one) merged at the end, under the '
                             'lock\n'
                             "p='apischema/recursion.py'\n"
                             's=open(p).read(); s0=s\n'
                             "old='''        with _analysis_lock:\n"
                             '            # two threads calling recursion_cache for the first time at once (lru_cache\n'
                             '            # miss in both) get two different dicts and only one is kept: use the kept one\n'
                             '            cache = recursion_cache(checker_cls)\n'
                             '            if rec_key not in cache:  # may have been filled while waiting\n'
                             "                checker_cls(default_conversion).visit_with_conv(tp, conversion)'''\n"
                             'assert old in s\n'
                             "s=s.replace(old,'''        with _analysis_lock:\n"
                             '            cache = recursion_cache(checker_cls)\n'
                             '            if rec_key not in cache:  # may have been filled while waiting\n'
                             '                checker = checker_cls(default_conversion)\n'
                             '                checker._cache = dict(cache)\n'
                             '                checker.visit_with_conv(tp, conversion)\n'
                             "                cache.update({k: v for k, v in checker._cache.items() if k not in cache})''')\n"
                             "assert s != s0, 'mutation did not apply'\n"
                             "open(p,'w').write(s)\n"}


if __name__ == "__main__":
    if len(sys.argv) != 2 or sys.argv[1] not in SCRIPTS:
        print("usage: python -m vf.c20_mutants <name>; names:", ", ".join(sorted(SCRIPTS)))
        sys.exit(2)
    exec(compile(SCRIPTS[sys.argv[1]], sys.argv[1], "exec"), {"__name__": "__mutant__"})
