"""C16 — field order is one deterministic function of declaration order and order() specs, in every view.

Monitored views of each generated class: list(serialize(T, obj)), deserialization_schema(T)["properties"],
serialization_schema(T)["properties"], the GraphQL object type and the GraphQL input type built by graphql_schema.
Oracles (vf/c16_model.py): the declarative constraints (i) permutation of the elements present in the view,
(ii) valued elements sorted by (order value, declaration; methods after fields), (iii) after/before adjacency up to
transitively attached elements, and pairwise agreement of the views on their common elements ((iv): sibling order).
Hook monitor H1: every call of ordering.sort_by_order returns a permutation of its input.
"""
import itertools
import json
import time
from collections import Counter

from vf import c16_model as M
from vf import harness

PROP = "C16"
SHARDS = {"quick": 16, "thorough": 16}
TIME_CAP = {"quick": 600, "thorough": 2700}   # wall-clock guard only (loaded machines); the budgets are counts
CPU_CAP = {"quick": 150, "thorough": 900}      # CPU seconds per worker (nominal: ~20 s quick, ~200 s thorough)
REQUIRED = ["programs", "view:serialize", "view:deserialization_schema", "view:serialization_schema", "view:graphql_output", "view:graphql_input",
            "agreement_checks", "form:field-metadata", "form:class-mapping", "form:class-mapping-partial", "form:class-sequence", "form:inheritance",
            "form:inheritance-override", "form:inheritance-base-mapping", "form:resolver-serialized", "programs_with_chain", "programs_with_before_of_attached", "programs_n5",
            "programs_with_absent_target", "programs_presence_variant", "programs_alias", "programs_object_refs", "illformed:cycle", "illformed_programs_observed", "nontrivial_permutations"]
RULE = ("classes with n fields + @serialized/@resolver methods (n <= 4 exhaustive over the splits fields/methods; n = 5 sampled), each element with no order, order(v) v in {-1,0,1,999}, "
        "order(after=x) or order(before=x) for any other element x (chains included; cycles, self references and unknown targets have no specified position: only -- nothing lost, nothing duplicated, same permutation in every view -- is checked on them); the same effective ordering expressed as field metadata, "
        "as a class-level mapping overriding decoy metadata (full / one element), as a class-level sequence, and across a base/sub class pair (field metadata, base mapping inherited, "
        "sub mapping overriding base mapping); variants with a field skipped in one direction / init=False, aliased fields, targets given as Field objects. "
        "A case = (program, view); non-trivial when the expected sequence differs from declaration order or an attachment is present; distinct by hash.")
ASSUMPTIONS = [
    "relative order of several elements attached on the same side of the same target is not fixed by the statement: only required to be the same in all views",
    "an element whose after/before chain reaches an element absent from a view (method seen from a deserialization view, skipped field) must be present; its position is unspecified there",
    "serialized methods of a base class count as declared before those of its subclasses (as dataclass fields are)",
    "GraphQL object types show methods registered with @resolver; each method is registered both with @serialized and @resolver with the same order "
    "(form resolver-serialized: once, with @resolver(order=.., serialized=True))",
    "ill-formed specs (cycles, self reference, unknown targets): positions unspecified; loss / duplication / disagreement between views still checked; a refusal (exception) is accepted",
]
VALUES = (-1, 0, 1, 999)
RS_FEATS = {"kind": "method-order-ignored", "cause": "resolver-serialized-order-not-forwarded"}

# ------------------------------------------------------------------------------------------------ H1 hook

_h1_events = []
_h1_installed = [False]


def install_h1(env):
    """rebinding sweep: wrap ordering.sort_by_order wherever a loaded apischema module holds it"""
    import sys

    import apischema.graphql.schema  # noqa: F401  (modules that bind sort_by_order by name must be loaded before the sweep)
    import apischema.json_schema.schema  # noqa: F401
    import apischema.ordering as ordering
    import apischema.serialization  # noqa: F401

    if _h1_installed[0]:
        return
    orig = getattr(ordering, "sort_by_order", None)
    if orig is None:
        return

    def monitored(cls, elts, name, order):
        elts = list(elts)
        res = orig(cls, elts, name, order)
        try:
            _h1_events.append(([name(e) for e in elts], [name(e) for e in res]))
        except Exception:
            pass
        return res

    for modname, mod in list(sys.modules.items()):
        if modname.startswith("apischema") and mod is not None:
            for attr, v in list(vars(mod).items()):
                if v is orig:
                    setattr(mod, attr, monitored)
    _h1_installed[0] = True


# ------------------------------------------------------------------------------------------------ program construction


def elt_names(k, m):
    return [f"f{i}" for i in range(k)], [f"m{i}" for i in range(m)]


def options(e, names):
    out = [None] + [["v", v] for v in VALUES]
    for x in names:
        if x != e:
            out.append(["after", x])
            out.append(["before", x])
    return out


def decoy(spec, e, names):
    """a field-level spec different from `spec` (to be overridden at class level)"""
    others = [x for x in names if x != e]
    cands = [["v", 999], ["v", -1]] + ([["before", others[-1]], ["after", others[0]]] if others else [])
    for c in cands:
        if c != spec:
            return c


def base_prog(fields, methods, meta, form, **kw):
    elements = {e: {"kind": "field", "meta": meta.get(e), "present": "both", "alias": None} for e in fields}
    elements.update({e: {"kind": "method", "meta": meta.get(e)} for e in methods})
    return {"classes": [{"name": "C", "fields": list(fields), "methods": list(methods), "class_order": None}], "elements": elements, "ref_style": "string", "form": form, **kw}


def as_mapping(prog_eff, fields, methods, partial=None):
    """same effective ordering through a class-level mapping; field-level metadata = decoys"""
    names = fields + methods
    if partial is None:
        meta = {e: decoy(prog_eff[e], e, names) for e in names}
        mp = {e: (prog_eff[e] if prog_eff[e] is not None else ["v", 0]) for e in names}
        p = base_prog(fields, methods, meta, "class-mapping")
    else:
        e = partial
        meta = dict(prog_eff)
        meta[e] = decoy(prog_eff[e], e, names)
        mp = {e: prog_eff[e] if prog_eff[e] is not None else ["v", 0]}
        p = base_prog(fields, methods, meta, "class-mapping-partial")
    p["classes"][0]["class_order"] = {"map": mp}
    return p


def as_inheritance(eff, fields, methods, j, variant, methods_in_base=False):
    """fields[:j] in the base class, the rest in the sub class"""
    names = fields + methods
    bf, sf = fields[:j], fields[j:]
    if isinstance(methods_in_base, bool):
        bm, sm = (methods, []) if methods_in_base else ([], methods)
    else:  # number of methods declared in the base class, the others in the sub class
        bm, sm = methods[:methods_in_base], methods[methods_in_base:]
    meta = dict(eff)
    base_co = sub_co = None
    form = "inheritance"
    if variant == "override":  # base mapping = decoys, sub mapping = the real thing, metadata real
        base_co = {"map": {e: decoy(eff[e], e, names) for e in bf + bm}}
        sub_co = {"map": {e: (eff[e] if eff[e] is not None else ["v", 0]) for e in names}}
        form = "inheritance-override"
    elif variant == "base-mapping":  # base mapping real for its own elements, metadata of those = decoys
        base_co = {"map": {e: (eff[e] if eff[e] is not None else ["v", 0]) for e in bf + bm}}
        for e in bf + bm:
            meta[e] = decoy(eff[e], e, names)
        form = "inheritance-base-mapping"
    elements = {e: {"kind": "field", "meta": meta.get(e), "present": "both", "alias": None} for e in fields}
    elements.update({e: {"kind": "method", "meta": meta.get(e)} for e in methods})
    return {"classes": [{"name": "B", "fields": bf, "methods": bm, "class_order": base_co}, {"name": "C", "fields": sf, "methods": sm, "class_order": sub_co}],
            "elements": elements, "ref_style": "string", "form": form}


def enum_specs(names):
    return itertools.product(*[options(e, names) for e in names])


def splits(n):
    return [(k, n - k) for k in range(n, 0, -1)]


# ------------------------------------------------------------------------------------------------ observation

_uid = [0]


class Loaded:
    def __init__(self, prog):
        import linecache
        import sys
        import types

        _uid[0] += 1
        self.uid = f"{_uid[0]}"
        self.source = M.source(prog, self.uid)
        name = f"vfc16_{self.uid}"
        mod = types.ModuleType(name)
        fn = f"<{name}>"
        mod.__file__ = fn
        linecache.cache[fn] = (len(self.source), None, self.source.splitlines(True), fn)
        sys.modules[name] = mod
        self.modname, self.fn = name, fn
        try:
            exec(compile(self.source, fn, "exec"), mod.__dict__)
        except BaseException:
            self.unload()
            raise
        self.mod = mod
        self.T = mod.T

    def unload(self):
        import linecache
        import sys

        sys.modules.pop(self.modname, None)
        linecache.cache.pop(self.fn, None)


def key_map(prog):
    km = {}
    for e, d in prog["elements"].items():
        km[e] = e
        if d.get("alias"):
            km[d["alias"]] = e
    return km


def observe(prog, ld, want_graphql=True):
    """view -> Outcome whose value is the list of element names"""
    from apischema import serialize
    from apischema.graphql import graphql_schema
    from apischema.json_schema import deserialization_schema, serialization_schema

    km = key_map(prog)
    T = ld.T

    def names(keys):
        return [km.get(k, "?" + str(k)) for k in keys]

    out = {}
    out["serialize"] = harness.call(lambda: names(serialize(T, T())))
    out["deserialization_schema"] = harness.call(lambda: names(deserialization_schema(T).get("properties", {})))
    out["serialization_schema"] = harness.call(lambda: names(serialization_schema(T).get("properties", {})))
    if want_graphql:
        has_input = bool(M.present(prog, "graphql_input"))
        o = harness.call(lambda: graphql_schema(query=[ld.mod.QUERY if has_input else ld.mod.QUERY_NOARG]))
        if o.kind != "ok":
            out["graphql_output"] = o
        else:
            tm = o.value.type_map
            out["graphql_output"] = harness.call(lambda: names(tm[T.__name__].fields))
            if has_input:
                out["graphql_input"] = harness.call(lambda: names(tm[T.__name__ + "Input"].fields))
    return out


def chain_features(prog, eff):
    has_chain = has_before_of_attached = False
    for e, s in eff.items():
        t = M.target(s)
        if t is not None and M.target(eff[t]) is not None:
            has_chain = True
            if s[0] == "before":
                has_before_of_attached = True
    return has_chain, has_before_of_attached


def check_illformed(env, prog, eff, why, want_graphql, label):
    """after/before cycles, self references and unknown targets (a cycle also arises from two legitimate class-level sequences, base
    ["b", "a"] and sub ["a", "b"]): no position is specified, but "ordering never loses or duplicates a field" and "one and the same
    permutation" in every view still are"""
    harness.reset_all()
    del _h1_events[:]
    try:
        ld = Loaded(prog)
    except Exception:
        env.count("illformed_refused_at_definition")  # refusing the specification is a legitimate answer
        return
    try:
        outs = observe(prog, ld, want_graphql)
        env.count("illformed_programs_observed")
        wit = {"program": prog, "source": ld.source, "effective": eff, "label": label, "ill_formed": why}
        observed = {}
        for view, o in outs.items():
            if o.kind != "ok":
                env.count("illformed_refused_in_view")
                continue
            P = M.present(prog, view)
            obs = o.value
            observed[view] = obs
            if Counter(obs) != Counter(P):
                lost = sorted(set(P) - set(obs))
                env.violation({"kind": "element-lost" if lost else "element-duplicated-or-foreign", "view": view, "spec": why}, {**wit, "view": view, "observed": obs, "present": P})
        for a, b in itertools.combinations(observed, 2):
            common = set(observed[a]) & set(observed[b])
            sa, sb = [e for e in observed[a] if e in common], [e for e in observed[b] if e in common]
            # elements attached (transitively) to an element absent from one of the two views float there, as in well-formed programs
            fl = M.floating(eff, M.present(prog, a)) | M.floating(eff, M.present(prog, b))
            sa, sb = [e for e in sa if e not in fl], [e for e in sb if e not in fl]
            if len(set(sa)) == len(sa) and len(set(sb)) == len(sb) and sa != sb and why != "unknown-target":
                env.violation({"kind": "views-disagree", "views": f"{a}/{b}", "spec": why}, {**wit, "observed": observed})
    finally:
        ld.unload()


def check_program(env, prog, want_graphql=True, label=""):
    eff = M.effective(prog)
    why = M.ill_formed(prog, eff)
    if why:
        env.count("illformed:" + why)
        check_illformed(env, prog, eff, why, want_graphql, label)
        return
    harness.reset_all()
    del _h1_events[:]
    try:
        ld = Loaded(prog)
    except Exception as e:
        env.violation({"kind": "exception", "view": "class-definition", "exc": type(e).__name__, "form": prog["form"]},
                      {"program": prog, "source": M.source(prog, "X"), "message": str(e)[:300]})
        return
    try:
        outs = observe(prog, ld, want_graphql)
        env.count("programs")
        env.count("form:" + prog["form"])
        n = len(prog["elements"])
        env.count(f"programs_n{n}")
        hc, hb = chain_features(prog, eff)
        if hc:
            env.count("programs_with_chain")
        if hb:
            env.count("programs_with_before_of_attached")
        if any(d.get("alias") for d in prog["elements"].values()):
            env.count("programs_alias")
        if prog.get("ref_style") == "object":
            env.count("programs_object_refs")
        if any(d.get("present", "both") != "both" for d in prog["elements"].values()):
            env.count("programs_presence_variant")
        wit = {"program": prog, "source": ld.source, "effective": eff, "label": label}
        observed = {}
        explained, maybe = set(), set()
        absent_target = False
        decl = M.decl_order(prog)
        for view, o in outs.items():
            env.count("view:" + view)
            P = M.present(prog, view)
            if M.floating(eff, P):
                absent_target = True
            exp = M.expected_sequence(prog, eff, view)
            nontrivial = exp != [e for e in decl if e in P] or any(M.target(eff[e]) for e in P)
            if nontrivial:
                env.count("nontrivial_permutations")
            env.case(prog["form"], json.dumps(prog["classes"], sort_keys=True), json.dumps(prog["elements"], sort_keys=True), view, nontrivial=nontrivial)
            if o.kind != "ok":
                env.violation({"kind": "exception", "view": view, "exc": o.exc or "ValidationError", "form": prog["form"]}, {**wit, "view": view, "outcome": o.brief()})
                continue
            obs = o.value
            observed[view] = obs
            findings, abst = M.check_view(prog, eff, view, obs)
            if prog.get("method_style") == "resolver-serialized" and view in ("serialize", "serialization_schema"):
                # explanatory defect model: resolver(order=.., serialized=True) registers the serialized method without its order.
                # Attributed only if the observation satisfies the oracle *exactly* under that model.
                eff2 = {e: (None if prog["elements"][e]["kind"] == "method" and not any(e in (c.get("class_order") or {}).get("map", {}) for c in prog["classes"]) else s_) for e, s_ in eff.items()}
                if eff2 != eff and not M.check_view(prog, eff2, view, obs)[0]:
                    if findings:
                        env.violation(dict(RS_FEATS, view=view), {**wit, "view": view, "observed": obs, "expected_one_valid_sequence": exp, "detail": findings[0][1]})
                        explained.add(view)
                        continue
                    maybe.add(view)  # also fine under the real ordering (sibling order): decided by the agreement with the GraphQL view
            for k, v in abst.items():
                env.count("abstain:" + k, v)
            for feats, det in findings:
                env.violation(feats if feats.get("cause") == "target-absent-in-view" else {**feats, "form": prog["form"]}, {**wit, "view": view, "observed": obs, "expected_one_valid_sequence": exp, "detail": det})
        if absent_target:
            env.count("programs_with_absent_target")
        for feats, det in M.check_agreement(prog, eff, observed):
            a, b = feats["views"].split("/")
            if (a in explained | maybe) != (b in explained | maybe):
                for v in (a, b):
                    if v in maybe:  # follows the explanatory defect model and differs from the other world: same finding
                        maybe.discard(v)
                        explained.add(v)
                        env.violation(dict(RS_FEATS, view=v), {**wit, "view": v, "observed": observed, "detail": det})
                continue
            env.violation({**feats, "form": prog["form"]}, {**wit, "observed": observed, "detail": det})
        env.count("agreement_checks", len(observed) * (len(observed) - 1) // 2)
        # H1: every sort_by_order call returned a permutation; a loss must be the known "target absent" mechanism
        for names_in, names_out in _h1_events:
            env.count("h1_sort_by_order_calls")
            if Counter(names_in) != Counter(names_out):
                lost = [e for e in names_in if e not in names_out]
                fl = M.floating(eff, [e for e in names_in if e in eff]) if all(e in eff for e in names_in) else set()
                if lost and set(lost) <= fl and len(names_out) == len(set(names_out)) and set(names_out) <= set(names_in):
                    env.count("h1_loss_explained_by_absent_target")
                else:
                    env.violation({"kind": "hook-sort_by_order-not-a-permutation", "form": prog["form"]}, {**wit, "input": names_in, "output": names_out})
    finally:
        ld.unload()


# ------------------------------------------------------------------------------------------------ workload


def gen_exhaustive(tier_quick, seed, sizes=(1, 2, 3, 4)):
    """yields (prog, want_graphql, weight-class). Deterministic enumeration; sampling decisions depend on the index and the seed only"""
    idx = 0
    for n in sizes:
        for k, m in splits(n):
            fields, methods = elt_names(k, m)
            names = fields + methods
            for combo in enum_specs(names):
                idx += 1
                eff = dict(zip(names, combo))
                small = n <= 3
                # form A: field metadata (quick tier: all of n <= 3, a seed-dependent third of n = 4, GraphQL views on 1/4 of those)
                if small or not tier_quick or (idx + seed) % 3 == 0:
                    yield base_prog(fields, methods, eff, "field-metadata"), (small or not tier_quick or (idx + seed) % 4 == 0), "A"
                if all(s is None for s in combo):
                    continue
                pick = small or not tier_quick or (idx + seed) % 48 == 1
                if not pick:
                    continue
                probe = base_prog(fields, methods, eff, "x")
                if M.ill_formed(probe, eff):
                    continue
                yield as_mapping(eff, fields, methods), True, "B"
                nn = [e for e in names if eff[e] is not None]
                yield as_mapping(eff, fields, methods, partial=nn[idx % len(nn)]), True, "B"
                if k >= 2:
                    js = range(1, k) if small else [1 + idx % (k - 1)]
                    for j in js:
                        variants = ("plain", "override", "base-mapping") if small or not tier_quick else (("plain", "override", "base-mapping")[idx % 3],)
                        for variant in variants:
                            yield as_inheritance(eff, fields, methods, j, variant, methods_in_base=((1 if len(methods) >= 2 and idx % 3 == 1 else idx % 2 == 0) if variant == "plain" else (1 if len(methods) >= 2 and idx % 2 else False))), True, "D"
            # form C: class-level sequence over an ordered subset, free elements range over every option
            for size in range(2, n + 1):
                for seq in itertools.permutations(names, size):
                    overridden = set(seq[1:])
                    free = [e for e in names if e not in overridden]
                    for combo in itertools.product(*[options(e, names) for e in free]):
                        idx += 1
                        if not (n <= 3 or (not tier_quick and (idx + seed) % 2 == 0) or (idx + seed) % 32 == 0):
                            continue
                        meta = dict(zip(free, combo))
                        for e in overridden:
                            meta[e] = decoy(None, e, names) if idx % 2 else None
                        p = base_prog(fields, methods, meta, "class-sequence")
                        p["classes"][0]["class_order"] = {"seq": list(seq)}
                        yield p, True, "C"


def gen_variants(rng, n_programs, sizes=(2, 3, 4)):
    """presence / alias / object-reference variants and n = 5 programs, random"""
    for _ in range(n_programs):
        n = rng.choice(sizes)
        k, m = rng.choice(splits(n))
        fields, methods = elt_names(k, m)
        names = fields + methods
        eff = {e: rng.choice(options(e, names)) if rng.random() < 0.75 else None for e in names}
        form = rng.choice(["A", "A", "B", "Bp", "D", "C"]) if n == 5 else rng.choice(["A", "A", "A", "B", "D"])
        if form == "B":
            p = as_mapping(eff, fields, methods)
        elif form == "Bp" and any(s is not None for s in eff.values()):
            p = as_mapping(eff, fields, methods, partial=rng.choice([e for e in names if eff[e] is not None]))
        elif form == "D" and k >= 2:
            p = as_inheritance(eff, fields, methods, rng.randint(1, k - 1), rng.choice(["plain", "override", "base-mapping"]), methods_in_base=(rng.randint(1, len(methods) - 1) if len(methods) >= 2 and rng.random() < 0.4 else rng.random() < 0.3))
        elif form == "C":
            seq = rng.sample(names, rng.randint(2, n))
            p = base_prog(fields, methods, eff, "class-sequence")
            p["classes"][0]["class_order"] = {"seq": seq}
        else:
            p = base_prog(fields, methods, eff, "field-metadata")
        if n < 5 or rng.random() < 0.4:
            r = rng.random()
            if r < 0.55 and k >= 2:
                f = rng.choice(fields)
                p["elements"][f]["present"] = rng.choice(["ser", "deser", "readonly", "initvar"])
            if 0.4 < r < 0.8:
                f = rng.choice(fields)
                p["elements"][f]["alias"] = "X" + f
            if r > 0.7 and p["form"] == "field-metadata":
                p["ref_style"] = "object"
        yield p


def gen_resolver_serialized():
    """methods declared once with @resolver(order=.., serialized=True): k fields + 1 method, every spec (n <= 3)"""
    for k in (1, 2):
        fields, methods = elt_names(k, 1)
        names = fields + methods
        for combo in enum_specs(names):
            p = base_prog(fields, methods, dict(zip(names, combo)), "resolver-serialized", method_style="resolver-serialized")
            yield p, True, "R"


def gen_presence_exhaustive():
    """n <= 3, field metadata, exactly one field restricted to one direction (thorough tier)"""
    for n in (2, 3):
        for k, m in splits(n):
            if k < 2:
                continue
            fields, methods = elt_names(k, m)
            names = fields + methods
            for combo in enum_specs(names):
                eff = dict(zip(names, combo))
                for f in fields:
                    for pres in ("ser", "deser", "readonly", "initvar"):
                        p = base_prog(fields, methods, eff, "field-metadata")
                        p["elements"][f]["present"] = pres
                        yield p


def over_budget(env):
    """CPU-time guard (robust against a loaded machine) + the framework's wall-clock guard"""
    return time.process_time() > CPU_CAP[env.tier] or env.out_of_time()


def run_enumeration(env, gen, label, counter_prefix="enumerated:"):
    for i, (prog, want_gql, cls) in enumerate(gen):
        if i % env.nshards != env.shard:
            continue
        if over_budget(env):
            env.notes.append(f"budget guard reached during the exhaustive part ({label})")
            env.count("exhaustive_truncated")
            return False
        check_program(env, prog, want_gql, label=f"{label}#{i}")
        env.count(counter_prefix + cls)
        if len(env.samples) < 2 and i % 4001 == 0:
            env.sample({"form": prog["form"], "classes": prog["classes"], "elements": prog["elements"]})
    return True


def run(env):
    harness.tag_errors(False)
    install_h1(env)
    # 1. n <= 3: exhaustive in every form (both tiers)
    run_enumeration(env, gen_exhaustive(env.quick(), env.seed, sizes=(1, 2, 3)), "enum-n<=3")
    run_enumeration(env, gen_resolver_serialized(), "resolver-serialized")
    # 2. random variants (presence, aliases, Field-object targets) and n = 5
    for j, prog in enumerate(gen_variants(env.rng, env.n(1600, 16000))):
        if over_budget(env):
            env.notes.append("budget guard reached during the random part")
            break
        check_program(env, prog, True, label=f"variant#{env.shard}.{j}")
    for j, prog in enumerate(gen_variants(env.rng, env.n(1600, 16000), sizes=(5,))):
        if over_budget(env):
            env.notes.append("budget guard reached during the n=5 part")
            break
        check_program(env, prog, True, label=f"n5#{env.shard}.{j}")
    # 3. n = 4 (quick: seed-dependent sample; thorough: exhaustive), then the one-direction presence variants
    ok = run_enumeration(env, gen_exhaustive(env.quick(), env.seed, sizes=(4,)), "enum-n=4")
    if not env.quick() and ok:
        run_enumeration(env, ((p, True, "presence") for p in gen_presence_exhaustive()), "presence")


def finish_coverage(cov, counters, tier):
    cov["exhaustive"] = counters.get("exhaustive_truncated", 0) == 0
    if tier == "quick":
        cov["exhaustive_subspace"] = ("every ordering spec over n <= 3 elements (all splits fields/methods) in every form (field metadata, full / one-element class mapping over decoys, "
                                      "class sequences, every base/sub split x 3 inheritance variants) on all five views; n = 4: a seed-dependent third of the field-metadata specs, other forms sampled "
                                      "(the thorough tier is exhaustive for n <= 4)")
    else:
        cov["exhaustive_subspace"] = ("every ordering spec over n <= 4 elements (all splits fields/methods) as field metadata, as full / one-element class-level mapping over decoy metadata, "
                                      "and one base/sub split per spec (n <= 3: every split x {field metadata, sub mapping overriding base mapping, inherited base mapping}) on all five views; "
                                      "class-level sequences: all for n <= 3, half of n = 4; one-direction presence variants: all for n <= 3")


def replay(env, rep):
    w = rep["witness"]
    install_h1(env)
    check_program(env, w["program"], True, label="replay")
    print(json.dumps(rep["features"]))
