"""Worker-side recording API shared by all checks (three-valued verdict discipline)."""
import hashlib
import json
import random
import time
from array import array
from collections import Counter


def h64(*parts) -> int:
    m = hashlib.blake2b(digest_size=8)
    for p in parts:
        m.update(repr(p).encode("utf-8", "backslashreplace"))
        m.update(b"\0")
    return int.from_bytes(m.digest(), "big")


def jsonable(x, depth=0):
    """Best-effort JSON rendering of arbitrary Python data for witnesses (tagged)."""
    if depth > 12:
        return "<deep>"
    if x is None or isinstance(x, (bool, str)) and type(x) in (bool, str):
        return x
    if type(x) is int:
        if abs(x) < 2**63:
            return x
        try:
            return {"$py": "bigint", "v": str(x)}
        except ValueError:  # beyond the interpreter's int -> str digit limit: keep it replayable in hexadecimal
            return {"$py": "bigint", "v": hex(x)}
    if type(x) is float:
        if x != x:
            return {"$py": "nan"}
        if x in (float("inf"), float("-inf")):
            return {"$py": "inf" if x > 0 else "-inf"}
        return x
    if type(x) is list:
        return [jsonable(e, depth + 1) for e in x]
    if type(x) is dict and all(type(k) is str for k in x):
        return {k: jsonable(v, depth + 1) for k, v in x.items()}
    if isinstance(x, dict):
        return {"$py": type(x).__name__, "items": [[jsonable(k, depth + 1), jsonable(v, depth + 1)] for k, v in x.items()]}
    if isinstance(x, (list, tuple, set, frozenset)):
        try:
            elts = sorted(x, key=repr) if isinstance(x, (set, frozenset)) else x
        except Exception:
            elts = list(x)
        return {"$py": type(x).__name__, "v": [jsonable(e, depth + 1) for e in elts]}
    try:
        r = repr(x)
    except Exception as e:  # pragma: no cover
        r = f"<repr failed {type(e).__name__}>"
    return {"$py": type(x).__name__, "repr": r[:300]}


class Env:
    """Per-worker state: PRNG, counters, distinct-case hashes, violations, samples."""

    MAX_VIOLATIONS = 200

    def __init__(self, prop, tier, seed, shard, nshards, time_cap):
        self.prop, self.tier, self.seed, self.shard, self.nshards = prop, tier, seed, shard, nshards
        self.rng = random.Random(h64("seed", prop, seed, shard))
        self.t0 = time.time()
        self.time_cap = time_cap
        self.evaluations = 0
        self.hashes = set()
        self.counters = Counter()
        self.violations = []
        self.viol_groups = Counter()
        self.samples = []
        self.notes = []
        self.inconclusive = []

    # ---- budgets
    def quick(self):
        return self.tier == "quick"

    def n(self, quick, thorough):
        """Total budget for the tier -> this shard's part."""
        total = quick if self.tier == "quick" else thorough
        base, rem = divmod(total, self.nshards)
        return base + (1 if self.shard < rem else 0)

    def out_of_time(self):
        return time.time() - self.t0 > self.time_cap

    # ---- recording
    def count(self, key, n=1):
        self.counters[key] += n

    def case(self, *sig, nontrivial=True):
        """One evaluation of the deciding oracle; sig identifies the case for distinctness."""
        self.evaluations += 1
        if nontrivial:
            self.hashes.add(h64(*sig))

    def sample(self, obj, cap=6):
        if len(self.samples) < cap:
            self.samples.append(jsonable(obj))

    def violation(self, features: dict, witness: dict):
        """features: mechanism-level facts used to match known findings; witness: replay payload."""
        key = json.dumps(features, sort_keys=True, default=str)
        self.viol_groups[key] += 1
        if self.viol_groups[key] <= 3 and len(self.violations) < self.MAX_VIOLATIONS:
            self.violations.append({"features": features, "witness": jsonable(witness)})
        self.count("violations_raw")

    def dump(self, path):
        arr = array("Q", sorted(self.hashes))
        with open(path + ".hashes", "wb") as f:
            arr.tofile(f)
        out = {
            "shard": self.shard,
            "evaluations": self.evaluations,
            "counters": dict(self.counters),
            "violations": self.violations,
            "viol_groups": dict(self.viol_groups),
            "samples": self.samples,
            "notes": self.notes,
            "inconclusive": self.inconclusive,
            "wall_s": round(time.time() - self.t0, 2),
            "timed_out": self.out_of_time(),
        }
        with open(path, "w") as f:
            json.dump(out, f)
