#!/usr/bin/env python3
"""tools/seedeval.py <seed-dir> <change-number> <checks...>
Confirm a seeded change (demo passes on the clean tree / fails with the change, pinned suite passes with it) on a scratch
copy of /repo, then run the given quick checks against that copy (VERIF_REPO). Never touches /repo."""
import os
import shutil
import subprocess
import sys

seed, n, checks = sys.argv[1], sys.argv[2], sys.argv[3:]
seed = os.path.abspath(seed)
src = seed if (os.path.exists(os.path.join(seed, f"change{n}.diff")) or os.path.exists(os.path.join(seed, "patch.diff"))) else os.path.join(seed, "out")
diff, demo = os.path.join(src, f"change{n}.diff"), os.path.join(src, f"demo{n}.py")
if not os.path.exists(diff):
    diff, demo = os.path.join(src, "patch.diff"), os.path.join(src, "demo.py")
scratch = f"/tmp/seedeval-{os.getpid()}"
PY = "/venv/bin/python"


def run(cmd, **kw):
    return subprocess.run(cmd, capture_output=True, text=True, **kw)


try:
    shutil.copytree("/repo", scratch, ignore=shutil.ignore_patterns(".git", "__pycache__", "*.pyc"))
    env = dict(os.environ, PYTHONPATH=scratch, PYTHONDONTWRITEBYTECODE="1")
    r0 = run([PY, demo], env=env, cwd=scratch)
    a = run(["patch", "-p1", "-i", diff], cwd=scratch)
    if a.returncode != 0:
        print("PATCH FAILED", a.stdout[-500:], a.stderr[-300:])
        sys.exit(2)
    r1 = run([PY, demo], env=env, cwd=scratch)
    t = run(f"cd {scratch} && PYTHONPATH={scratch} {PY} -m pytest -q -p no:cacheprovider -x -q 2>&1 | tail -1", shell=True)
    print(f"demo clean: exit {r0.returncode}; demo with change: exit {r1.returncode}; suite: {t.stdout.strip()[-60:]}")
    for c in checks:
        r = run(["/verif/check", c, "--tier", os.environ.get("SEEDEVAL_TIER", "quick")], env=dict(os.environ, VERIF_REPO=scratch, VERIF_OUT=scratch + "-out"), cwd="/verif")
        lines = [l for l in r.stdout.splitlines() if l.startswith(("VIOLATION", "INCONCL", c + " ")) or l.startswith("  features")]
        print(f"{c}: exit {r.returncode} | " + " ; ".join(lines[:4])[:500] + " | " + (lines[-1][:160] if lines else ""))
finally:
    shutil.rmtree(scratch, ignore_errors=True)
    shutil.rmtree(scratch + "-out", ignore_errors=True)
