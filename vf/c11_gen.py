"""C11 workload: enumerated object types whose fields draw names / aliases from a fixed pool, with class aliasers,
override=False exemptions, nested / flattened inner objects, dependent_required, serialized / resolver methods and
validators that yield aliases; plus the two-line oracle for the external name of a field.

A program is a plain JSON dict (replayable):
  {"classes": [cls...], "top": name, "args": [{"name", "alias"}], "op": {"func", "alias"}}
  cls   = {"name", "kind": dataclass|namedtuple|typeddict, "total", "class_aliaser": None|upper|prefix, "fields": [field...],
           "depreq": {name: [names]}, "methods": [{"func", "alias", "how", "id", "arg": {"name","alias"}|None}], "validators": bool}
  field = {"name", "alias": str|None, "override": bool, "required": bool, "role": plain|nested|flat, "inner": cls name|None,
           "meta": field|annotated, "id": int, "feat": label}
"""
import itertools
import keyword
import re

from vf.core import h64

# ---------------------------------------------------------------- aliasers (module-level objects: stable cache keys)


def ca_upper(s):
    return s.upper()


def ca_prefix(s):
    return "p_" + s


CLASS_AL = {"upper": ca_upper, "prefix": ca_prefix}


def dyn_identity(s):
    return s


def dyn_kebab(s):  # custom, JSON only (not a legal GraphQL name); does not commute with upper / prefix
    return "x-" + s.replace("_", "-")


def dyn_sfx(s):  # custom, GraphQL-legal; does not commute with upper
    return s + "_dyn"


def dyn_of(label):
    if label == "camel":
        from apischema.utils import to_camel_case

        return to_camel_case
    return {"identity": dyn_identity, "kebab": dyn_kebab, "sfx": dyn_sfx}[label]


DYNS = ["identity", "camel", "kebab", "sfx"]

# ---------------------------------------------------------------- the oracle (statement: aliaser(class_aliaser(alias or name)),
# override=False exempts the field from the class aliaser only)


def static_name(cls, f):
    base = f["alias"] or f["name"]
    return CLASS_AL[cls["class_aliaser"]](base) if cls["class_aliaser"] and f["override"] else base


def ext(cls, f, dyn):
    return dyn(static_name(cls, f))


def candidates(cls, f, dyn):
    """Named wrong formulas (explanatory defect models) used only to *label* a mismatch, in a fixed priority order."""
    ca = CLASS_AL.get(cls["class_aliaser"]) or (lambda s: s)
    a, n = f["alias"] or f["name"], f["name"]
    return [
        ("dyn(name)", dyn(n)),  # alias and class aliaser ignored (F18)
        ("dyn(alias)", dyn(a)),  # class aliaser skipped
        ("class(alias)", static_name(cls, f)),  # dynamic aliaser skipped
        ("dyn(class(alias)) ignoring override=False", dyn(ca(a))),
        ("class(dyn(alias))", (ca(dyn(a)) if f["override"] else dyn(a))),  # wrong order
        ("dyn(class(name))", dyn(ca(n) if f["override"] else n)),  # alias ignored
        ("alias", a),
        ("name", n),
        ("class(name)", ca(n)),
    ]


def label_observed(observed, cls, f, dyn):
    if observed is None:
        return "absent"
    for lab, v in candidates(cls, f, dyn):
        if v == observed:
            return lab
    return "other"


GQL_NAME = re.compile(r"^[_a-zA-Z][_a-zA-Z0-9]*$")


def gql_legal(name):
    return bool(GQL_NAME.match(name)) and not name.startswith("__")


# ---------------------------------------------------------------- naming pool
# (label, python name, alias, override)
POOL = [
    ("snake", "foo_bar", None, True),
    ("camel-name", "bazQux", None, True),
    ("private", "_priv_x", None, True),
    ("kw-class", "class_", "class", True),
    ("kw-from", "from_", "from", True),
    ("dollar", "ref", "$ref", True),
    ("snake-alias", "snake_two", "alias_snake", True),
    ("camel-alias", "x_camel", "aliasCamel", True),
    ("noover-bare", "no_over", None, False),
    ("noover-alias", "no_over_al", "kept_alias", False),
    ("noover-kw", "kw_no", "import", False),
    ("noover-dollar", "dollar_no", "$id", False),
    ("private-alias", "pub_name", "_private_alias", True),
]
INNER_POOL = [
    ("snake", "in_snake", None, True),
    ("camel-name", "inCamel", None, True),
    ("kw-def", "def_", "def", True),
    ("dollar", "iref", "$defs", True),
    ("snake-alias", "in_two", "in_alias", True),
    ("noover-bare", "in_no", None, False),
    ("noover-alias", "in_no_al", "in_kept", False),
    ("camel-alias", "in_cam", "inAliasCamel", True),
]
KINDS = ["dataclass", "namedtuple", "typeddict"]
CLASS_ALIASERS = [None, "upper", "prefix"]
STRUCTURES = ["flat", "nested", "flattened", "depreq", "methods"]
HOLDER = [("holder-plain", "nest_obj", None, True), ("holder-alias", "nest_obj", "nested_x", True), ("holder-noover", "nest_obj", "keptNest", False)]
ARGS = [("arg_snake", None), ("arg_two", "argAlias"), ("arg_kw", "class"), ("argCamel", None)]


def mk_field(feat, required, fid, meta, role="plain", inner=None):
    lab, name, al, ov = feat
    return {"name": name, "alias": al, "override": ov, "required": required, "role": role, "inner": inner, "meta": meta, "id": fid, "feat": lab}


def make_program(idx, kind, ca, structure, feats, flags, validators=True):
    """Deterministic construction of one program from the enumerated coordinates (idx only varies the secondary choices)."""
    fid = itertools.count(1)
    classes = []
    metas = ["field", "annotated"]
    total = True
    if kind == "typeddict":
        # TypedDict: requiredness is class-wide (total=True / total=False)
        total = bool(flags[0])
        flags = [total] * len(feats)
    if kind == "namedtuple":
        feats = [f for f in feats if not f[1].startswith("_")]
        flags = flags[: len(feats)]
        if not feats:
            return None
    fields = [mk_field(ft, rq, next(fid), metas[(idx + i) % 2] if kind == "dataclass" else "annotated") for i, (ft, rq) in enumerate(zip(feats, flags))]
    depreq, methods = {}, []
    inner_name = None
    if structure in ("nested", "flattened"):
        ikind = KINDS[(idx // 3) % 3] if kind == "dataclass" else kind
        ica = CLASS_ALIASERS[(CLASS_ALIASERS.index(ca) + 1 + idx % 2) % 3]
        ifeats = [INNER_POOL[(idx + j * 3) % len(INNER_POOL)] for j in range(2)]
        if ifeats[0] == ifeats[1]:
            ifeats[1] = INNER_POOL[(idx + 1) % len(INNER_POOL)]
        itotal = True
        iflags = [True, bool(idx % 2)]
        if ikind == "typeddict":
            iflags = [True, True]
        inner_name = f"Inner{idx}"
        ifields = [mk_field(ft, rq, next(fid), metas[(idx + i + 1) % 2] if ikind == "dataclass" else "annotated") for i, (ft, rq) in enumerate(zip(ifeats, iflags))]
        classes.append({"name": inner_name, "kind": ikind, "total": itotal, "class_aliaser": ica, "fields": ifields, "depreq": {}, "methods": [],
                        "validators": validators and ikind == "dataclass", "split_base": ikind == "dataclass" and idx % 4 == 2})
        if structure == "nested":
            holder = HOLDER[idx % len(HOLDER)]
            fields.append(mk_field(holder, total if kind == "typeddict" else True, next(fid), "field" if kind == "dataclass" else "annotated", role="nested", inner=inner_name))
        else:
            fields.append(mk_field(("holder-flat", "flat_in", None, True), total if kind == "typeddict" else True, next(fid), "field" if kind == "dataclass" else "annotated", role="flat", inner=inner_name))
    elif structure == "depreq":
        # dependent_required needs two non-required fields
        if len(fields) < 2:
            fields.append(mk_field(("dep-helper", "dep_helper", "depHelperAlias" if idx % 2 else None, bool(idx % 3)), False, next(fid), fields[0]["meta"]))
        for f in fields:
            f["required"] = False
        if kind == "typeddict":
            total = False
        a, b = (fields[0], fields[1]) if idx % 2 else (fields[1], fields[0])
        depreq = {a["name"]: [b["name"]]}
    elif structure == "methods":
        if kind != "dataclass":
            return None
    if kind == "dataclass" and (structure == "methods" or idx % 2 == 0):
        hows = ["serialized", "resolver-serialized", "serialized-alias", "resolver-serialized-alias"]
        for j in range(2 if structure == "methods" else 1):
            how = hows[(idx // 2 + j * 2 + (j and idx // 4 % 2)) % 4]
            al = None
            if how.endswith("-alias"):
                al = ["meth_alias", "methAlias", "class"][(idx + j) % 3] + ("" if j == 0 else "2")
            arg = None
            if how.startswith("resolver"):
                a = ARGS[(idx + j) % len(ARGS)]
                arg = {"name": a[0], "alias": a[1]}
            methods.append({"func": f"meth_{'one' if j == 0 else 'two'}", "alias": al, "how": how.replace("-alias", ""), "id": next(fid), "arg": arg})
    # required fields first (dataclass / NamedTuple syntax)
    fields.sort(key=lambda f: not f["required"])
    classes.append({"name": f"Outer{idx}", "kind": kind, "total": total, "class_aliaser": ca, "fields": fields, "depreq": depreq, "methods": methods,
                    "validators": validators and kind in ("dataclass", "namedtuple"), "split_base": kind == "dataclass" and idx % 4 == 1})
    args = [ARGS[(idx + k) % len(ARGS)] for k in range(2)]
    op = {"func": f"get_outer_{idx}", "alias": ["opAlias", None, "op_alias_snake"][idx % 3]}
    return {"classes": classes, "top": f"Outer{idx}", "args": [{"name": a, "alias": b} for a, b in args], "op": op,
            "coords": {"kind": kind, "class_aliaser": ca or "none", "structure": structure, "feats": [f[0] for f in feats]}}


def enumerate_programs():
    """The complete enumerated pool: (singles + unordered pairs of naming features) x required/default patterns x kind x
    class aliaser x structure. Yields (index, coords...) lazily; make_program materialises one."""
    tuples = [((a,), (r,)) for a in POOL for r in (True, False)]
    for a, b in itertools.combinations(POOL, 2):
        for flags in ((True, True), (True, False), (False, False)):
            tuples.append(((a, b), flags))
    idx = 0
    for kind in KINDS:
        for ca in CLASS_ALIASERS:
            for structure in STRUCTURES:
                for feats, flags in tuples:
                    yield idx, kind, ca, structure, feats, flags
                    idx += 1


def configs_all():
    """Every way the dynamic aliaser reaches the operation."""
    out = [{"mode": "default", "dyn": "identity", "gql": "camel"}]
    for d in DYNS:
        out.append({"mode": "call", "dyn": d, "gql": d})
    for d in ("camel", "kebab", "sfx"):
        out.append({"mode": "global", "dyn": d, "gql": d})
    out.append({"mode": "camel_case", "dyn": "camel", "gql": "camel"})
    for g, d in (("camel", "sfx"), ("kebab", "camel"), ("sfx", "identity")):
        out.append({"mode": "global+call", "dyn": d, "gql": d, "global": g})
    return out


def random_program(rng, idx):
    """Bigger seeded programs: 3-4 pool fields, mixed structures."""
    kind = rng.choice(KINDS)
    ca = rng.choice(CLASS_ALIASERS)
    structure = rng.choice(STRUCTURES if kind == "dataclass" else STRUCTURES[:4])
    feats = rng.sample(POOL, rng.choice([3, 4]))
    flags = [rng.random() < 0.5 for _ in feats]
    return make_program(idx, kind, ca, structure, tuple(feats), flags, validators=rng.random() < 0.7), (kind, ca, structure)


# ---------------------------------------------------------------- source emission
PRELUDE = """\
from dataclasses import dataclass, field
from typing import Annotated, NamedTuple, Optional, TypedDict
from apischema import ValidationError, alias, dependent_required, schema, serialized, validator
from apischema.graphql import resolver
from apischema.metadata import flatten
from apischema.objects import AliasedStr, get_alias
from vf.c11_gen import CLASS_AL

FIRE = set()
"""


def _meta_parts(f, desc=True, annotated=False):
    parts = []
    if f["alias"] is not None and f["override"]:
        parts.append(f"alias({f['alias']!r})")
    elif f["alias"] is not None:
        # (the `|` form yields a plain dict -- dict.__or__ shadows Metadata.__or__ -- which is unhashable inside Annotated)
        parts.append(f"alias({f['alias']!r}, override=False)" if f["id"] % 2 or annotated else f"alias({f['alias']!r}) | alias(override=False)")
    elif not f["override"]:
        parts.append("alias(override=False)")
    if f["role"] == "flat":
        parts.append("flatten")
    elif desc:
        parts.append(f"schema(description='F{f['id']}')")
    return parts


def value_of(f):
    return 100 + f["id"]


def default_of(f):
    return 1000 + f["id"]


def emit_class(cls, by_name):
    lines = []
    k = cls["kind"]
    split = bool(cls.get("split_base")) and k == "dataclass"
    # split: everything is declared in an undecorated base dataclass, the class aliaser only decorates the (empty) subclass
    if cls["class_aliaser"] and not split:
        lines.append(f"@alias(CLASS_AL[{cls['class_aliaser']!r}])")
    if k == "dataclass":
        lines += ["@dataclass", f"class {cls['name']}{'_B' if split else ''}:"]
    elif k == "namedtuple":
        lines.append(f"class {cls['name']}(NamedTuple):")
    else:
        lines.append(f"class {cls['name']}(TypedDict{'' if cls['total'] else ', total=False'}):")
    for f in cls["fields"]:
        tp = "int" if f["role"] == "plain" else f["inner"]
        parts = _meta_parts(f, annotated=not (k == "dataclass" and f["meta"] == "field"))
        if k == "dataclass" and f["meta"] == "field":
            args = []
            if not f["required"]:
                args.append(f"default={default_of(f)}")
            if parts:
                args.append("metadata=" + " | ".join(parts))
            lines.append(f"    {f['name']}: {tp}" + (f" = field({', '.join(args)})" if args else ""))
        else:
            ann = f"Annotated[{tp}, {', '.join(parts)}]" if parts else tp
            dflt = f" = {default_of(f)}" if (not f["required"] and k != "typeddict") else ""
            lines.append(f"    {f['name']}: {ann}{dflt}")
    plain = [f for f in cls["fields"] if f["role"] != "flat"]
    dep = cls["fields"][0]["name"]
    body = []
    if cls["validators"] and k == "dataclass":
        body += ["    @validator", "    def va(self):", f"        if 'va:{cls['name']}' in FIRE and self.{dep} is not None:"]
        body += _va_body(cls, plain, by_name, "self")
        for j, f in enumerate(plain[:2]):
            how = [f"@validator({f['name']!r})", f"@validator(field={f['name']!r})"][j % 2]
            if f["meta"] == "field" and (not f["required"] or _meta_parts(f)) and f["id"] % 2:
                how = f"@validator({f['name']})"  # the dataclasses.Field object itself
            body += [f"    {how}", f"    def vf_{f['id']}(self):", f"        if 'vf:{f['id']}' in FIRE and self.{f['name']} is not None:",
                     f"            raise ValidationError(['§vf:{f['id']}'])"]
    for m in cls["methods"]:
        deco = "serialized" if m["how"] == "serialized" else "resolver"
        args = []
        if m["alias"]:
            args.append(repr(m["alias"]))
        if deco == "resolver":
            args.append("serialized=True")
            if m["arg"] and m["arg"]["alias"]:
                args.append(f"parameters_metadata={{{m['arg']['name']!r}: alias({m['arg']['alias']!r})}}")
        body.append(f"    @{deco}" + (f"({', '.join(args)})" if args else ""))
        sig = "self" + (f", {m['arg']['name']}: int = 0" if m["arg"] else "")
        body += [f"    def {m['func']}({sig}) -> int:", f"        return {9000 + m['id']}"]
    lines += body
    if split:
        lines += [""] + ([f"@alias(CLASS_AL[{cls['class_aliaser']!r}])"] if cls["class_aliaser"] else []) + ["@dataclass", f"class {cls['name']}({cls['name']}_B):", "    pass"]
    if cls["depreq"]:
        lines.append(f"dependent_required({cls['depreq']!r}, owner={cls['name']})")
    if cls["validators"] and k == "namedtuple":
        lines += [f"@validator(owner={cls['name']})", f"def va_{cls['name']}(self):", f"    if 'va:{cls['name']}' in FIRE and self.{dep} is not None:"]
        lines += [ln[4:] for ln in _va_body(cls, plain, by_name, "self")]
    return "\n".join(lines) + "\n"


def _va_body(cls, plain, by_name, self_):
    body = []
    for f in plain:
        body.append(f"            yield get_alias({self_}).{f['name']}, '§va:{f['id']}'")
        if f["role"] == "nested":
            inner = by_name[f["inner"]]
            for g in inner["fields"]:
                body.append(f"            yield (get_alias({self_}).{f['name']}, get_alias({inner['name']}).{g['name']}), '§vp:{g['id']}'")
    body.append("            yield AliasedStr('raw_key'), '§vs'")
    body.append(f"            yield (AliasedStr('raw_key2'), get_alias({cls['name']}).{plain[0]['name']}), '§vs2'")
    return body


def emit_program(prog):
    by_name = {c["name"]: c for c in prog["classes"]}
    src = PRELUDE + "\n" + "\n".join(emit_class(c, by_name) for c in prog["classes"])
    top = by_name[prog["top"]]
    a0, a1 = prog["args"]
    op = prog["op"]
    out_ok = graphql_output_ok(prog)
    ret = prog["top"] if out_ok else "int"
    src += f"\ndef {op['func']}({a0['name']}: Annotated[int, schema(min=0)] = 0, {a1['name']}: int = 1, inp: Optional[{prog['top']}] = None) -> {ret}:\n"
    src += f"    return make_instance() if {out_ok} else 0\n"
    src += "\ndef make_instance():\n    return " + instance_expr(top, by_name) + "\n"
    src += f"\nT = {prog['top']}\n"
    return src


def graphql_output_ok(prog):
    """TypedDict is documented as unsupported in GraphQL output types."""
    return all(c["kind"] != "typeddict" for c in prog["classes"])


def instance_expr(cls, by_name):
    items = []
    for f in cls["fields"]:
        v = str(value_of(f)) if f["role"] == "plain" else instance_expr(by_name[f["inner"]], by_name)
        items.append((f["name"], v))
    if cls["kind"] == "typeddict":
        return "{" + ", ".join(f"{n!r}: {v}" for n, v in items) + "}"
    return f"{cls['name']}(" + ", ".join(f"{n}={v}" for n, v in items) + ")"


def ill_formed(prog):
    """Python-level well-formedness of the generated source (names must be identifiers, non keywords, unique)."""
    for c in prog["classes"]:
        names = [f["name"] for f in c["fields"]] + [m["func"] for m in c["methods"]]
        if len(set(names)) != len(names) or any(keyword.iskeyword(n) or not n.isidentifier() for n in names):
            return True
    return False


def prog_sig(prog):
    return h64("prog", repr([(c["kind"], c["class_aliaser"], c["total"], [(f["name"], f["alias"], f["override"], f["required"], f["role"], f["meta"]) for f in c["fields"]],
                              sorted(c["depreq"].items()), [(m["func"], m["alias"], m["how"]) for m in c["methods"]], c["validators"]) for c in prog["classes"]]))
