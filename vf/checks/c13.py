"""C13 — union dispatch shortcuts equal try-each-alternative semantics.
Self-referential oracle: the real per-alternative deserialize / serialize is the reference for the union."""
import itertools

from vf import gen_data, gen_types, harness
from vf.spec import AnyT, Ann, Coll, Ctx, F, Lit, MapT, ObjectT, Prim, Program, Tup, Union_, Unspecified, canon, strip

PROP = "C13"
SHARDS = {"quick": 8, "thorough": 16}
TIME_CAP = {"quick": 70, "thorough": 900}
REQUIRED = ["tagged_union_option_cases", "union_serialization_history_checks", "union_accept", "union_reject", "programs", "coerced_cases", "discriminated_accept", "discriminated_reject_tag", "discriminated_serialize", "tagged_union_cases", "same_json_type_pairs", "unsupported_member_unions", "discriminated_families", "discriminated_dispatch_checks_coerce", "discriminated_dispatch_checks_strict", "discriminated_untagged_checks"]
# compiled-tree node classes this workload is expected to reach: reported as coverage gaps when missing, never a verdict
# (a renamed internal class must not turn into an alarm)
EXPECTED_NODES = ["node:UnionByTypeMethod", "node:UnionMethod", "node:OptionalMethod"]
RULE = ("(1) all ordered pairs of the 21 small atoms + depth-1 types as Union alternatives (sliced per shard; thorough: all) and random unions of 2..4 alternatives "
        "(incl. two objects, list vs tuple, int vs float vs bool, str vs Literal/Enum, unsupported members, constraints on the union) x atoms/valid/mutant data, strict and coerce=True; "
        "(2) discriminated unions (Annotated and inherited; default / explicit / partial mappings; alternatives declaring the discriminator field or not; dataclass and TypedDict) "
        "x data with valid / unknown / missing / unhashable tags, + serialization and round trip; (3) TaggedUnion with 0/1/2 tags. "
        "A case = (union signature, mode, datum); distinct by hash; non-trivial unless both the union and every alternative reject at the root.")
ASSUMPTIONS = ["'equal' is Python == on values, NaN-aware, exact class for containers/objects (Union[float, int] given 0 may return 0 or 0.0)",
               "NoneType is generated as the last alternative only (typing cannot express None-first order)",
               "caches reset per program (F21: Union[A,B]/Union[B,A] conflation belongs to C09)"]


def loose(c):
    """canonical image with int/float unified (Python ==), recursively"""
    if isinstance(c, tuple) and len(c) == 2 and c[0] in ("int", "float") and not isinstance(c[1], tuple):
        v = c[1]
        try:
            return ("num", "nan" if v == "nan" else float(v))
        except OverflowError:
            return ("num", v)
    if isinstance(c, tuple):
        return tuple(loose(x) for x in c)
    if isinstance(c, frozenset):
        return frozenset(loose(x) for x in c)
    return c


def mk_union_program(alts, cons=None, opaque_at=None):
    u = Union_(list(alts))
    top = Ann(u, cons) if cons else u
    decls = {}
    top.collect(decls)
    lines = []
    names = []
    for i, a in enumerate(alts):
        ann = a.ann()
        if cons:
            from vf.spec import cons_src
            ann = f"Annotated[{ann}, schema({cons_src(cons)})]"
        lines.append(f"B{i} = {a.ann()}")
        lines.append(f"A{i} = {ann}")
        names.append(f"A{i}")
    extra = "\n".join(lines) + "\n"
    if opaque_at is not None:
        extra += "class Opaque:\n    pass\n"
    prog = Program(top, extra_src=extra)
    if opaque_at is not None:
        # insert an unsupported member in the union annotation
        anns = [a.ann() for a in alts]
        anns.insert(opaque_at, "Opaque")
        uann = f"Union[{', '.join(anns)}]"
        if cons:
            from vf.spec import cons_src
            uann = f"Annotated[{uann}, schema({cons_src(cons)})]"
        prog.source = prog.source.rsplit("\nT = ", 1)[0] + f"\nT = {uann}\n"
    return prog, names


def check_union(env, alts, label, ndata, cons=None, opaque_at=None):
    from apischema import deserialization_method
    from typing import get_args

    rng = env.rng
    prog, names = mk_union_program(alts, cons, opaque_at)
    try:
        prog.load()
    except Exception as e:
        env.count("program_load_failed")
        return
    try:
        T = prog.T
        targs = get_args(T)
        if cons:
            targs = get_args(targs[0])
        real_alts = [a for a in targs if getattr(a, "__name__", "") != "Opaque"]
        if len(real_alts) != len(alts):
            env.count("union_collapsed_by_typing")
            return
        if any(x != getattr(prog.module, f"B{i}") for i, x in enumerate(real_alts)):
            # typing caches Annotated[Union[...], md] by the (order-insensitive) equality of the union: an earlier
            # program with the reversed union makes `T` carry the other order -- not the program we meant to test
            env.count("union_reordered_by_typing_cache")
            return
        if opaque_at is not None:
            env.count("unsupported_member_unions")
        sig = prog.t.sig()
        cx = prog.ctx()
        atoms = gen_data.atoms_for(prog.t, cx)
        valid = gen_data.valid_data(prog.t, cx, rng, 4)
        data = list(atoms) + valid
        for v in valid:
            data += gen_data.mutants(v, rng, atoms, max(2, ndata // 4))
        accepted_values = []
        for coerce in (False, True):
            harness.reset_all()
            kw = {"coerce": True} if coerce else {}
            ou = harness.call(deserialization_method, T, **kw)
            if ou.kind != "ok":
                env.violation({"kind": "compile", "exc": ou.exc or "ValidationError"}, {"program": prog.source, "coerce": coerce, "outcome": ou.brief()})
                continue
            harness.tree_classes(ou.value, env.counters)
            alt_methods = []
            for n in names:
                oa = harness.call(deserialization_method, getattr(prog.module, n), **kw)
                if oa.kind != "ok":
                    env.violation({"kind": "compile-alternative", "exc": oa.exc or "ValidationError"}, {"program": prog.source, "alt": n})
                    alt_methods = None
                    break
                alt_methods.append(oa.value)
            if alt_methods is None:
                continue
            for d in data:
                ru = harness.call(ou.value, d)
                ras = [harness.call(m, d) for m in alt_methods]
                if coerce:
                    env.count("coerced_cases")
                first = next((r for r in ras if r.kind == "ok"), None)
                excs = [r for r in [ru, *ras] if r.kind == "exc"]
                env.case(sig, coerce, repr(d), nontrivial=not (ru.kind == "verr" and all(r.kind == "verr" and all(not e["loc"] for e in r.errors) for r in ras)))
                wit = {"program": prog.source, "label": label, "coerce": coerce, "datum": d, "union": ru.brief(), "alternatives": [r.brief() for r in ras]}
                if excs:
                    env.violation({"kind": "exception", "exc": excs[0].exc, "site": excs[0].site, "coerce": coerce}, wit)
                    continue
                if first is None:
                    if ru.kind == "ok":
                        env.violation({"kind": "union-accepts-no-alternative-does", "coerce": coerce}, wit)
                    else:
                        env.count("union_reject")
                else:
                    if ru.kind != "ok":
                        env.violation({"kind": "union-rejects-an-alternative-accepts", "coerce": coerce}, wit)
                        continue
                    try:
                        cu, cf = canon(ru.value), canon(first.value)
                    except Unspecified:
                        continue
                    if loose(cu) == loose(cf):
                        env.count("union_accept")
                        if not coerce and len(accepted_values) < 12:
                            accepted_values.append(ru.value)
                    else:
                        env.violation({"kind": "not-first-accepting-alternative", "coerce": coerce}, {**wit, "expected_image": repr(cf)[:300], "observed_image": repr(cu)[:300]})
        # serialization selects "the first alternative whose class matches" per value: the outcome for a value must not depend
        # on the values the same compiled method has serialized before (one shared method vs a freshly compiled one per value)
        if accepted_values:
            from apischema import serialization_method
            harness.reset_all()
            osm = harness.call(serialization_method, T)
            if osm.kind == "ok":
                shared = [harness.call(osm.value, v) for v in accepted_values]
                for v, a in zip(accepted_values, shared):
                    harness.reset_all()
                    of = harness.call(serialization_method, T)
                    if of.kind != "ok":
                        break
                    b = harness.call(of.value, v)
                    env.count("union_serialization_history_checks")
                    if a.brief() != b.brief():
                        env.violation({"kind": "union-serialization-depends-on-earlier-values"},
                                      {"program": prog.source, "label": label, "value": harness.safe_repr(v)[:300], "shared_method": a.brief(), "fresh_method": b.brief(),
                                       "earlier_values": [harness.safe_repr(x)[:120] for x in accepted_values]})
                        break
        env.count("programs")
    finally:
        prog.unload()


# ---------------------------------------------------------------- discriminated unions
DISC_TEMPLATE = """
{decorator_base}
{classes}
MAPPING = {mapping_expr}
T = {T}
ALTS = [{alts}]
"""


def disc_program(rng, n):
    """Generate one discriminated-union family as source + the expected mapping computed from the spec."""
    kind = rng.choice(["annotated", "annotated", "inherited", "typeddict"])
    nalt = rng.choice([2, 3])
    alias_name = rng.choice(["type", "kind", "k_t"])
    classes, names, declares, lit_vals, fields_of = [], [], {}, {}, {}
    base = f"Base{n}"
    for i in range(nalt):
        name = f"Alt{n}_{i}"
        names.append(name)
        fl = []
        nf = rng.choice([0, 1, 2])
        for j in range(nf):
            ft = rng.choice(["int", "str", "float", "Optional[int]", "List[int]"])
            dflt = rng.random() < 0.4
            fl.append((f"x{i}{j}", ft, dflt))
        declare = rng.random() < 0.4 or kind == "typeddict"
        declares[name] = declare
        if declare:
            vals = [f"v{i}"] if rng.random() < 0.7 else [f"v{i}", f"w{i}"]
            lit_vals[name] = vals
        fields_of[name] = fl
    for name in names:
        fl = fields_of[name]
        if kind == "typeddict":
            body = [f"    {alias_name}: Literal[{', '.join(map(repr, lit_vals[name]))}]"] + [f"    {fn}: {ft}" for fn, ft, _ in fl]
            classes.append(f"class {name}(TypedDict):\n" + "\n".join(body))
        else:
            req = [(fn, ft) for fn, ft, d in fl if not d]
            opt_ = [(fn, ft) for fn, ft, d in fl if d]
            body = []
            if declares[name]:
                body.append(f"    {alias_name}: Literal[{', '.join(map(repr, lit_vals[name]))}]")
            body += [f"    {fn}: {ft}" for fn, ft in req]
            body += [f"    {fn}: {ft} = {'None' if 'Optional' in ft else ({'int': '0', 'str': repr('d'), 'float': '0.5'}.get(ft) or 'field(default_factory=list)')}" for fn, ft in opt_]
            if not body:
                body = ["    pass"]
            parent = f"({base})" if kind == "inherited" else ""
            classes.append(f"@dataclass\nclass {name}{parent}:\n" + "\n".join(body))
    default_map = {}
    for name in names:
        for key in (lit_vals[name] if declares[name] else [name]):
            default_map[key] = name
    mapping_mode = "default" if kind in ("inherited", "typeddict") else rng.choice(["default", "explicit", "partial"])
    mapping = dict(default_map)
    mapping_expr = "None"
    if mapping_mode != "default":
        chosen = names if mapping_mode == "explicit" else names[:1]
        explicit = {f"m_{c.lower()}": c for c in chosen}
        mapping_expr = "{" + ", ".join(f"{k!r}: {v}" for k, v in explicit.items()) + "}"
        mapping = dict(explicit)
        for k, c in default_map.items():  # override_implicit: implicit keys of explicitly mapped types disappear
            if c not in explicit.values():
                mapping[k] = c
    if kind == "inherited":
        deco = f"@discriminator({alias_name!r})\nclass {base}:\n    pass\n"
        T = rng.choice([base, f"Union[{', '.join(names)}]", f"List[{base}]"])
    else:
        deco = ""
        margs = f", MAPPING" if mapping_mode != "default" else ""
        T = f"Annotated[Union[{', '.join(names)}], discriminator({alias_name!r}{margs})]"
    src = DISC_TEMPLATE.format(decorator_base=deco, classes="\n\n".join(classes), mapping_expr=mapping_expr, T=T, alts=", ".join(names))
    return {"kind": kind, "alias": alias_name, "names": names, "declares": declares, "lit_vals": lit_vals, "fields": fields_of, "mapping": mapping,
            "mapping_mode": mapping_mode, "T": T, "source": src, "listed": T.startswith("List[")}


FIELD_VALID = {"int": [0, 3], "str": ["a", ""], "float": [1.5, 2], "Optional[int]": [None, 4], "List[int]": [[], [1, 2]]}
FIELD_INVALID = {"int": ["a", None, 1.5], "str": [1, None], "float": ["a", None], "Optional[int]": ["a"], "List[int]": [["a"], 1]}


def check_discriminated(env, n):
    from apischema import deserialize, serialize
    from vf.spec import PRELUDE
    import sys, types, linecache

    rng = env.rng
    fam = disc_program(rng, n)
    name = f"vfdisc_{env.shard}_{n}"
    mod = types.ModuleType(name)
    src = PRELUDE + fam["source"]
    fn = f"<{name}>"
    linecache.cache[fn] = (len(src), None, src.splitlines(True), fn)
    sys.modules[name] = mod
    harness.reset_all()
    try:
        try:
            exec(compile(src, fn, "exec"), mod.__dict__)
        except Exception as e:
            env.count("program_load_failed")
            env.notes.append(f"disc load failed: {type(e).__name__}: {e}")
            return
        T, alias_ = mod.T, fam["alias"]
        mapping = fam["mapping"]
        base = {"program": fam["source"], "family": {k: fam[k] for k in ("kind", "mapping_mode", "alias")}}
        for tag, cname in list(mapping.items()) + [("zz_unknown", None), (None, None), (["unhashable"], None), ("$missing", None)]:
            for variant in range(3):
                cls_for = cname or rng.choice(fam["names"])
                fl = fam["fields"][cls_for]
                body = {}
                bad_field = variant == 2 and fl
                for i, (fname, ft, dflt) in enumerate(fl):
                    if dflt and variant == 1:
                        continue
                    body[fname] = rng.choice(FIELD_INVALID[ft]) if (bad_field and i == 0) else rng.choice(FIELD_VALID[ft])
                d = dict(body)
                if tag != "$missing":
                    d[alias_] = tag
                if rng.random() < 0.1:
                    d["zz_extra"] = 1
                datum = [d] if fam["listed"] else d
                ru = harness.call(deserialize, T, datum)
                env.case("disc", fam["kind"], fam["mapping_mode"], repr(tag), variant, repr(sorted(body)))
                wit = {**base, "datum": datum, "observed": ru.brief()}
                if ru.kind == "exc":
                    env.violation({"kind": "exception", "exc": ru.exc, "site": ru.site, "family": fam["kind"]}, wit)
                    continue
                if cname is None:
                    # unknown / missing / unhashable tag => rejection located at the discriminator key
                    env.count("discriminated_reject_tag")
                    if ru.kind == "ok":
                        env.violation({"kind": "bad-tag-accepted", "family": fam["kind"], "tag": "missing" if tag == "$missing" else type(tag).__name__}, wit)
                    else:
                        locs = [tuple(e["loc"]) for e in ru.errors]
                        want = ((0, alias_) if fam["listed"] else (alias_,))
                        if want not in locs:
                            env.violation({"kind": "bad-tag-error-not-at-discriminator", "family": fam["kind"]}, {**wit, "expected_loc": list(want)})
                    continue
                # valid tag: expected = the mapped alternative on d minus the key unless it declares it
                alt = getattr(mod, cname)
                d2 = dict(d)
                if not fam["declares"][cname]:
                    d2.pop(alias_, None)
                ra = harness.call(deserialize, alt, d2)
                if ra.kind == "exc":
                    env.violation({"kind": "exception-alternative", "exc": ra.exc, "site": ra.site}, {**wit, "alternative": ra.brief()})
                    continue
                if ra.kind != ru.kind:
                    env.violation({"kind": "discriminator-dispatch-differs-from-alternative", "family": fam["kind"], "union": ru.kind, "alt": ra.kind, "declares": fam["declares"][cname]}, {**wit, "alternative": cname, "alternative_outcome": ra.brief()})
                    continue
                if ru.kind == "ok":
                    got = ru.value[0] if fam["listed"] else ru.value
                    if canon(got) != canon(ra.value):
                        env.violation({"kind": "discriminated-value-differs", "family": fam["kind"]}, {**wit, "alternative_outcome": ra.brief()})
                        continue
                    env.count("discriminated_accept")
                    # serialization: first alternative whose class matches + discriminator key; round trip
                    if fam["kind"] != "typeddict":
                        value = ru.value
                        su = harness.call(serialize, T, value)
                        sa = harness.call(serialize, alt, got)
                        env.count("discriminated_serialize")
                        if su.kind != "ok" or sa.kind != "ok":
                            bad = su if su.kind != "ok" else sa
                            env.violation({"kind": "serialize-exception", "exc": bad.exc or "ValidationError", "site": bad.site}, {**wit, "serialize": bad.brief()})
                            continue
                        s_got = su.value[0] if fam["listed"] else su.value
                        expect = dict(sa.value)
                        keys = [k for k, c in mapping.items() if c == cname]
                        if alias_ not in expect:
                            if s_got.get(alias_) not in keys:
                                env.violation({"kind": "serialized-discriminator-key-wrong", "family": fam["kind"]}, {**wit, "serialized": su.value, "acceptable_keys": keys})
                                continue
                            expect[alias_] = s_got.get(alias_)
                        if s_got != expect:
                            env.violation({"kind": "union-serialization-differs-from-alternative", "family": fam["kind"]}, {**wit, "serialized": su.value, "expected": expect})
                            continue
                        back = harness.call(deserialize, T, su.value)
                        if back.kind != "ok" or canon(back.value) != canon(value):
                            env.violation({"kind": "discriminated-round-trip", "family": fam["kind"]}, {**wit, "serialized": su.value, "back": back.brief()})
    finally:
        sys.modules.pop(name, None)
        linecache.cache.pop(fn, None)


TAGGED_SRC = """
from apischema.tagged_unions import Tagged, TaggedUnion, get_tagged

@dataclass
class Bar{n}:
    f: str

class TU{n}(TaggedUnion):
    bar: Tagged[Bar{n}]
    i: Tagged[int] = Tagged(alias("baz") | schema(min=0))
    s: Tagged[List[str]]

T = TU{n}
"""


def check_tagged(env, n):
    from apischema import deserialize, serialize
    from apischema.tagged_unions import get_tagged
    from vf.spec import PRELUDE
    import sys, types

    rng = env.rng
    name = f"vftag_{env.shard}_{n}"
    mod = types.ModuleType(name)
    sys.modules[name] = mod
    harness.reset_all()
    try:
        exec(compile(PRELUDE + TAGGED_SRC.format(n=n), f"<{name}>", "exec"), mod.__dict__)
        T = mod.T
        tags = {"bar": ({"f": "a"}, [1, {"f": 1}]), "baz": (3, [-1, "x"]), "s": (["a"], [[1], "a"])}
        names = list(tags)
        cases = [{}] + [{t: tags[t][0]} for t in names] + [{t: rng.choice(tags[t][1])} for t in names]
        cases += [{a: tags[a][0], b: tags[b][0]} for a, b in itertools.combinations(names, 2)] + [{"unknown": 1}, {"i": 3}, {"bar": {"f": "a"}, "unknown": 1}]
        opts = rng.choice([{}, {}, {"fall_back_on_default": True}, {"additional_properties": True}, {"coerce": True}])
        for d in cases:
            r = harness.call(deserialize, T, d, **opts)
            env.count("tagged_union_cases")
            if opts:
                env.count("tagged_union_option_cases")
            env.case("tagged", repr(d), repr(opts))
            if opts.get("additional_properties") and "unknown" in d:
                continue  # an unknown key counts for min/max properties when additional properties are allowed: unspecified
            if opts.get("coerce"):
                # values may be coerced into the tag's type: only "never an exception" and "exactly one known tag" are decided here
                if r.kind == "exc":
                    env.violation({"kind": "exception", "exc": r.exc, "site": r.site, "family": "tagged", "option": next(iter(opts), None)}, {"program": TAGGED_SRC.format(n=n), "datum": d, "options": opts, "observed": r.brief()})
                elif r.kind == "ok" and not (len(d) == 1 and all(t in tags for t in d)):
                    env.violation({"kind": "tagged-union-accepts", "ntags": len(d)}, {"program": TAGGED_SRC.format(n=n), "datum": d, "options": opts, "observed": r.brief()})
                continue
            valid_tags = [t for t in d if t in tags]
            one_valid = len(d) == 1 and len(valid_tags) == 1 and d[valid_tags[0]] == tags[valid_tags[0]][0]
            wit = {"program": TAGGED_SRC.format(n=n), "datum": d, "options": opts, "observed": r.brief()}
            if r.kind == "exc":
                env.violation({"kind": "exception", "exc": r.exc, "site": r.site, "family": "tagged", "option": next(iter(opts), None)}, wit)
            elif one_valid and r.kind != "ok":
                env.violation({"kind": "tagged-union-rejects-single-valid-tag"}, wit)
            elif not one_valid and r.kind == "ok":
                env.violation({"kind": "tagged-union-accepts", "ntags": len(d)}, wit)
            elif r.kind == "ok":
                tag, val = get_tagged(r.value)
                pyname = {"baz": "i"}.get(valid_tags[0], valid_tags[0])
                inner = harness.call(deserialize, {"bar": getattr(mod, f"Bar{n}"), "i": int, "s": __import__("typing").List[str]}[pyname], d[valid_tags[0]], **opts)
                if tag != pyname or inner.kind != "ok" or canon(val) != canon(inner.value):
                    env.violation({"kind": "tagged-union-value"}, {**wit, "tag": tag})
                s = harness.call(serialize, T, r.value)
                if s.kind != "ok" or s.value != d:
                    env.violation({"kind": "tagged-union-round-trip"}, {**wit, "serialized": s.brief()})
    finally:
        sys.modules.pop(name, None)


SAME_JSON = [
    lambda g: [ObjectT("dataclass", g.fresh("D"), [F(g.fresh("f"), Prim("int"))]), ObjectT("dataclass", g.fresh("D"), [F(g.fresh("f"), Prim("str"))])],
    lambda g: [ObjectT("dataclass", g.fresh("D"), [F("a", Prim("int"))]), ObjectT("dataclass", g.fresh("D"), [F("a", Prim("int")), F("b", Prim("int"), default="0")])],
    lambda g: [Coll("list", Prim("int")), Tup([Prim("int"), Prim("int")])],
    lambda g: [Tup([Prim("int"), Prim("str")]), Coll("list", Prim("int"))],
    lambda g: [Prim("int"), Prim("float"), Prim("bool")],
    lambda g: [Prim("float"), Prim("int")],
    lambda g: [Prim("bool"), Prim("float")],
    lambda g: [Prim("str"), Lit(["a", "b"])],
    lambda g: [Lit(["a", "b"]), Prim("str")],
    lambda g: [g.enum(str_only=True), Prim("str")],
    lambda g: [Lit([1, 2]), Prim("int")],
    lambda g: [Ann(Prim("int"), {"min": 5}), Ann(Prim("float"), {"max": 3})],
    lambda g: [Coll("list", Prim("int")), Coll("list", Prim("str"))],
    lambda g: [MapT("dict", Prim("str"), Prim("int")), ObjectT("dataclass", g.fresh("D"), [F("a", Prim("int"))])],
    lambda g: [ObjectT("typeddict", g.fresh("TD"), [F("a", Prim("int"))]), MapT("dict", Prim("str"), Prim("str"))],
    lambda g: [Coll("set", Prim("int")), Coll("list", Prim("int"))],
    lambda g: [AnyT(), Prim("int")],
    lambda g: [Prim("int"), AnyT()],
]


def run(env):
    from vf import disc
    disc.run_family(env, disc.check_c13, env.n(96, 4000))  # discriminated-union families first (their own budget)
    harness.tag_errors(False)
    rng = env.rng
    g = gen_types.Gen(rng)
    # ---- (2) discriminated, (3) tagged
    for j in range(env.n(1600, 20000)):
        if env.out_of_time():
            break
        check_discriminated(env, j)
    for j in range(env.n(16, 64)):
        check_tagged(env, j)
    # ---- (1a) all ordered pairs of small atoms / depth-1 types
    atoms = gen_types.small_atoms()
    pairs = [(a, b) for a in atoms for b in atoms if a[0] != b[0]]
    stride = 2 if env.quick() else 1
    idx = 0
    for i, ((na, ba), (nb, bb)) in enumerate(pairs):
        if i % env.nshards != env.shard:
            continue
        idx += 1
        # (the two-alternative Optional form has its own method: its pairs are never skipped by the quick stride)
        if ((idx + env.seed) % stride and nb != "prim:none") or env.out_of_time():
            continue
        a, b = ba(g), bb(g)
        if isinstance(a, Prim) and a.p == "none":
            continue  # None only last
        if strip(a).sig() == strip(b).sig():
            continue
        check_union(env, [a, b], f"pair({na},{nb})", ndata=16)
    # ---- (1b) same-JSON-type families, every order
    for k, fam in enumerate(SAME_JSON):
        if k % env.nshards != env.shard and env.quick():
            continue
        alts = fam(g)
        for perm in itertools.permutations(alts):
            env.count("same_json_type_pairs")
            check_union(env, list(perm), f"samejson#{k}", ndata=24)
            check_union(env, [*perm, Prim("none")], f"samejson#{k}+none", ndata=16)
        check_union(env, alts, f"samejson#{k}+opaque", ndata=12, opaque_at=rng.randrange(len(alts) + 1))
    # ---- (1c) random unions
    n = env.n(6000, 100000)
    for j in range(n):
        if env.out_of_time():
            env.notes.append("time cap reached")
            break
        g = gen_types.Gen(rng, max_depth=rng.choice([2, 3]))
        u = g.union(0, ())
        cons = None
        if rng.random() < 0.15:
            cons = dict(rng.choice(gen_types.NUM_CONS + [c for c in gen_types.STR_CONS if "pattern" not in c] + gen_types.ARR_CONS))  # (two patterns cannot be merged)
            if any(isinstance(n_, Ann) for a in u.alts for n_ in [a]):
                cons = None
        check_union(env, u.alts, f"random#{env.shard}.{j}", ndata=20, cons=cons, opaque_at=(rng.randrange(len(u.alts)) if rng.random() < 0.08 else None))
    env.sample({"union": "Union[float, Annotated[int, schema(max=5)]]", "datum": 10, "oracle": "first accepting alternative (float) => 10.0"})


def finish_coverage(cov, counters, tier):
    cov["exhaustive"] = False
    cov["exhaustive_subspace"] = "all ordered pairs of the small atoms as 2-alternative unions" if tier == "thorough" else "1/2 slice of the ordered pairs (rotating with VERIF_SEED)"


def replay(env, rep):
    from vf.replay import generic
    generic(env, rep)
