"""Discriminated-union families (tagged unions): a program generator + workload shared by C06 (deserialize vs schema),
C17 (schema well-formedness / references through discriminated parents) and C05 (round trip).

A family is either
  * inherited : `@discriminator(alias)` on a base class (plain class, or a dataclass with its own fields), alternatives
                are its (possibly multi-level) dataclass subclasses, or
  * annotated : `Annotated[Union[A, B, ...], discriminator(alias, mapping?)]` over unrelated dataclasses / TypedDicts,
                where an alternative may carry the tag in a `Literal` field.

The description keeps, per alternative, the tags that select it (computed from the documented rules: Literal values of
the field aliased like the discriminator, else the type name; explicit mapping entries; override_implicit), so that the
workload can aim at the boundaries; the oracles never use apischema's own mapping.
"""
import copy
import json
import sys
import types as pytypes

FIELD_POOL = {
    # type expr -> (valid JSON values, invalid JSON values)
    "int": ([0, 7, -3], ["s", None, 1.5, [], "12"]),
    "str": (["", "x"], [1, None, []]),
    "bool": ([True, False], [0, "t", "true"]),
    "Optional[int]": ([None, 4], ["s", []]),
    "List[int]": ([[], [1, 2]], [["a"], 3, None]),
    "Dict[str, bool]": ([{}, {"k": True}], [{"k": 1}, []]),
    "LEAF": ([{"v": 1}, {}], [{"v": "s"}, 3, None]),
}
ALIASES = ["type", "kind", "pet_type", "$t", "tag"]
PATTERN_SRC = "\n    px: Dict[str, int] = field(default_factory=dict, metadata=properties(pattern=r'^x-'))"
FIELD_NAMES = ["x", "y", "z", "w", "some_field", "v"]


class Alt:
    def __init__(self, name, tags, fields, typed_dict=False, parent=None, tag_field=None, type_name=None):
        self.name, self.tags, self.fields, self.typed_dict, self.parent = name, tags, fields, typed_dict, parent
        self.tag_field = tag_field  # None | ("literal", [values]) | ("str",) : a declared field aliased like the discriminator
        self.type_name = type_name or name


class Family:
    def __init__(self):
        self.form = None
        self.alias = None
        self.alts = []          # selectable alternatives
        self.base = None        # inherited: class name of the base
        self.base_fields = []   # inherited with a dataclass base: [(name, type, default_src|None)]
        self.base_is_dataclass = False
        self.source = ""
        self.entries = []       # [(label, expr, wrap)] wrap: "bare" | "list" | "optional" | "dict" | "holder" | "subset"
        self.subset = None      # names of the alternatives of the "subset" entry
        self.direct = None      # inherited: name of the subclass used as the "direct" entry
        self.n = 0
        self.recursive = False
        self.mapping_kind = "default"
        self.override_implicit = True
        self.features = set()

    def describe(self):
        return {"form": self.form, "alias": self.alias, "alts": [(a.name, a.tags, [f[:2] for f in a.fields]) for a in self.alts],
                "base_fields": [f[:2] for f in self.base_fields], "mapping": self.mapping_kind, "override_implicit": self.override_implicit,
                "features": sorted(self.features)}

    def sig(self):
        return (self.form, len(self.alts), tuple(sorted(self.features)), self.mapping_kind)


def _default_src(tp, rng):
    if tp == "LEAF":
        return None  # required (or default_factory below)
    v = rng.choice(FIELD_POOL[tp][0])
    if isinstance(v, (list, dict)):
        return f"field(default_factory=lambda: {v!r})"
    return repr(v)


def _mk_fields(rng, names, k):
    out = []
    for nm in rng.sample(names, min(k, len(names))):
        tp = rng.choice(list(FIELD_POOL))
        d = _default_src(tp, rng) if rng.random() < 0.6 else None
        out.append((nm, tp, d))
    # dataclass rule: fields without default first
    out.sort(key=lambda f: f[2] is not None)
    return out


def _fields_src(fields, n, required_first=True):
    lines = []
    for nm, tp, d in fields:
        ann = tp.replace("LEAF", f"Leaf{n}")
        lines.append(f"    {nm}: {ann}" + (f" = {d}" if d is not None else ""))
    return "\n".join(lines) if lines else "    pass"


def generate(rng, n):
    """-> Family (source not yet executed)"""
    fam = Family()
    fam.n = n
    fam.form = rng.choice(["inherited", "inherited", "annotated", "annotated", "annotated"])
    fam.alias = rng.choice(ALIASES)
    k = rng.choice([2, 2, 3, 4])
    src = [f"@dataclass\nclass Leaf{n}:\n    v: int = 0\n"]
    names = [f"{c}{n}" for c in "ABCDE"[:k]]
    free_names = [f for f in FIELD_NAMES if f != fam.alias]
    if fam.form == "inherited":
        fam.base = f"Base{n}"
        fam.base_is_dataclass = rng.random() < 0.5
        if fam.base_is_dataclass:
            fam.features.add("dataclass_base")
            bf = _mk_fields(rng, free_names[:2], rng.choice([0, 1, 2]))
            # subclasses add fields after the base ones: base fields must all have defaults unless subclass fields have none
            bf = [(nm, tp, d if d is not None else (_default_src(tp, rng) or f"field(default_factory=Leaf{n})")) for nm, tp, d in bf]
            fam.base_fields = bf
        mapping_src = ""
        fam.mapping_kind = rng.choice(["default", "default", "callable"])
        renamed = {}
        if fam.mapping_kind == "callable":
            fam.features.add("explicit_mapping")
            fam.override_implicit = rng.random() < 0.7
            target = rng.choice(names)
            renamed[target] = [f"tag-{target.lower()}"]
            mapping_src = f", lambda alias, types: {{'tag-{target.lower()}': t for t in types if t.__name__ == '{target}'}}" + ("" if fam.override_implicit else ", override_implicit=False")
        src.append(f"@discriminator({fam.alias!r}{mapping_src})\n" + ("@dataclass\n" if fam.base_is_dataclass else "") + f"class {fam.base}:\n" + (_fields_src(fam.base_fields, n) if fam.base_is_dataclass else "    pass") + "\n")
        recursive_done = False
        for i, nm in enumerate(names):
            parent = fam.base
            if i >= 2 and rng.random() < 0.4:
                parent = names[rng.randrange(0, i)]
                fam.features.add("multi_level")
            inherited_fields = list(fam.base_fields)
            p = parent
            while p != fam.base:
                pa = next(a for a in fam.alts if a.name == p)
                inherited_fields = list(pa.fields)
                break
            own = _mk_fields(rng, [f for f in free_names[2:] if f not in {x[0] for x in inherited_fields}], rng.choice([0, 1, 2]))
            if inherited_fields and any(f[2] is not None for f in inherited_fields):
                own = [(a, b, c if c is not None else (_default_src(b, rng) or f"field(default_factory=Leaf{n})")) for a, b, c in own]
            extra_src = ""
            if not recursive_done and rng.random() < 0.25:
                extra_src = f"\n    children: List['{fam.base}'] = field(default_factory=list)"
                recursive_done = True
                fam.recursive = True
                fam.features.add("recursive")
            tn = None
            deco = ""
            if rng.random() < 0.15:
                tn = f"Renamed{nm}"
                deco = f"@type_name({tn!r})\n"
                fam.features.add("type_name_override")
            pat = not any(f[1] == "PATTERN" for f in inherited_fields) and rng.random() < 0.15
            if pat:  # an aggregate field: the alternative goes through the general object method, the tag is still not "unexpected"
                extra_src += PATTERN_SRC
                fam.features.add("pattern_properties_field")
            body = _fields_src(own, n)
            if body.strip() == "pass" and extra_src:
                body = ""
            src.append(f"{deco}@dataclass\nclass {nm}({parent}):\n{body}{extra_src}\n")
            allf = inherited_fields + own + ([("children", "REC", "[]")] if fam.recursive and "children" in extra_src else []) + ([("px", "PATTERN", "{}")] if pat else [])
            implicit = [tn or nm]
            tags = implicit
            if nm in renamed:
                tags = renamed[nm] if fam.override_implicit else renamed[nm] + implicit
            fam.alts.append(Alt(nm, tags, allf, parent=parent, type_name=tn))
        T = fam.base
        fam.entries = [("bare", T, "bare"), ("list", f"List[{T}]", "list"), ("optional", f"Optional[{T}]", "optional"), ("dict", f"Dict[str, {T}]", "dict")]
        if len(names) >= 3:
            sub = rng.sample(names, 2)
            # a subset union must only contain leaves of the subset (a parent alternative would also catch its subclasses' tags)
            fam.subset = sub
            fam.entries.append(("subset", f"Union[{', '.join(sub)}]", "subset"))
        src.append(f"@dataclass\nclass Holder{n}:\n    p: {T}\n    q: Optional[{T}] = None\n    leaf: Leaf{n} = field(default_factory=Leaf{n})\n")
        fam.entries.append(("holder", f"Holder{n}", "holder"))
        # a subclass used directly (not through the discriminated base): no tag is expected there
        fam.direct = rng.choice(names)
        fam.entries.append(("direct", fam.direct, "direct"))
    else:
        explicit = {}
        fam.mapping_kind = rng.choice(["default", "default", "dict"])
        all_td = rng.random() < 0.12  # a union of TypedDicts only (dispatched on the tag field at serialization)
        if all_td:
            fam.features.add("all_typed_dict")
        for i, nm in enumerate(names):
            td = all_td or rng.random() < 0.2
            tag_field = None
            r = rng.random()
            if td or r < 0.3:
                if rng.random() < 0.6:
                    vals = [f"lit-{nm.lower()}"] + ([f"alt-{nm.lower()}"] if rng.random() < 0.4 else [])
                    tag_field = ("literal", vals)
                    fam.features.add("literal_tag_field")
                else:
                    tag_field = ("str",)
                    fam.features.add("str_tag_field")
            own = _mk_fields(rng, free_names, rng.choice([0, 1, 2, 3]))
            if td:
                own = [(a, b, None) for a, b, _ in own]
                fam.features.add("typed_dict")
            tn = None
            deco = ""
            if not td and rng.random() < 0.15:
                tn = f"Renamed{nm}"
                deco = f"@type_name({tn!r})\n"
                fam.features.add("type_name_override")
            # the tag field is named like the discriminator, or has another name and is aliased to it
            pyname = fam.alias if fam.alias.isidentifier() and rng.random() < 0.75 else "tag_"
            tf_src = ""
            if tag_field:
                tann = "Literal[" + ", ".join(repr(v) for v in tag_field[1]) + "]" if tag_field[0] == "literal" else "str"
                if pyname == fam.alias:
                    tf_src = f"    {pyname}: {tann}\n"
                elif not td:
                    tf_src = f"    {pyname}: {tann} = field(metadata=alias({fam.alias!r}))\n"
                else:
                    tf_src = f"    {pyname}: Annotated[{tann}, alias({fam.alias!r})]\n"
                if pyname != fam.alias:
                    fam.features.add("aliased_tag_field")
            if td and not tag_field:
                td = False  # a TypedDict alternative must declare the discriminator field
                own = _mk_fields(rng, free_names, rng.choice([0, 1, 2]))
            if td:
                src.append(f"class {nm}(TypedDict):\n{tf_src}" + (_fields_src(own, n) if own else "") + "\n")
            else:
                body = _fields_src(own, n)
                if tf_src and body.strip() == "pass":
                    body = ""
                if rng.random() < 0.15:
                    body = ("" if body.strip() == "pass" else body) + PATTERN_SRC
                    own = own + [("px", "PATTERN", "{}")]
                    fam.features.add("pattern_properties_field")
                src.append(f"{deco}@dataclass\nclass {nm}:\n{tf_src}{body}\n")
            implicit = list(tag_field[1]) if tag_field and tag_field[0] == "literal" else [tn or nm]
            fam.alts.append(Alt(nm, implicit, own, typed_dict=td, tag_field=tag_field, type_name=tn))
        mapping_src = ""
        if fam.mapping_kind == "dict":
            fam.features.add("explicit_mapping")
            fam.override_implicit = rng.random() < 0.7
            tgt = rng.choice(fam.alts)
            explicit = {f"tag-{tgt.name.lower()}": tgt.name}
            mapping_src = ", {" + ", ".join(f"{k!r}: {v}" for k, v in explicit.items()) + "}" + ("" if fam.override_implicit else ", override_implicit=False")
            tgt.tags = list(explicit) if fam.override_implicit else list(explicit) + tgt.tags
        T = f"Tagged{n}"
        src.append(f"{T} = Annotated[Union[{', '.join(names)}], discriminator({fam.alias!r}{mapping_src})]\n")
        fam.entries = [("bare", T, "bare"), ("list", f"List[{T}]", "list"), ("optional", f"Optional[{T}]", "optional"), ("dict", f"Dict[str, {T}]", "dict")]
        src.append(f"@dataclass\nclass Holder{n}:\n    p: {T}\n    q: Optional[{T}] = None\n    leaf: Leaf{n} = field(default_factory=Leaf{n})\n    other: Optional[{names[0]}] = None\n")
        fam.entries.append(("holder", f"Holder{n}", "holder"))
    fam.source = "\n".join(src)
    return fam


class Loaded:
    def __init__(self, fam, shard=0):
        from vf.spec import PRELUDE
        self.fam = fam
        self.name = f"vfdisc_{shard}_{fam.n}"
        self.mod = pytypes.ModuleType(self.name)
        sys.modules[self.name] = self.mod
        self.full_source = PRELUDE + "\n" + fam.source
        exec(compile(self.full_source, f"<{self.name}>", "exec"), self.mod.__dict__)

    def T(self, expr):
        return eval(expr, self.mod.__dict__)

    def program(self, expr):
        return self.full_source + f"\nT = {expr}\n"

    def unload(self):
        from apischema.conversions import reset_deserializers, reset_serializer
        sys.modules.pop(self.name, None)
        if self.fam.base:
            cls = getattr(self.mod, self.fam.base, None)
            if cls is not None:
                for fn in (reset_deserializers, reset_serializer):
                    try:
                        fn(cls)
                    except Exception:
                        pass
                try:
                    from apischema.discriminators import _discriminators
                    _discriminators.pop(cls, None)
                except Exception:
                    pass


# ---------------------------------------------------------------- workload
def aliased(name, aliaser):
    return aliaser(name) if aliaser else name


def alt_object(fam, alt, rng, aliaser=None, depth=0, valid=True):
    """a JSON object aimed at `alt` (valid by construction when valid=True)"""
    d = {}
    tagkey = aliased(fam.alias, aliaser)
    d[tagkey] = rng.choice(alt.tags)
    for nm, tp, default in alt.fields:
        if default is not None and rng.random() < 0.4:
            continue
        key = aliased(nm, aliaser)
        if tp == "PATTERN":
            del_ = d.pop(key, None)
            for k_ in rng.sample(["x-a", "x-", "x-some_key"], rng.choice([0, 1, 2])):
                d[k_] = rng.choice([0, 5])  # keys matched by the pattern are data keys: never aliased
        elif tp == "REC":
            if depth < 2 and rng.random() < 0.5:
                d[key] = [alt_object(fam, rng.choice(fam.alts), rng, aliaser, depth + 1) for _ in range(rng.choice([1, 2]))]
            else:
                d[key] = []
        else:
            d[key] = copy.deepcopy(rng.choice(FIELD_POOL[tp][0]))
    return d


def mutants(fam, alt, obj, rng, aliaser=None):
    tagkey = aliased(fam.alias, aliaser)
    out = []
    o = dict(obj); o.pop(tagkey, None); out.append(("no-tag", o))
    others = [t for a in fam.alts if a is not alt for t in a.tags]
    names = [a.name for a in fam.alts] + [a.type_name for a in fam.alts] + ([fam.base] if fam.base else [])
    for t in rng.sample(others, min(2, len(others))) + rng.sample(names, 2) + ["nope", "", 1, None, ["x"], True]:
        o = dict(obj); o[tagkey] = t; out.append(("tag=" + repr(t), o))
    o = dict(obj); o["extra_key"] = 1; out.append(("extra", o))
    if aliaser:
        o = dict(obj); o[fam.alias] = o.get(tagkey); out.append(("unaliased-tag-added", o))
    for nm, tp, default in alt.fields:
        key = aliased(nm, aliaser)
        if tp == "PATTERN":
            o = dict(obj); o["x-bad"] = "s"; out.append(("bad-pattern-value", o))
            o = dict(obj); o["x-ok"] = 1; out.append(("pattern-key-added", o))
            continue
        if tp != "REC":
            o = dict(obj); o[key] = copy.deepcopy(rng.choice(FIELD_POOL[tp][1])); out.append(("bad-" + nm, o))
        if key in obj:
            o = dict(obj); del o[key]; out.append(("drop-" + nm, o))
    # fields of another alternative
    if len(fam.alts) > 1:
        other = rng.choice([a for a in fam.alts if a is not alt])
        o2 = alt_object(fam, other, rng, aliaser)
        o = dict(o2); o[tagkey] = obj[tagkey]; out.append(("other-alt-fields", o))
    return out


ATOMS = [None, 0, "s", [], {}, True, 1.5, [{}]]


def wrap(kind, d, rng, aliaser=None, fam=None):
    if kind in ("bare", "subset", "optional", "direct"):
        return d
    if kind == "list":
        return [d]
    if kind == "dict":
        return {"k": d}
    if kind == "holder":
        o = {aliased("p", aliaser): d}
        if rng.random() < 0.3:
            o[aliased("q", aliaser)] = None
        return o
    raise ValueError(kind)


def workload(fam, entry_kind, rng, aliaser=None, per_alt=3):
    """[(label, datum)]"""
    alts = fam.alts if entry_kind != "subset" else [a for a in fam.alts if a.name in fam.subset]
    out = []
    aimed = fam.alts
    if entry_kind == "direct":
        aimed = [a for a in fam.alts if a.name == fam.direct] + [a for a in fam.alts if a.name != fam.direct][:1]
    for alt in aimed:
        for _ in range(per_alt):
            o = alt_object(fam, alt, rng, aliaser)
            out.append((f"valid:{alt.name}", wrap(entry_kind, o, rng, aliaser)))
        o = alt_object(fam, alt, rng, aliaser)
        for lab, m in mutants(fam, alt, o, rng, aliaser):
            out.append((f"{lab}:{alt.name}", wrap(entry_kind, m, rng, aliaser)))
    for a in ATOMS:
        out.append(("atom", a))
        if entry_kind in ("list", "dict", "holder"):
            out.append(("atom-inside", wrap(entry_kind, a, rng, aliaser)))
    if entry_kind == "list":
        o1, o2 = alt_object(fam, rng.choice(fam.alts), rng, aliaser), alt_object(fam, rng.choice(fam.alts), rng, aliaser)
        out.append(("two", [o1, o2]))
    if entry_kind == "holder":
        o1, o2 = alt_object(fam, rng.choice(fam.alts), rng, aliaser), alt_object(fam, rng.choice(fam.alts), rng, aliaser)
        out.append(("p+q", {aliased("p", aliaser): o1, aliased("q", aliaser): o2, aliased("leaf", aliaser): {"v": 2}}))
        out.append(("p+bad-q", {aliased("p", aliaser): o1, aliased("q", aliaser): {"nope": 1}}))
    return out


# ---------------------------------------------------------------- explanatory model of the known defect (C06 F33)
def _resolve(root, ref):
    from vf import jsonschema_o as jo
    ok, node = jo.resolve_pointer(root, ref)
    return node if ok else None


def _find_discriminator(root, node, seen=()):
    """discriminator object governing a `oneOf` node: sibling keyword (annotated form) or the keyword of a definition
    referenced through `allOf` by the alternatives (inherited form)"""
    if isinstance(node.get("discriminator"), dict):
        return node["discriminator"]
    for alt in node.get("oneOf", []):
        tgt = _resolve(root, alt["$ref"]) if isinstance(alt, dict) and "$ref" in alt else alt
        if isinstance(tgt, dict):
            for part in tgt.get("allOf", []):
                p = _resolve(root, part["$ref"]) if isinstance(part, dict) and "$ref" in part else None
                if isinstance(p, dict) and isinstance(p.get("discriminator"), dict):
                    return p["discriminator"]
    return None


def intended_schema(schema, declare_tag=False, close_children=False, closed=False, implicit_too=False, drop_parent=False):
    """The schema read with the OpenAPI discriminator semantics, expressed in standard JSON Schema: every `oneOf` governed
    by a discriminator becomes a dispatch on the tag (explicit mapping entries, else the last component of the
    alternative's $ref; an alternative with an explicit entry is only reached through it, or also through its name with
    implicit_too -- the schema cannot tell `override_implicit`).  Options add the two other parts of the recorded defect:
      declare_tag     the tag property is allowed in an alternative closed by additionalProperties:false
      close_children  `allOf: [parent, {...}]` alternatives are closed like any other object when `closed`
    Returns None when the schema contains no discriminated oneOf."""
    root = copy.deepcopy(schema)
    found = [False]

    def tags_of(disc, refs):
        mapping = disc.get("mapping", {}) or {}
        by_ref = {}
        for tag, ref in mapping.items():
            by_ref.setdefault(ref, []).append(tag)
        out = {}
        for ref in refs:
            out[ref] = (by_ref.get(ref, []) + [ref.rsplit("/", 1)[-1]]) if implicit_too else (by_ref.get(ref) or [ref.rsplit("/", 1)[-1]])
        return out

    memo = {}

    def alt_schema(ref, prop):
        """reference to a copy of the alternative's definition carrying the options (added beside the original one, once)"""
        tgt = _resolve(schema, ref)
        if not isinstance(tgt, dict) or not ref.startswith("#/"):
            return {"$ref": ref}
        key = (ref, prop)
        if key in memo:
            return {"$ref": memo[key]}
        t = copy.deepcopy(tgt)
        changed = False
        if declare_tag and t.get("additionalProperties") is False and prop not in t.get("properties", {}):
            t.setdefault("properties", {})[prop] = {}
            changed = True
        if close_children and closed and "allOf" in t and "unevaluatedProperties" not in t:
            t["unevaluatedProperties"] = False
            changed = True
        if not changed:
            memo[key] = ref
            return {"$ref": ref}
        newref = ref + "~" + "".join(c if c.isalnum() else "_" for c in prop)
        memo[key] = newref
        extra_defs[newref] = None
        extra_defs[newref] = walk(t)
        return {"$ref": newref}

    extra_defs = {}

    def is_parent_ref(e):
        if isinstance(e, dict) and set(e) == {"$ref"}:
            tgt = _resolve(schema, e["$ref"])
            return isinstance(tgt, dict) and isinstance(tgt.get("discriminator"), dict)
        return False

    def walk(x):
        if isinstance(x, list):
            return [walk(e) for e in x]
        if not isinstance(x, dict):
            return x
        if "oneOf" in x and all(isinstance(a, dict) and "$ref" in a for a in x["oneOf"]):
            disc = _find_discriminator(schema, x)
            if disc is not None and isinstance(disc.get("propertyName"), str):
                found[0] = True
                prop = disc["propertyName"]
                refs = [a["$ref"] for a in x["oneOf"]]
                tags = tags_of(disc, refs)
                all_tags = [t for r in refs for t in tags[r]]
                rest = {k: walk(v) for k, v in x.items() if k not in ("oneOf", "discriminator")}
                dispatch = {"type": "object", "required": [prop], "properties": {prop: {"enum": all_tags}},
                            "allOf": [{"if": {"properties": {prop: {"enum": tags[r]}}, "required": [prop]}, "then": alt_schema(r, prop)} for r in refs]}
                return {**rest, "allOf": rest.get("allOf", []) + [dispatch]} if rest else dispatch
        return {k: walk(v) for k, v in x.items()}

    if drop_parent:
        # a subclass of a discriminated base used on its own: at the root only, the parent (which requires the tag) does not
        # apply; below the root the same class reached through the base keeps it
        def drop_at(node):
            rest = [copy.deepcopy(e) for e in node["allOf"] if not is_parent_ref(e)]
            if closed:
                for e in rest:
                    if isinstance(e, dict) and e.get("type") == "object" and "additionalProperties" not in e:
                        e["additionalProperties"] = False
            out_ = {k: v for k, v in node.items() if k != "allOf"}
            if rest:
                out_["allOf"] = rest
            return out_

        def has_parent(node):
            return isinstance(node, dict) and isinstance(node.get("allOf"), list) and any(is_parent_ref(e) for e in node["allOf"])

        if has_parent(root):
            root = drop_at(root)
            found[0] = True
        elif isinstance(root.get("$ref"), str) and has_parent(_resolve(schema, root["$ref"])):
            newref = root["$ref"] + "~direct"
            extra_defs[newref] = None
            extra_defs[newref] = walk(drop_at(copy.deepcopy(_resolve(schema, root["$ref"]))))
            root = {**root, "$ref": newref}
            found[0] = True
    out = walk(root)
    for newref, d in extra_defs.items():
        cur = out
        parts = [p.replace("~1", "/").replace("~0", "~") for p in newref[2:].split("/")]
        for p_ in parts[:-1]:
            cur = cur.setdefault(p_, {})
        cur[parts[-1]] = d
    return out if found[0] else None


# ---------------------------------------------------------------- checks
EXPLANATIONS = [  # (name, options) tried in this order: the first reading that reproduces deserialize exactly names the mechanism
    ("discriminator-dispatch", {}),
    ("discriminator-dispatch+implicit-names", {"implicit_too": True}),
    ("discriminator-dispatch+tag-undeclared-in-closed-alternative", {"declare_tag": True}),
    ("discriminator-dispatch+open-subclass-schemas", {"close_children": True}),
    ("discriminator-dispatch+tag-undeclared+open-subclass-schemas", {"declare_tag": True, "close_children": True}),
    ("discriminator-dispatch+implicit-names+tag-undeclared+open-subclass-schemas", {"declare_tag": True, "close_children": True, "implicit_too": True}),
]


# a subclass of a discriminated base used on its own: the parent (requiring the tag) is dropped, alone or together with the
# readings above (recursive families dispatch again below the root)
EXPLANATIONS_DIRECT = [("discriminated-parent-applied-to-a-subclass-used-directly", {"drop_parent": True})] + [
    ("discriminated-parent-applied-to-a-subclass-used-directly+" + name, {**opts, "drop_parent": True}) for name, opts in EXPLANATIONS]


def _aliaser(name):
    from vf.spec import ALIASERS
    return None if name == "identity" else ALIASERS[name]


def pick_entries(env, fam):
    if env.quick():
        rest = [e for e in fam.entries if e[2] != "bare"]
        return [fam.entries[0]] + env.rng.sample(rest, min(2, len(rest)))
    return fam.entries


def check_c06(env, fam, L):
    """deserialize accepts d  <=>  d validates against deserialization_schema (standard semantics); a disagreement that the
    OpenAPI reading of `discriminator` reproduces exactly is the recorded defect, any other is new"""
    from apischema import deserialization_method
    from apischema.json_schema import deserialization_schema
    from vf import harness, jsonschema_o as jo

    rng = env.rng
    for label, expr, kind in pick_entries(env, fam):
        ap = rng.random() < 0.4
        al_name = rng.choice(["identity", "identity", "camel"])
        al = _aliaser(al_name)
        all_refs = rng.random() < 0.4
        kw = {"additional_properties": ap}
        if al:
            kw["aliaser"] = al
        skw = dict(kw)
        if all_refs:
            skw["all_refs"] = True
        T = L.T(expr)
        harness.reset_all()
        om = harness.call(deserialization_method, T, **kw)
        osch = harness.call(deserialization_schema, T, **skw)
        prog = L.program(expr)
        if om.kind != "ok" or osch.kind != "ok":
            bad = om if om.kind != "ok" else osch
            env.violation({"kind": "compile", "family": "discriminated", "which": "method" if om.kind != "ok" else "schema", "exc": bad.exc or "ValidationError", "site": bad.site},
                          {"program": prog, "family": fam.describe(), "options": {"additional_properties": ap, "aliaser": al_name, "all_refs": all_refs}, "outcome": bad.brief()})
            continue
        method, schema = om.value, json.loads(json.dumps(osch.value))
        if jo.meta_errors(schema, "2020-12"):
            env.count("inconclusive:schema fails its meta-schema (C17)")
            continue
        if jo.in_place_cycle(schema):
            env.count("inconclusive:schema has an in-place reference cycle (C17)")
            continue
        validator = jo.make_validator(schema)
        explainers = {}
        env.count("discriminated_programs")
        for dl, d in workload(fam, kind, rng, al):
            real = harness.call(method, d)
            try:
                sv = jo.is_valid(validator, d)
            except RecursionError:
                env.count("inconclusive:validator recursion")
                continue
            env.case("disc", fam.sig(), kind, ap, al_name, dl.split(":")[0], nontrivial=True)
            if real.kind == "exc":
                env.violation({"kind": "exception", "family": "discriminated", "exc": real.exc, "site": real.site}, {"program": prog, "datum": d, "observed": real.brief()})
                continue
            accepted = real.kind == "ok"
            if accepted == sv:
                env.count("agree_valid" if sv else "agree_invalid")
                env.count("discriminated_agree")
                continue
            feats = {"kind": "deserialize-accepts-schema-rejects" if accepted else "schema-accepts-deserialize-rejects", "family": "discriminated"}
            for name, opts in (EXPLANATIONS_DIRECT if kind == "direct" else EXPLANATIONS):
                if name not in explainers:
                    s2 = intended_schema(schema, closed=not ap, **opts)
                    try:
                        explainers[name] = jo.make_validator(s2) if s2 is not None else None
                    except Exception:
                        explainers[name] = None
                v2 = explainers[name]
                if v2 is None:
                    continue
                try:
                    if jo.is_valid(v2, d) == accepted:
                        feats["explained_by"] = name
                        break
                except Exception:
                    continue
            if "explained_by" not in feats:
                feats["form"] = fam.form
                feats["datum_kind"] = dl.split(":")[0]
            else:
                env.count("discriminated_explained_by_openapi_reading")
            env.violation(feats, {"program": prog, "family": fam.describe(), "entry": label, "options": {"additional_properties": ap, "aliaser": al_name, "all_refs": all_refs},
                                  "datum": d, "datum_label": dl, "schema": schema, "deserialize": real.brief(), "schema_valid": sv})


VERSIONS = ["DRAFT_2020_12", "DRAFT_2019_09", "DRAFT_7", "OPEN_API_3_0", "OPEN_API_3_1"]
DEFS_KEY = {"DRAFT_2020_12": "$defs", "DRAFT_2019_09": "$defs", "DRAFT_7": "definitions"}
PREFIX = {"DRAFT_2020_12": "#/$defs/", "DRAFT_2019_09": "#/$defs/", "DRAFT_7": "#/definitions/", "OPEN_API_3_0": "#/components/schemas/", "OPEN_API_3_1": "#/components/schemas/"}


def reachable_names(fam, kind):
    """type names that schema generation meets from the entry (model written from the family description)"""
    n = fam.n
    by_name = {a.name: a for a in fam.alts}
    start = [a for a in fam.alts if kind != "subset" or a.name in fam.subset]
    if kind == "direct":
        start = [a for a in fam.alts if a.name == fam.direct]
    out, todo = set(), list(start)
    leaf = False
    seen = set()
    while todo:
        a = todo.pop()
        if a.name in seen:
            continue
        seen.add(a.name)
        out.add(a.type_name)
        for nm, tp, _ in a.fields:
            if tp == "LEAF":
                leaf = True
            if tp == "REC":
                todo.extend(fam.alts)
    if fam.base:
        out.add(fam.base)
        if any(tp == "LEAF" for _, tp, _ in fam.base_fields):
            leaf = True
    if kind == "holder":
        out.add(f"Holder{n}")
        leaf = True
    if leaf:
        out.add(f"Leaf{n}")
    must = set(out) - {f"Leaf{n}", f"Holder{n}"}  # extracted whatever all_refs: alternatives and the discriminated parent
    if kind == "direct":  # the subclass itself is not a member of a discriminated union there (extracted only if used twice)
        must -= {a.type_name for a in fam.alts if a.name == fam.direct}
        if fam.recursive and any(tp == "REC" for a in start for _, tp, _ in a.fields):
            pass
    if kind == "direct" and not any(tp == "REC" for a in start for _, tp, _ in a.fields):
        must = {fam.base}
    return out, must


def custom_ref(name):
    return "#/x-refs/" + name


def check_c17(env, fam, L):
    from apischema.json_schema import JsonSchemaVersion, definitions_schema, deserialization_schema, serialization_schema
    from vf import harness, jsonschema_o as jo

    rng = env.rng
    for label, expr, kind in pick_entries(env, fam):
        T = L.T(expr)
        prog = L.program(expr)
        want_all, want_must = reachable_names(fam, kind)
        harness.reset_all()
        for side, fn in (("deserialization", deserialization_schema), ("serialization", serialization_schema)):
            combos = [(v, ar, rf) for v in VERSIONS for ar in (None, True, False) for rf in (None, custom_ref)]
            chosen = rng.sample(combos, 5 if env.quick() else 12) + [("DRAFT_2020_12", None, None)]
            for vname, all_refs, rf in chosen:
                kw = {"version": getattr(JsonSchemaVersion, vname)}
                if all_refs is not None:
                    kw["all_refs"] = all_refs
                if rf is not None:
                    kw["ref_factory"] = rf
                o = harness.call(fn, T, **kw)
                env.case("disc", fam.sig(), kind, side, vname, all_refs, rf is not None, nontrivial=True)
                wit = {"program": prog, "family": fam.describe(), "entry": side + "_schema", "entry_type": label, "version": vname, "all_refs": all_refs, "ref_factory": "custom" if rf else "default"}
                if o.kind != "ok":
                    env.violation({"kind": "generation-failed", "family": "discriminated", "exc": o.exc or "ValidationError", "site": o.site, "side": side}, {**wit, "outcome": o.brief()})
                    continue
                doc = json.loads(json.dumps(o.value))
                env.count("schemas_generated")
                env.count("discriminated_schemas")
                dialect = jo.dialect_of(doc)
                md = dialect if dialect in jo.VALIDATORS else ("2020-12" if vname == "OPEN_API_3_1" else None)
                if md:
                    env.count("meta_schema_checks")
                    errs = jo.meta_errors(doc, md)
                    if errs:
                        env.violation({"kind": "meta-schema", "family": "discriminated", "version": vname, "keyword": sorted({e.split(":")[0].split("/")[-1] for e in errs})[:3]}, {**wit, "schema": doc, "meta_errors": errs})
                prefix = "#/x-refs/" if rf else PREFIX[vname]
                defs = doc.get(DEFS_KEY.get(vname, "$none")) if rf is None else None
                dkw = dict(kw)
                od = harness.call(definitions_schema, **{side: [T]}, **dkw)
                if od.kind != "ok":
                    env.violation({"kind": "definitions_schema-failed", "family": "discriminated", "exc": od.exc, "site": od.site}, {**wit, "outcome": od.brief()})
                    continue
                ext = json.loads(json.dumps(od.value))
                pool = defs if defs is not None else ext
                refs = [r for _, r in jo.refs_of(doc)]
                for d_ in (pool or {}).values():
                    refs += [r for _, r in jo.refs_of(d_)]
                # discriminator mappings are references too
                def mapping_refs(x):
                    if isinstance(x, dict):
                        if isinstance(x.get("discriminator"), dict):
                            yield from (x["discriminator"].get("mapping") or {}).values()
                        for v in x.values():
                            yield from mapping_refs(v)
                    elif isinstance(x, list):
                        for v in x:
                            yield from mapping_refs(v)
                mrefs = list(mapping_refs(doc)) + list(mapping_refs(ext))
                env.count("discriminator_mapping_refs_checked", len(mrefs))
                for ref in refs + mrefs:
                    env.count("refs_resolved")
                    if not ref.startswith(prefix) or ref[len(prefix):] not in (pool or {}):
                        env.violation({"kind": "dangling-ref", "family": "discriminated", "version": vname, "ref_factory": "custom" if rf else "default", "in_mapping": ref in mrefs and ref not in refs},
                                      {**wit, "ref": ref, "schema": doc, "definitions": sorted(pool or {})})
                full = dict(doc)
                if defs is None and ext:
                    cur = full
                    parts = prefix[2:-1].split("/")
                    for p_ in parts[:-1]:
                        cur = cur.setdefault(p_, {})
                    cur[parts[-1]] = ext
                env.count("cycle_checks")
                cyc = jo.in_place_cycle(full)
                if cyc:
                    env.violation({"kind": "in-place-reference-cycle", "family": "discriminated"}, {**wit, "cycle": cyc, "schema": doc})
                if defs is not None:
                    env.count("definitions_schema_checks")
                    if ext != defs:
                        env.violation({"kind": "definitions_schema-differs-from-inline-defs", "family": "discriminated", "version": vname}, {**wit, "inline": defs, "definitions_schema": ext})
                emitted = set(pool or {})
                eff_all = all_refs if all_refs is not None else vname.startswith("OPEN_API")
                env.count("extraction_set_checks_all_refs_" + ("true" if eff_all else "false"))
                env.count("discriminated_extraction_checks")
                bad = (emitted != want_all) if eff_all else not (want_must <= emitted <= want_all)
                if bad:
                    env.violation({"kind": "extraction-set", "family": "discriminated", "all_refs": eff_all, "missing": len((want_all if eff_all else want_must) - emitted) > 0, "unexpected": len(emitted - want_all) > 0},
                                  {**wit, "emitted": sorted(emitted), "expected_all": sorted(want_all), "expected_at_least": sorted(want_must), "schema": doc})


def check_c05(env, fam, L):
    """accepted data: the instance has the class selected by the tag, and deserialize(serialize(v)) == v"""
    from apischema import deserialization_method, serialization_method
    from vf import harness

    rng = env.rng
    for label, expr, kind in pick_entries(env, fam):
        # a TypedDict keeps unknown keys under additional_properties=True and serialization drops them: not a round trip
        ap = rng.random() < 0.3 and "typed_dict" not in fam.features
        al_name = rng.choice(["identity", "identity", "camel"])
        al = _aliaser(al_name)
        kw = {"additional_properties": ap}
        skw = {}
        if al:
            kw["aliaser"] = al
            skw["aliaser"] = al
        T = L.T(expr)
        harness.reset_all()
        om = harness.call(deserialization_method, T, **kw)
        osm = harness.call(serialization_method, T, **skw)
        prog = L.program(expr)
        if om.kind != "ok" or osm.kind != "ok":
            bad = om if om.kind != "ok" else osm
            env.violation({"kind": "compile", "family": "discriminated", "exc": bad.exc or "ValidationError", "site": bad.site}, {"program": prog, "outcome": bad.brief()})
            continue
        dm, sm = om.value, osm.value
        tagkey = aliased(fam.alias, al)
        for dl, d in workload(fam, kind, rng, al, per_alt=2):
            r = harness.call(dm, d)
            if r.kind != "ok":
                continue
            v = r.value
            wit = {"program": prog, "family": fam.describe(), "entry": label, "options": {"additional_properties": ap, "aliaser": al_name}, "datum": d, "datum_label": dl}
            env.case("disc", fam.sig(), kind, al_name, dl.split(":")[0], nontrivial=True)
            if kind in ("bare", "subset", "optional") and isinstance(d, dict) and isinstance(d.get(tagkey), str):
                want = [a for a in fam.alts if d[tagkey] in a.tags and (kind != "subset" or a.name in fam.subset)]
                env.count("discriminated_class_checks")
                if len(want) == 1:
                    got = type(v).__name__
                    exp = "dict" if want[0].typed_dict else want[0].name
                    if got != exp:
                        env.violation({"kind": "wrong-alternative", "family": "discriminated"}, {**wit, "got_class": got, "expected_class": exp})
                        continue
                elif not want:
                    env.violation({"kind": "unknown-tag-accepted", "family": "discriminated"}, {**wit, "got_class": type(v).__name__})
                    continue
            s = harness.call(sm, v)
            if s.kind != "ok":
                env.violation({"kind": "serialize-failed", "family": "discriminated", "exc": s.exc or "ValidationError", "site": s.site}, {**wit, "outcome": s.brief()})
                continue
            r2 = harness.call(dm, s.value)
            env.count("roundtrips")
            env.count("discriminated_roundtrips")
            if r2.kind != "ok" or not (r2.value == v and type(r2.value) is type(v)):
                env.violation({"kind": "roundtrip", "family": "discriminated", "stage": "deserialize(serialize(v)) " + ("differs" if r2.kind == "ok" else "fails")},
                              {**wit, "value": harness.safe_repr(v), "serialized": s.value, "again": r2.brief()})


def check_c13(env, fam, L):
    """dispatch on the discriminator == the selected alternative alone on the same data (real code as oracle), strict and coerced;
    data without a usable tag are rejected"""
    from apischema import deserialization_method
    from vf import harness
    from vf.spec import canon

    rng = env.rng
    entries = [e for e in fam.entries if e[2] in ("bare", "subset", "optional")]
    for label, expr, kind in entries:
        ap = rng.random() < 0.3
        al_name = rng.choice(["identity", "identity", "camel"])
        al = _aliaser(al_name)
        for coerce in (False, True):
            kw = {"additional_properties": ap, "coerce": coerce}
            if al:
                kw["aliaser"] = al
            T = L.T(expr)
            harness.reset_all()
            om = harness.call(deserialization_method, T, **kw)
            prog = L.program(expr)
            if om.kind != "ok":
                env.violation({"kind": "compile", "family": "discriminated", "exc": om.exc or "ValidationError", "site": om.site}, {"program": prog, "outcome": om.brief()})
                continue
            um = om.value
            alts = [a for a in fam.alts if kind != "subset" or a.name in fam.subset]
            alt_m = {}
            for a in alts:
                o = harness.call(deserialization_method, L.T(a.name), **kw)
                if o.kind == "ok":
                    alt_m[a.name] = o.value
            tagkey = aliased(fam.alias, al)
            for dl, d in workload(fam, kind, rng, al, per_alt=2):
                real = harness.call(um, d)
                if real.kind == "exc":
                    env.violation({"kind": "exception", "family": "discriminated", "exc": real.exc, "site": real.site, "coerce": coerce}, {"program": prog, "datum": d, "coerce": coerce, "observed": real.brief()})
                    continue
                env.case("disc13", fam.sig(), kind, coerce, ap, al_name, dl.split(":")[0], nontrivial=True)
                wit = {"program": prog, "family": fam.describe(), "entry": label, "options": {"additional_properties": ap, "aliaser": al_name}, "coerce": coerce, "datum": d, "datum_label": dl, "union": real.brief()}
                sel = None
                if isinstance(d, dict) and isinstance(d.get(tagkey), str):
                    cands = [a for a in alts if d[tagkey] in a.tags]
                    if len(cands) == 1:
                        sel = cands[0]
                    elif len(cands) > 1:
                        continue
                if d is None and kind == "optional":
                    continue
                if sel is None:
                    env.count("discriminated_untagged_checks")
                    if real.kind == "ok":
                        env.violation({"kind": "union-accepts-without-usable-tag", "family": "discriminated", "coerce": coerce}, wit)
                    continue
                if sel.name not in alt_m:
                    continue
                d2 = d if sel.tag_field else {k: v for k, v in d.items() if k != tagkey}
                exp = harness.call(alt_m[sel.name], d2)
                env.count("discriminated_dispatch_checks")
                env.count("discriminated_dispatch_checks_coerce" if coerce else "discriminated_dispatch_checks_strict")
                if exp.kind == "exc":
                    continue
                if (exp.kind == "ok") != (real.kind == "ok"):
                    env.violation({"kind": "union-rejects-an-alternative-accepts" if exp.kind == "ok" else "union-accepts-all-alternatives-reject", "family": "discriminated", "coerce": coerce},
                                  {**wit, "alternative": sel.name, "alternative_outcome": exp.brief()})
                elif exp.kind == "ok":
                    try:
                        same = canon(exp.value) == canon(real.value)
                    except Exception:
                        same = exp.value == real.value
                    if not same:
                        env.violation({"kind": "union-result-differs-from-alternative", "family": "discriminated", "coerce": coerce}, {**wit, "alternative": sel.name, "alternative_outcome": exp.brief()})
                else:
                    a_, b_ = sorted(map(str, exp.errors)), sorted(map(str, real.errors))
                    if a_ != b_:
                        env.count("discriminated_error_sets_differ")  # informative only: C13 states the verdict and the value


def check_c14(env, fam, L):
    """coerce=True accepts whatever strict mode accepts, with an equal result (a discriminated union selects one alternative)"""
    from apischema import deserialization_method
    from vf import harness
    from vf.spec import canon

    rng = env.rng
    for label, expr, kind in pick_entries(env, fam):
        ap = rng.random() < 0.3
        kw = {"additional_properties": ap}
        T = L.T(expr)
        harness.reset_all()
        o1, o2 = harness.call(deserialization_method, T, **kw), harness.call(deserialization_method, T, coerce=True, **kw)
        prog = L.program(expr)
        if o1.kind != "ok" or o2.kind != "ok":
            bad = o1 if o1.kind != "ok" else o2
            env.violation({"kind": "compile", "family": "discriminated", "exc": bad.exc or "ValidationError", "site": bad.site}, {"program": prog, "outcome": bad.brief()})
            continue
        from vf.checks.c14 import polite_wrong_coercer
        o3 = harness.call(deserialization_method, T, coerce=polite_wrong_coercer, **kw)
        o4 = None
        if kind in ("bare", "subset"):
            wrong = rng.choice(["", [], 0, "oops", None])

            def rude_object_coercer(cls, data, wrong=wrong):
                return wrong if cls is dict else data  # wrong-typed result at every object position, even for a dict

            o4 = harness.call(deserialization_method, T, coerce=rude_object_coercer, **kw)
        for dl, d in workload(fam, kind, rng, None, per_alt=2):
            r = harness.call(o1.value, d)
            if o4 is not None and o4.kind == "ok":
                rr = harness.call(o4.value, d)
                env.count("discriminated_wrong_coercer_checks")
                if rr.kind != "verr":  # an object is expected at the root: its coerced value is never one
                    env.violation({"kind": "wrong-typed-coercer-result-accepted" if rr.kind == "ok" else "custom-coercer-exception", "family": "discriminated", "exc": rr.exc, "coercer": "rude-object"},
                                  {"program": prog, "family": fam.describe(), "entry": label, "datum": d, "coercer_returns_for_dict": repr(wrong), "observed": rr.brief()})
            if o3.kind == "ok" and r.kind in ("ok", "verr"):
                # a coercer whose results are wrong-typed whenever it has something to do changes nothing: results are type-checked
                rw = harness.call(o3.value, d)
                env.count("discriminated_wrong_coercer_checks")
                if rw.kind != r.kind:
                    env.violation({"kind": "wrong-typed-coercer-result-changes-verdict" if rw.kind != "exc" else "custom-coercer-exception", "family": "discriminated", "strict": r.kind, "coerced": rw.kind, "exc": rw.exc},
                                  {"program": prog, "family": fam.describe(), "entry": label, "datum": d, "strict": r.brief(), "with_coercer": rw.brief()})
            if r.kind != "ok":
                continue
            rc = harness.call(o2.value, d)
            env.count("monotonic_checks")
            env.count("discriminated_monotonic_checks")
            env.case("disc14", fam.sig(), kind, ap, dl.split(":")[0], nontrivial=True)
            wit = {"program": prog, "family": fam.describe(), "entry": label, "options": {"additional_properties": ap}, "datum": d, "strict": r.brief(), "coerced": rc.brief()}
            if rc.kind != "ok":
                env.violation({"kind": "strict-accepted-coerce-rejected", "family": "discriminated", "exc": rc.exc}, wit)
            else:
                try:
                    same = canon(r.value) == canon(rc.value)
                except Exception:
                    same = r.value == rc.value
                if not same:
                    env.violation({"kind": "coerced-image", "family": "discriminated"}, wit)


def check_c07(env, fam, L):
    """serialize(T, v) validates against serialization_schema(T) (standard semantics); a disagreement that the OpenAPI reading of
    `discriminator` reproduces exactly is the recorded defect F33, any other is new"""
    from apischema import deserialization_method, serialization_method
    from apischema.json_schema import serialization_schema
    from vf import harness, jsonschema_o as jo

    rng = env.rng
    for label, expr, kind in pick_entries(env, fam):
        ap = rng.random() < 0.3 and "typed_dict" not in fam.features
        al_name = rng.choice(["identity", "identity", "camel"])
        al = _aliaser(al_name)
        kw = {"additional_properties": ap}
        if al:
            kw["aliaser"] = al
        T = L.T(expr)
        harness.reset_all()
        om = harness.call(deserialization_method, T, **kw)
        osm = harness.call(serialization_method, T, **kw)
        osch = harness.call(serialization_schema, T, **kw)
        prog = L.program(expr)
        if om.kind != "ok" or osm.kind != "ok" or osch.kind != "ok":
            bad = next(o for o in (om, osm, osch) if o.kind != "ok")
            env.violation({"kind": "compile", "family": "discriminated", "exc": bad.exc or "ValidationError", "site": bad.site}, {"program": prog, "outcome": bad.brief()})
            continue
        schema = json.loads(json.dumps(osch.value))
        if jo.meta_errors(schema, "2020-12") or jo.in_place_cycle(schema):
            env.count("inconclusive:schema ill-formed (C17)")
            continue
        validator = jo.make_validator(schema)
        explainers = {}
        for dl, d in workload(fam, kind, rng, al, per_alt=2):
            r = harness.call(om.value, d)
            if r.kind != "ok":
                continue
            so = harness.call(osm.value, r.value)
            if so.kind != "ok":
                env.count("inconclusive:serialize failed (C04/C05)")
                continue
            try:
                data = json.loads(json.dumps(so.value))
            except Exception:
                env.count("inconclusive:non-JSON output (C04)")
                continue
            env.case("disc07", fam.sig(), kind, ap, al_name, dl.split(":")[0], nontrivial=True)
            env.count("discriminated_serialized_validations")
            try:
                ok = jo.is_valid(validator, data)
            except RecursionError:
                continue
            if ok:
                env.count("validated")
                continue
            feats = {"kind": "serialized-data-invalid-for-schema", "family": "discriminated"}
            for name, opts in (EXPLANATIONS_DIRECT if kind == "direct" else EXPLANATIONS):
                if name not in explainers:
                    s2 = intended_schema(schema, closed=not ap, **opts)
                    try:
                        explainers[name] = jo.make_validator(s2) if s2 is not None else None
                    except Exception:
                        explainers[name] = None
                v2 = explainers[name]
                if v2 is None:
                    continue
                try:
                    if jo.is_valid(v2, data):
                        feats["explained_by"] = name
                        break
                except Exception:
                    continue
            if "explained_by" not in feats:
                feats["keywords"] = sorted({e.validator for e in validator.iter_errors(data)})[:4]
                feats["form"] = fam.form
            env.violation(feats, {"program": prog, "family": fam.describe(), "entry": label, "options": {"additional_properties": ap, "aliaser": al_name},
                                  "value": harness.safe_repr(r.value)[:300], "serialized": data, "schema": schema})


def check_purity(env, fam, L):
    """the input is never modified (whatever no_copy), and no_copy does not change the result (C03 / C08)"""
    from apischema import deserialization_method
    from vf import harness
    from vf.gen_data import fingerprint
    from vf.spec import canon

    rng = env.rng
    for label, expr, kind in pick_entries(env, fam):
        ap = rng.random() < 0.3
        al_name = rng.choice(["identity", "identity", "camel"])
        al = _aliaser(al_name)
        kw = {"additional_properties": ap}
        if al:
            kw["aliaser"] = al
        T = L.T(expr)
        harness.reset_all()
        ms = {nc: harness.call(deserialization_method, T, no_copy=nc, **kw) for nc in (True, False)}
        prog = L.program(expr)
        if any(o.kind != "ok" for o in ms.values()):
            continue
        for dl, d in workload(fam, kind, rng, al, per_alt=2):
            outs = {}
            for nc, o in ms.items():
                fp = fingerprint(d)
                snapshot = harness.safe_repr(d)[:300]
                r = harness.call(o.value, d)
                env.count("discriminated_purity_checks")
                env.case("disc-purity", fam.sig(), kind, nc, ap, al_name, dl.split(":")[0], nontrivial=True)
                if fingerprint(d) != fp:
                    env.violation({"kind": "input-mutated", "family": "discriminated", "no_copy": nc, "side": "deserialize"},
                                  {"program": prog, "family": fam.describe(), "entry": label, "options": {"additional_properties": ap, "aliaser": al_name, "no_copy": nc}, "before": snapshot, "after": harness.safe_repr(d)[:300]})
                    break
                outs[nc] = r
            if len(outs) == 2 and outs[True].kind in ("ok", "verr") and outs[False].kind in ("ok", "verr"):
                a, b = outs[True], outs[False]
                try:
                    same = a.kind == b.kind and (canon(a.value) == canon(b.value) if a.kind == "ok" else sorted(map(str, a.errors)) == sorted(map(str, b.errors)))
                except Exception:
                    same = True
                if not same:
                    env.violation({"kind": "result-depends-on-option", "option": "no_copy", "family": "discriminated", "base": a.kind, "variant": b.kind},
                                  {"program": prog, "family": fam.describe(), "entry": label, "datum": d, "no_copy_true": a.brief(), "no_copy_false": b.brief()})


def run_family(env, check, count):
    """generate `count` families and run `check` (one of the functions above) on each"""
    import time
    for j in range(count):
        # never more than a third of the time cap: the main workload of the check comes after
        if env.out_of_time() or (j > 0 and time.time() - env.t0 > 0.33 * env.time_cap):
            env.count("discriminated_families_stopped_by_time_share")
            break
        fam = generate(env.rng, j)
        try:
            L = Loaded(fam, env.shard)
        except Exception as e:
            env.count("discriminated_load_failed")
            if env.counters["discriminated_load_failed"] <= 3:
                env.notes.append(f"discriminated family load failed: {type(e).__name__}: {e}")
            continue
        try:
            check(env, fam, L)
            env.count("discriminated_families")
            for f in fam.features:
                env.count("discriminated_feature:" + f)
            env.count("discriminated_form:" + fam.form)
        finally:
            L.unload()
