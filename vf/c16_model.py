"""C16 helpers: ordering programs (JSON-serialisable), their Python source, the effective ordering of each element
(resolved from the documentation: field metadata < class-level order(...) of the bases < class-level order(...) of the class),
and the *declarative* ordering oracle (i)-(iv) of DESIGN §C16 — it never builds the expected sequence, it only checks
constraints on the observed one, so it cannot share a bug with apischema's recursive placement.

program = {
  "classes":  [ {"name", "fields": [..], "methods": [..], "class_order": None | {"map": {elt: spec}} | {"seq": [elts]}} ... ]  base first
  "elements": { elt: {"kind": "field"|"method", "meta": spec, "present": "both"|"ser"|"deser"|"readonly", "alias": str|None} }
  "ref_style": "string" | "object",  "form": label of how the ordering is expressed (witness feature),
  "method_style": absent (= @serialized(order=..) + resolver(order=.., owner=..) registered separately) | "resolver-serialized" (= @resolver(order=.., serialized=True))
}
spec = None | ["v", int] | ["after", elt] | ["before", elt]
"""
import itertools
from collections import Counter

SER_VIEWS = ("serialize", "serialization_schema", "graphql_output")
DESER_VIEWS = ("deserialization_schema", "graphql_input")
VIEWS = SER_VIEWS + DESER_VIEWS

PRELUDE = """from dataclasses import dataclass, field, InitVar
from apischema import alias, order, serialized
from apischema.graphql import resolver
from apischema.metadata import skip
"""


# ------------------------------------------------------------------------------------------------ structure


def decl_order(prog):
    """all fields (base class first, declaration order) then all methods (base class first)"""
    return [f for c in prog["classes"] for f in c["fields"]] + [m for c in prog["classes"] for m in c["methods"]]


def owner_of(prog):
    return {e: i for i, c in enumerate(prog["classes"]) for e in c["fields"] + c["methods"]}


def effective(prog):
    """element -> spec after applying the class-level overrides through the MRO (most derived class wins)"""
    eff = {e: d["meta"] for e, d in prog["elements"].items()}
    for c in prog["classes"]:
        co = c.get("class_order")
        if not co:
            continue
        if "map" in co:
            for e, s in co["map"].items():
                eff[e] = s
        else:
            seq = co["seq"]
            for prev, e in zip(seq, seq[1:]):
                eff[e] = ["after", prev]
    return eff


def target(spec):
    return spec[1] if spec is not None and spec[0] in ("after", "before") else None


def ill_formed(prog, eff):
    """reason string when the program is outside the quantifier, else None"""
    elts = prog["elements"]
    for e, s in eff.items():
        t = target(s)
        if t is None:
            continue
        if t == e:
            return "self-reference"
        if t not in elts:
            return "unknown-target"
    for e in eff:
        seen, t = {e}, target(eff[e])
        while t is not None:
            if t in seen:
                return "cycle"
            seen.add(t)
            t = target(eff[t])
    return None


def present(prog, view):
    """elements the view is about, in declaration order"""
    out = []
    for e in decl_order(prog):
        d = prog["elements"][e]
        if d["kind"] == "method":
            if view in SER_VIEWS:
                out.append(e)
        else:
            p = d.get("present", "both")
            if p == "both" or (p in ("ser", "readonly") and view in SER_VIEWS) or (p in ("deser", "initvar") and view in DESER_VIEWS):
                out.append(e)
    return out


def floating(eff, P):
    """elements of P whose after/before chain reaches an element absent from the view: position unspecified"""
    Pset, out = set(P), set()
    for e in P:
        t, seen = target(eff[e]), {e}
        while t is not None and t not in seen:
            if t not in Pset:
                out.add(e)
                break
            seen.add(t)
            t = target(eff[t])
    return out


def attached_to(eff, y, x):
    t, seen = target(eff[y]), {y}
    while t is not None and t not in seen:
        if t == x:
            return True
        seen.add(t)
        t = target(eff[t])
    return False


# ------------------------------------------------------------------------------------------------ oracle


def check_view(prog, eff, view, obs):
    """declarative constraints on one observed sequence; returns (findings, abstentions Counter)
    finding = (features dict, details dict)"""
    P = present(prog, view)
    decl = decl_order(prog)
    didx = {e: i for i, e in enumerate(decl)}
    own = owner_of(prog)
    elts = prog["elements"]
    fl = floating(eff, P)
    findings, abst = [], Counter()
    cnt = Counter(obs)
    # (i) permutation of the elements present in the view
    for e in P:
        if cnt[e] == 0:
            cause = "target-absent-in-view" if e in fl else "other"
            findings.append(({"kind": "lost-element", "cause": cause, "view": view}, {"element": e, "spec": eff[e]}))
    for e, k in cnt.items():
        if e not in P:
            findings.append(({"kind": "unexpected-element", "view": view}, {"element": e}))
        elif k > 1:
            findings.append(({"kind": "duplicated-element", "view": view}, {"element": e, "times": k}))
    if any(k > 1 for k in cnt.values()):
        return findings, abst
    pos = {e: i for i, e in enumerate(obs)}
    here = [e for e in P if e in pos]
    # (ii) elements carrying an order value (default 0): sorted by (value, declaration), methods after fields
    valued = [e for e in here if eff[e] is None or eff[e][0] == "v"]

    def val(e):
        return 0 if eff[e] is None else eff[e][1]

    for a, b in itertools.combinations(valued, 2):  # a declared before b
        if val(a) == val(b):
            # (methods of a base class are declared before those of its subclasses, like fields: no abstention)
            first, second, why = a, b, "declaration-order"
        else:
            first, second = (a, b) if val(a) < val(b) else (b, a)
            why = "order-value"
        if pos[first] > pos[second]:
            kinds = sorted({elts[a]["kind"], elts[b]["kind"]})
            findings.append(({"kind": "valued-elements-not-sorted", "by": why, "between": "+".join(kinds), "view": view},
                             {"first": first, "second": second, "values": [val(first), val(second)]}))
    # (iii) after=x / before=x: adjacent to x up to elements themselves (transitively) attached to x
    for e in here:
        s = eff[e]
        if s is None or s[0] == "v":
            continue
        x = s[1]
        if e in fl:
            abst["target-absent-in-view"] += 1
            continue
        if x not in pos:
            continue  # x lost: already reported by (i)
        lo, hi = (pos[x], pos[e]) if s[0] == "after" else (pos[e], pos[x])
        if lo > hi:
            findings.append(({"kind": "attachment-wrong-side", "side": s[0], "view": view}, {"element": e, "target": x}))
            continue
        for y in obs[lo + 1:hi]:
            if y in fl:
                abst["floating-element-between"] += 1
            elif not attached_to(eff, y, x):
                findings.append(({"kind": "attachment-not-adjacent", "side": s[0], "view": view}, {"element": e, "target": x, "intruder": y, "intruder_spec": eff[y]}))
                break
    # (iv) several elements attached on the same side of the same x: order left to the pairwise agreement of views
    return findings, abst


def check_agreement(prog, eff, observed):
    """observed: view -> sequence (only views that could be computed). Relative order of the common, non-floating elements"""
    findings = []
    fl = {v: floating(eff, present(prog, v)) for v in observed}
    for a, b in itertools.combinations(observed, 2):
        if any(k > 1 for k in Counter(observed[a]).values()) or any(k > 1 for k in Counter(observed[b]).values()):
            continue
        common = (set(observed[a]) & set(observed[b])) - fl[a] - fl[b]
        sa = [e for e in observed[a] if e in common]
        sb = [e for e in observed[b] if e in common]
        if sa != sb:
            findings.append(({"kind": "views-disagree", "views": f"{a}/{b}"}, {a: sa, b: sb}))
    return findings


def expected_sequence(prog, eff, view):
    """constructive rendering used only to print an expected sequence in witnesses (elements whose target is absent
    are shown at their declaration position with value 0)"""
    P = present(prog, view)
    Pset = set(P)
    roots, after, before = [], {}, {}
    for e in P:
        s = eff[e]
        t = target(s)
        if t is None or t not in Pset:
            roots.append((0 if s is None or s[0] != "v" else s[1], e))
        else:
            (after if s[0] == "after" else before).setdefault(t, []).append(e)
    out = []

    def emit(e):
        for b in before.get(e, []):
            emit(b)
        out.append(e)
        for a in after.get(e, []):
            emit(a)

    for _, e in sorted(roots, key=lambda r: r[0]):  # stable: declaration order within a value
        emit(e)
    return out


# ------------------------------------------------------------------------------------------------ source


def spec_src(spec, objects=()):
    if spec is None:
        return None
    if spec[0] == "v":
        return f"order({spec[1]})"
    t = spec[1] if spec[1] in objects else repr(spec[1])
    return f"order({spec[0]}={t})"


def source(prog, uid):
    """Python source of the program; class i is named C{i}_{uid}; the class under test is the last one"""
    lines = []
    names = [f"C{i}_{uid}" for i in range(len(prog["classes"]))]
    post = []
    for i, c in enumerate(prog["classes"]):
        co = c.get("class_order")
        if co:
            if "map" in co:
                lines.append("@order({" + ", ".join(f"{e!r}: {spec_src(s)}" for e, s in co["map"].items()) + "})")
            else:
                lines.append(f"@order({list(co['seq'])!r})")
        lines.append("@dataclass(repr=False, eq=False)")
        lines.append(f"class {names[i]}" + (f"({names[i - 1]})" if i else "") + ":")
        declared = []
        for f in c["fields"]:
            d = prog["elements"][f]
            md = []
            o = spec_src(d["meta"], declared if prog.get("ref_style") == "object" else ())
            if o:
                md.append(o)
            if d.get("alias"):
                md.append(f"alias({d['alias']!r})")
            p = d.get("present", "both")
            if p == "ser":
                md.append("skip(deserialization=True)")
            elif p == "deser":
                md.append("skip(serialization=True)")
            args = ["default=0"] + (["init=False"] if p == "readonly" else []) + (["metadata=" + " | ".join(md)] if md else [])
            lines.append(f"    {f}: {'InitVar[int]' if p == 'initvar' else 'int'} = field({', '.join(args)})")  # an InitVar only exists in the deserialization views
            declared.append(f)
        for m in c["methods"]:
            o = spec_src(prog["elements"][m]["meta"], declared if prog.get("ref_style") == "object" else ())
            if prog.get("method_style") == "resolver-serialized":  # one decorator registering the method for both worlds
                lines.append(f"    @resolver(order={o}, serialized=True)" if o else "    @resolver(serialized=True)")
            else:
                lines.append(f"    @serialized(order={o})" if o else "    @serialized")
                ostr = spec_src(prog["elements"][m]["meta"])
                post.append(f"resolver({('order=' + ostr + ', ') if ostr else ''}owner={names[i]})({names[i]}.{m})")
            lines.append(f"    def {m}(self) -> int:")
            lines.append("        return 100")
        if any(prog["elements"][f].get("present") == "initvar" for cc in prog["classes"][: i + 1] for f in cc["fields"]):
            lines.append("    def __post_init__(self, *init_vars):\n        pass")
        if not c["fields"] and not c["methods"]:
            lines.append("    pass")
        lines.append("")
    T = names[-1]
    lines += post
    lines.append(f"def q_{uid}(arg: {T}) -> {T}:")
    lines.append("    return arg")
    lines.append(f"def r_{uid}() -> {T}:")
    lines.append(f"    return {T}()")
    lines.append(f"T = {T}")
    lines.append(f"QUERY = q_{uid}")
    lines.append(f"QUERY_NOARG = r_{uid}")
    return PRELUDE + "\n".join(lines) + "\n"
