"""C10 workload: class specs (JSON-serialisable dicts) with validators that write a call log, source emission,
loading (module registered in sys.modules + linecache so that inspect.getsource / AST dependency discovery work),
bounded-exhaustive enumeration of the *core* shapes and seeded random decoration.

A spec is
  {"name": "K7", "base": bool, "ctor": "post_init"|"init", "aliaser": None|"upper"|"prefix",
   "fields": [{"n": "a", "kind": "req|dflt|ivreq|ivdflt", "alias": None|str, "post_init": bool, "base": bool,
               "nt": [style...], "fv": [style...]}],
   "validators": [{"n": "v0", "reads": [["a", "direct|method|property|method2"]], "params": ["c"], "field": None|"a",
                   "discard": None|["b"], "ref": "obj|str", "style": STYLE, "pf": "a", "where": "own|base|ext"}],
   "arg_validator": None | {"n": "av", "reads": ["a"], "style": "raise"}}
Field-level validators (`nt`: registered on the field's NewType, `fv`: `validators` metadata) are named nt_<f>_<i> / fv_<f>_<i>.
"""
import itertools
import linecache
import sys
import types

FIELD_NAMES = ["a", "b", "c", "d"]
VALID = {"a": 11, "b": 22, "c": 33, "d": 44}
DEFAULT = {"a": 101, "b": 102, "c": 103, "d": 104}
INVALID = "x"
POST_INIT_DELTA = 1000

STYLES = ["raise", "y_msg", "y_alias", "y_index", "y_raw", "y_astr", "y_tuple", "y_int", "y_two", "y_two_k", "y_deep_then_bare", "y_bare_twice", "y_empty", "raise_children"]
FSTYLES = ["raise", "y_msg", "y_raw", "y_astr", "y_tuple", "y_two", "y_two_k", "y_deep_then_bare", "y_bare_twice"]  # styles usable by function validators on a field value
VIAS = ["direct", "method", "property", "method2"]

ALIASERS = {None: None, "upper": str.upper, "prefix": lambda s: "p_" + s}


def aliaser_fn(name):
    return ALIASERS[name] or (lambda s: s)


def ext_name(spec, fname):
    """external name of a field: aliaser(alias or name)"""
    f = field_of(spec, fname)
    return aliaser_fn(spec.get("aliaser"))(f.get("alias") or fname)


def field_of(spec, fname):
    for f in spec["fields"]:
        if f["n"] == fname:
            return f
    raise KeyError(fname)


def is_initvar(f):
    return f["kind"] in ("ivreq", "ivdflt")


def is_required(f):
    return f["kind"] in ("req", "ivreq")


def error_paths(style, name, pf_alias, al):
    """[(path tuple, message)] produced by a failing validator of this style (before any field= prefix).
    pf_alias: static alias of the field named by get_alias(self).<pf>; al: the dynamic aliaser function."""
    m = "V:" + name
    if style in ("raise", "y_msg", "y_empty"):
        return [((), m)]
    if style == "y_alias":
        return [((al(pf_alias),), m)]
    if style == "y_index":
        return [((al(pf_alias), 1), m)]
    if style == "y_raw":
        return [(("k",), m)]
    if style == "y_astr":
        return [((al("q"),), m)]
    if style == "y_tuple":
        return [(("k", 2, al("z")), m)]
    if style == "y_int":
        return [((3,), m)]
    if style == "y_two":
        return [((), m + ":1"), (("k",), m + ":2")]
    if style == "y_two_k":
        return [(("k", 0), m + ":1"), (("k", 1), m + ":2")]
    if style == "y_deep_then_bare":  # a located error below a key, then one at that very key given as a bare path
        return [(("k", 0), m + ":1"), (("k",), m + ":2")]
    if style == "y_bare_twice":
        return [(("k",), m + ":1"), (("k",), m + ":2")]
    if style == "raise_children":
        return [((), m), (("k",), m + ":c")]
    raise ValueError(style)


def _fail_code(style, name, selfname, pf):
    m = "V:" + name
    ga = f"get_alias({selfname}).{pf}" if pf else "'k'"
    body = {
        "raise": [f"raise ValidationError({m!r})"],
        "y_msg": [f"yield {m!r}"],
        "y_empty": [f"yield (), {m!r}"],
        "y_alias": [f"yield {ga}, {m!r}"],
        "y_index": [f"yield ({ga}, 1), {m!r}"],
        "y_raw": [f"yield 'k', {m!r}"],
        "y_astr": [f"yield AliasedStr('q'), {m!r}"],
        "y_tuple": [f"yield ('k', 2, AliasedStr('z')), {m!r}"],
        "y_int": [f"yield 3, {m!r}"],
        "y_two": [f"yield {m + ':1'!r}", f"yield 'k', {m + ':2'!r}"],
        "y_two_k": [f"yield ('k', 0), {m + ':1'!r}", f"yield ['k', 1], {m + ':2'!r}"],
        "y_deep_then_bare": [f"yield ('k', 0), {m + ':1'!r}", f"yield 'k', {m + ':2'!r}"],
        "y_bare_twice": [f"yield 'k', {m + ':1'!r}", f"yield 'k', {m + ':2'!r}"],
        "raise_children": [f"raise ValidationError([{m!r}], {{'k': ValidationError([{m + ':c'!r}])}})"],
    }[style]
    return body


def _read_expr(selfname, fname, via):
    return {"direct": f"{selfname}.{fname}", "method": f"{selfname}.get_{fname}()", "property": f"{selfname}.p_{fname}",
            "method2": f"{selfname}.m2_{fname}()"}[via]


def _validator_src(v, spec, indent, selfname, cls_for_ext=None):
    """source lines of one class validator (method or external function)"""
    pad = " " * indent
    own_fields = {f["n"] for f in spec["fields"] if bool(f.get("base")) == (v["where"] == "base")} if spec.get("base") else {f["n"] for f in spec["fields"]}

    def ref(fname):
        if v["where"] == "ext":
            return f"get_field({cls_for_ext}).{fname}" if v.get("ref") == "obj" else repr(fname)
        if v.get("ref") == "obj" and fname in own_fields:
            return fname
        return repr(fname)

    args = []
    if v.get("field"):
        args.append(ref(v["field"]) if v.get("field_kw") is not True else "field=" + ref(v["field"]))
    if v.get("discard_empty"):
        args.append("discard=()")
    elif v.get("discard"):
        d = v["discard"]
        args.append("discard=" + (ref(d[0]) if len(d) == 1 and v.get("discard_scalar", True) else "[" + ", ".join(ref(x) for x in d) + "]"))
    deco = "@validator" + (f"({', '.join(args)})" if args else "")
    params = [selfname + (f": {cls_for_ext}" if cls_for_ext else "")] + list(v.get("params") or [])
    reads = ", ".join(f"({fn!r}, {_read_expr(selfname, fn, via)})" for fn, via in v["reads"])
    preads = ", ".join(f"({p!r}, {p})" for p in (v.get("params") or []))
    allreads = ", ".join(x for x in (reads, preads) if x)
    lines = [pad + deco, pad + f"def {v['n']}({', '.join(params)}):",
             pad + f"    H['log'].append(({v['n']!r}, ({allreads}{',' if allreads else ''})))",
             pad + f"    if {v['n']!r} in H['fail']:"]
    lines += [pad + "        " + ln for ln in _fail_code(v["style"], v["n"], selfname, v.get("pf"))]
    return lines


def _fn_validator_src(name, style, deco=None, ann=None):
    lines = []
    if deco:
        lines.append(deco)
    lines += [f"def {name}(x{': ' + ann if ann else ''}):", f"    H['log'].append(({name!r}, (('x', x),)))", f"    if {name!r} in H['fail']:"]
    lines += ["        " + ln for ln in _fail_code(style, name, "x", None)]
    return lines


PRELUDE = """from dataclasses import InitVar, dataclass, field
from typing import NewType
from apischema import ValidationError, alias, validator
from apischema.metadata import init_var, post_init, validators
from apischema.objects import AliasedStr, get_alias, get_field
H = {'log': [], 'fail': set(), 'ctor': 0}
"""


def field_validator_names(f):
    return [f"fv_{f['n']}_{i}" for i in range(len(f.get("fv") or []))] + [f"nt_{f['n']}_{i}" for i in range(len(f.get("nt") or []))]


def emit(spec):
    name = spec["name"]
    out = [PRELUDE]
    # field-level function validators / NewTypes
    for f in spec["fields"]:
        if f.get("nt"):
            out.append(f"NT_{f['n']} = NewType('NT_{name}_{f['n']}', int)")
            for i, st in enumerate(f["nt"]):
                out += _fn_validator_src(f"nt_{f['n']}_{i}", st, "@validator", f"NT_{f['n']}")
        for i, st in enumerate(f.get("fv") or []):
            out += _fn_validator_src(f"fv_{f['n']}_{i}", st)
    has_base = bool(spec.get("base"))
    groups = [("base", [f for f in spec["fields"] if f.get("base")]), ("own", [f for f in spec["fields"] if not f.get("base")])] if has_base else [("own", spec["fields"])]
    ivs = [f["n"] for f in spec["fields"] if is_initvar(f)]
    used_vias = {(fn, via) for v in spec["validators"] for fn, via in v["reads"]}
    for part, fields in groups:
        cname = name + "Base" if part == "base" else name
        parent = f"({name}Base)" if (part == "own" and has_base) else ""
        out.append("@dataclass")
        out.append(f"class {cname}{parent}:")
        body = []
        for f in fields:
            tp = f"NT_{f['n']}" if f.get("nt") else "int"
            md = []
            if f.get("alias"):
                md.append(f"alias({f['alias']!r})")
            if is_initvar(f):
                md.append(f"init_var({tp})")
            if f.get("post_init"):
                md.append("post_init")
            if f.get("fv"):
                md.append("validators(" + ", ".join(f"fv_{f['n']}_{i}" for i in range(len(f["fv"]))) + ")")
            kw = []
            if not is_required(f):
                kw.append(f"default={DEFAULT[f['n']]}")
            if md:
                kw.append("metadata=" + " | ".join(md))
            ann = f"InitVar[{tp}]" if is_initvar(f) else tp
            body.append(f"    {f['n']}: {ann} = field({', '.join(kw)})")
        for f in fields:
            fn = f["n"]
            if (fn, "method") in used_vias or (fn, "method2") in used_vias:
                body += [f"    def get_{fn}(self):", f"        return self.{fn}"]
            if (fn, "method2") in used_vias:
                body += [f"    def m2_{fn}(self):", f"        return self.get_{fn}()"]
            if (fn, "property") in used_vias:
                body += ["    @property", f"    def p_{fn}(self):", f"        return self.{fn}"]
        if part == "own":
            pi = [f["n"] for f in spec["fields"] if f.get("post_init")]
            if spec.get("ctor") == "post_init" or pi:
                body.append(f"    def __post_init__({', '.join(['self'] + ivs)}):")
                if spec.get("ctor") == "post_init":
                    body.append("        H['ctor'] += 1")
                for fn in pi:
                    body.append(f"        self.{fn} = self.{fn} + {POST_INIT_DELTA}")
                if spec.get("ctor") != "post_init" and not pi:
                    body.append("        pass")
        for v in spec["validators"]:
            if v["where"] == part:
                body += _validator_src(v, spec, 4, "self")
        if not body:
            body = ["    pass"]
        out += body
    if spec.get("ctor") == "init":
        out += [f"_orig_init = {name}.__init__", "def _counted_init(self, *args, **kwargs):", "    H['ctor'] += 1", "    _orig_init(self, *args, **kwargs)",
                f"{name}.__init__ = _counted_init"]
    for v in spec["validators"]:
        if v["where"] == "ext":
            out += _validator_src(v, spec, 0, "o", cls_for_ext=name)
    av = spec.get("arg_validator")
    if av:
        reads = ", ".join(f"({fn!r}, o.{fn})" for fn in av["reads"])
        out += [f"def {av['n']}(o):", f"    H['log'].append(({av['n']!r}, ({reads}{',' if reads else ''})))", f"    if {av['n']!r} in H['fail']:"]
        out += ["        " + ln for ln in _fail_code(av["style"], av["n"], "o", None)]
    out.append(f"T = {name}")
    return "\n".join(out) + "\n"


_counter = [0]


class Loaded:
    """a spec materialised as a synthetic module"""

    def __init__(self, spec, source=None):
        self.spec = spec
        self.source = source or emit(spec)
        _counter[0] += 1
        self.modname = f"vfc10_{_counter[0]}"
        mod = types.ModuleType(self.modname)
        fn = f"<{self.modname}>"
        mod.__file__ = fn
        linecache.cache[fn] = (len(self.source), None, self.source.splitlines(True), fn)
        sys.modules[self.modname] = mod
        try:
            exec(compile(self.source, fn, "exec"), mod.__dict__)
        except BaseException:
            self.unload()
            raise
        self.module = mod
        self.T = mod.T
        self.H = mod.H

    def unload(self):
        sys.modules.pop(self.modname, None)
        linecache.cache.pop(f"<{self.modname}>", None)


# ---------------------------------------------------------------- enumeration of the core space

def core_validator_choices(n):
    """(deps tuple (non-empty subset of the n fields), discard: None | one field)"""
    names = FIELD_NAMES[:n]
    out = []
    for mask in range(1, 2 ** n):
        deps = tuple(names[i] for i in range(n) if mask >> i & 1)
        for d in [None] + names:
            out.append((deps, d))
    return out


def _renamings(n, nreq):
    """field renamings that keep the kinds: permutations of the required fields x permutations of the defaulted fields"""
    names = FIELD_NAMES[:n]
    out = []
    for p1 in itertools.permutations(names[:nreq]):
        for p2 in itertools.permutations(names[nreq:]):
            out.append(dict(zip(names, p1 + p2)))
    return out


def _vs_key(vs):
    return tuple((deps, disc or "") for deps, disc in vs)


def is_canonical(n, nreq, vs, renamings):
    """is this validator tuple the least one among its images under kind-preserving field renamings?"""
    key = _vs_key(vs)
    for r in renamings[1:]:
        img = tuple((tuple(sorted(r[d] for d in deps)), r[disc] if disc else "") for deps, disc in vs)
        if img < key:
            return False
    return True


def core_shapes(max_fields=3, max_validators=3):
    """every core shape up to renaming of fields of the same kind: n fields (k required first, then defaulted), m validators each
    with a non-empty dependency set and an optional single-field discard.
    Yields (index, shape) with shape = (n, nreq, ((deps, discard), ...))."""
    i = 0
    for n in range(1, max_fields + 1):
        choices = core_validator_choices(n)
        for nreq in range(n + 1):
            ren = _renamings(n, nreq)
            for m in range(1, max_validators + 1):
                for vs in itertools.product(choices, repeat=m):
                    if len(ren) > 1 and not is_canonical(n, nreq, vs, ren):
                        continue
                    yield i, (n, nreq, vs)
                    i += 1


_core_count = {}


def core_count(max_fields=3, max_validators=3):
    key = (max_fields, max_validators)
    if key not in _core_count:
        _core_count[key] = sum(1 for _ in core_shapes(max_fields, max_validators))
    return _core_count[key]


def plain_spec(shape, name):
    n, nreq, vs = shape
    fields = [{"n": FIELD_NAMES[i], "kind": "req" if i < nreq else "dflt"} for i in range(n)]
    validators = [{"n": f"v{j}", "reads": [[d, "direct"] for d in deps], "params": [], "field": None, "discard": [disc] if disc else None,
                   "ref": "obj", "style": "raise", "pf": None, "where": "own"} for j, (deps, disc) in enumerate(vs)]
    return {"name": name, "base": False, "ctor": "post_init", "aliaser": None, "fields": fields, "validators": validators, "arg_validator": None}


def random_shape(rng, max_fields=4, max_validators=4, allow_empty=True):
    n = rng.randint(1, max_fields)
    m = rng.randint(1, max_validators)
    nreq = rng.randint(0, n)
    names = FIELD_NAMES[:n]
    vs = []
    for _ in range(m):
        k = rng.random()
        if allow_empty and k < 0.04:
            deps = ()
        else:
            size = min(n, rng.choice([1, 1, 2, 2, 3, 4]))
            deps = tuple(sorted(rng.sample(names, size)))
        disc = rng.choice(names) if rng.random() < 0.45 else None
        vs.append((deps, disc))
    return (n, nreq, tuple(vs))


def decorate(shape, name, rng, level=1.0):
    """a decorated spec of the shape: aliases, dynamic aliaser, InitVars, post_init, helper methods / properties, yield styles,
    field= / multi-field discard declarations, base class, external function validators, field-level validators, NewTypes."""
    spec = plain_spec(shape, name)
    n = len(spec["fields"])
    p = lambda x: rng.random() < x * level  # noqa: E731
    spec["ctor"] = rng.choice(["post_init", "init"])
    spec["aliaser"] = rng.choice([None, None, "upper", "prefix"])
    alias_mode = rng.choice(["none", "some", "all", "swap"] if n > 1 else ["none", "some", "all"])
    for i, f in enumerate(spec["fields"]):
        if alias_mode == "all" or (alias_mode == "some" and p(0.5)):
            f["alias"] = "x" + f["n"]
        if p(0.2):
            f["kind"] = {"req": "ivreq", "dflt": "ivdflt"}[f["kind"]]
        elif p(0.15):
            f["post_init"] = True
        if p(0.15):
            f["fv"] = [rng.choice(FSTYLES) for _ in range(rng.choice([1, 1, 2]))]
        if p(0.12):
            f["nt"] = [rng.choice(FSTYLES) for _ in range(rng.choice([1, 1, 2]))]
    if alias_mode == "swap":
        a, b = rng.sample(range(n), 2)
        spec["fields"][a]["alias"], spec["fields"][b]["alias"] = spec["fields"][b]["n"], spec["fields"][a]["n"]
    # dataclass ordering: required before defaulted is already guaranteed by the shape (kinds keep their required-ness)
    nbase = 0
    if p(0.3):
        nreq = sum(1 for f in spec["fields"] if is_required(f))
        # base takes a prefix; the remaining (own) fields must not put a required field after a defaulted base field
        cands = [k for k in range(1, n + 1) if k <= nreq or all(not is_required(f) for f in spec["fields"][k:])]
        if cands:
            nbase = rng.choice(cands)
            spec["base"] = True
            for f in spec["fields"][:nbase]:
                f["base"] = True
    base_fields = {f["n"] for f in spec["fields"][:nbase]}
    ivs = {f["n"] for f in spec["fields"] if is_initvar(f)}
    for v in spec["validators"]:
        deps = [fn for fn, _ in v["reads"]]
        v["params"] = [d for d in deps if d in ivs]
        v["reads"] = [[d, rng.choice(VIAS) if p(0.5) else "direct"] for d in deps if d not in ivs]
        v["style"] = rng.choice(STYLES) if p(0.7) else "raise"
        v["pf"] = rng.choice([f["n"] for f in spec["fields"]])
        v["ref"] = rng.choice(["obj", "str"])
        if v["discard"]:
            k = rng.random()
            if k < 0.3 * level:
                # field= declaration: errors go under the field, default discard = that field
                v["field"] = v["discard"][0]
                v["discard"] = None
                v["field_kw"] = p(0.3)
                if p(0.3):
                    v["discard_empty"] = True  # @validator(field, discard=()): explicit "discard nothing"
            elif k < 0.45 * level and n > 1:
                # field= and an explicit discard of other fields
                v["field"] = rng.choice([f["n"] for f in spec["fields"]])
                v["field_kw"] = p(0.3)
            elif k < 0.6 * level and n > 1:
                extra = rng.choice([f["n"] for f in spec["fields"] if f["n"] != v["discard"][0]])
                v["discard"] = [v["discard"][0], extra]
            elif k < 0.7 * level:
                v["discard_scalar"] = False
        where = "own"
        if spec.get("base") and set(deps) <= base_fields and set(v["discard"] or []) | ({v["field"]} if v["field"] else set()) <= base_fields and p(0.6):
            where = "base"
            if v["pf"] not in base_fields:
                v["pf"] = rng.choice(sorted(base_fields))
        elif p(0.15):
            where = "ext"
        v["where"] = where
    # helper methods live in the class declaring the field: a base validator may only use base helpers (guaranteed: deps ⊆ base)
    if p(0.06):
        normal = [f["n"] for f in spec["fields"] if not is_initvar(f)]
        if normal:
            spec["arg_validator"] = {"n": "av", "reads": sorted(rng.sample(normal, rng.randint(1, min(2, len(normal))))), "style": rng.choice(["raise", "y_msg", "y_raw"]), "via": rng.choice(["arg", "annotated"])}
    return spec


def all_validator_names(spec):
    names = []
    for f in spec["fields"]:
        names += field_validator_names(f)
    names += [v["n"] for v in spec["validators"]]
    if spec.get("arg_validator"):
        names.append(spec["arg_validator"]["n"])
    return names
