"""C12 workload: conversion graphs over opaque classes + the *placement model* (which conversion is
documented to apply at which occurrence) + erasure to a conversion-free reference type.

A graph is a TypeSpec tree (vf.spec nodes) in which `ConvT` leaves are occurrences of opaque classes
(`OpClass`).  Every class owns *roles*: converters (deserializer S -> K and serializer K -> S built from
vf.c12_rt.mk / unmk, stamped with a tag) that are made available through one placement:
  reg  registered (@deserializer / Conversion / lazy) -- or handed out by a `default_conversion` function,
  dyn  passed with `conversion=`,
  fld  declared on a field with `metadata=conversion(...)`,
  sub  used as `sub_conversion` of another role.
`resolve` implements the documented placement laws and returns the tree in which every occurrence is
replaced by an `Exp` node (the role(s) that must apply there, with their resolved sources);
`erase` turns that into a plain type (occurrence -> source type [merged with K's own schema annotations]).
"""
import dataclasses
from dataclasses import dataclass, field as dfield
from typing import Any, Dict, List, Optional

from vf.spec import (Ann, Coll, F, MapT, NewT, ObjectT, Prim, T, Tup, Union_, cons_src, opt, strip)


class Unsup(Exception):
    """the placement laws say this occurrence has no applicable conversion (opaque class -> Unsupported)"""


class Abstain(Exception):
    """statement and documentation are silent / ambiguous for this graph"""


# ---------------------------------------------------------------- nodes
@dataclass
class TVarT(T):
    name: str

    def ann(self):
        return self.name

    def sig(self):
        return "tvar"

    def collect(self, decls):
        pass


@dataclass
class AnnX(T):
    """Annotated[t, schema(**kw)] with arbitrary schema keywords (reference side only)"""
    t: T
    kw: Dict[str, Any]

    def ann(self):
        return "Annotated[{}, schema({})]".format(self.t.ann(), cons_src(self.kw))

    def children(self):
        return [self.t]

    def sig(self):
        return f"annx<{self.t.sig()}>"

    def valid(self, rng, cx, depth=0):
        return self.t.valid(rng, cx, depth)


class Role:
    def __init__(self, cls, kind, idx, src, mode=None, catch=False, style="func", sub=()):
        self.cls, self.kind, self.idx, self.src = cls, kind, idx, src
        self.mode, self.catch, self.style, self.sub = mode, catch, style, list(sub)
        self.tag = f"{cls.name}.{kind}{idx}"

    def __repr__(self):
        return f"Role({self.tag})"


class OpClass:
    def __init__(self, name, kind="opaque", tvar=None, ann=None):
        self.name, self.kind, self.tvar = name, kind, tvar  # kind: opaque | ml | generic
        self.ann = ann  # own schema(...) keywords or None
        self.roles: Dict[str, List[Role]] = {"reg": [], "dyn": [], "fld": [], "sub": []}

    def add(self, kind, src, **kw):
        r = Role(self, kind, len(self.roles[kind]), src, **kw)
        self.roles[kind].append(r)
        return r

    def all_roles(self):
        return [r for k in ("reg", "dyn", "fld", "sub") for r in self.roles[k]]

    # ---- source of the class, its converters and conversion objects
    def target_ann(self):
        return f"{self.name}[{self.tvar}]" if self.tvar else self.name

    def source(self):
        out = []
        if self.tvar:
            out.append(f"{self.tvar} = TypeVar({self.tvar!r})")
        if self.ann:
            out.append(f"@schema({cons_src(self.ann)})")
        if self.kind == "ml":
            out.append(f"class {self.name}(list):\n    _vf_ml = True\n    tag = '?'\n")
        elif self.tvar:
            out.append(f"class {self.name}(OpBase, Generic[{self.tvar}]):\n    pass\n")
        else:
            out.append(f"class {self.name}(OpBase):\n    pass\n")
        out.append(f"CLS[{self.name!r}] = {self.name}")
        for r in self.all_roles():
            out.append(self.role_source(r))
        return "\n".join(out) + "\n"

    def role_source(self, r):
        n, tg, src = self.name, r.tag, r.src.ann()
        ident = tg.replace(".", "_")
        lines = []
        if self.kind == "ml":
            lines.append(f"def f_{ident}(s: {src}) -> {self.target_ann()}:\n    o = {n}(s)\n    o.tag = {tg!r}\n    return o")
            lines.append(f"def g_{ident}(o: {self.target_ann()}) -> {src}:\n    return list(unmk_ml(o, ({tg!r},)))")
        else:
            lines.append(f"def f_{ident}(s: {src}) -> {self.target_ann()}:\n    return mk({n}, {tg!r}, s, {r.mode!r})")
            lines.append(f"def g_{ident}(o: {self.target_ann()}) -> {src}:\n    return unmk(o, ({tg!r},))")
        f, g = f"f_{ident}", f"g_{ident}"
        if r.catch:
            lines.append(f"fc_{ident} = catch_value_error(f_{ident})")
            f = f"fc_{ident}"
        style = r.style
        if r.sub and style == "func":
            style = "conv"
        if style == "func":
            des, ser = f, g
        else:
            fu = f"catch_value_error(untyped(f_{ident}))" if r.catch else f"untyped(f_{ident})"
            subd = subs = ""
            if r.sub:
                subd = ", sub_conversion=({},)".format(", ".join(f"DES[{s.tag!r}]" for s in r.sub))
                subs = ", sub_conversion=({},)".format(", ".join(f"SER[{s.tag!r}]" for s in r.sub))
            des = f"Conversion({fu}, source={src}, target={self.target_ann()}{subd})"
            ser = f"Conversion(untyped({g}), source={self.target_ann()}, target={src}{subs})"
            if style == "lazy":
                lines.append(f"LAZY_DES[{tg!r}] = lambda: {des}")
                lines.append(f"LAZY_SER[{tg!r}] = lambda: {ser}")
                des, ser = f"LazyConversion(LAZY_DES[{tg!r}])", f"LazyConversion(LAZY_SER[{tg!r}])"
        lines.append(f"DES[{tg!r}] = {des}")
        lines.append(f"SER[{tg!r}] = {ser}")
        return "\n".join(lines)


@dataclass
class ConvT(T):
    cls: Any  # OpClass
    args: List[T] = dfield(default_factory=list)

    def ann(self):
        if self.args:
            return f"{self.cls.name}[{', '.join(a.ann() for a in self.args)}]"
        return self.cls.name

    def sig(self):
        k = self.cls
        roles = ",".join(f"{kind}{len(rs)}" for kind, rs in k.roles.items() if rs)
        feats = "".join(sorted({(r.mode or "")[:1] + ("c" if r.catch else "") + r.style[0] + ("s" if r.sub else "") for r in k.all_roles()}))
        srcs = "|".join(r.src.sig() for r in k.roles["reg"][:3])
        return f"conv<{k.kind}{'A' if k.ann else ''};{roles};{feats};{srcs};{','.join(a.sig() for a in self.args)}>"

    def collect(self, decls):
        k = self.cls
        for a in self.args:
            a.collect(decls)
        if k.name in decls:
            return
        decls[k.name] = None
        for r in k.all_roles():
            r.src.collect(decls)
            for s in r.sub:
                ConvT(s.cls).collect(decls)
        del decls[k.name]
        decls[k.name] = k.source()


@dataclass
class Exp(T):
    """resolved occurrence: the roles that must apply here (in order) with their resolved sources"""
    cls: Any
    alts: list  # [(Role, resolved source tree)]
    dynamic: bool
    args: List[T] = dfield(default_factory=list)

    def children(self):
        return [s for _, s in self.alts]

    def sig(self):
        return "exp"


def has_conv(t):
    return any(isinstance(n, (ConvT, Exp)) for n in walk_all(t))


def walk_all(t):
    """like T.walk but also enters generic arguments of occurrences"""
    yield t
    if isinstance(t, ConvT):
        for a in t.args:
            yield from walk_all(a)
    for c in t.children():
        yield from walk_all(c)


def subst(t, tvar, args):
    if tvar is None or not args:
        return t
    return tmap(t, lambda n: args[0] if isinstance(n, TVarT) and n.name == tvar else None)


def tmap(t, fn):
    """rebuild a tree; fn(node) -> replacement or None (=descend).  Only the wrapper constructors are
    descended into; any other node is returned as is."""
    r = fn(t)
    if r is not None:
        return r
    if isinstance(t, Coll):
        return Coll(t.c, tmap(t.e, fn))
    if isinstance(t, Tup):
        return Tup([tmap(e, fn) for e in t.es])
    if isinstance(t, MapT):
        return MapT(t.c, t.k, tmap(t.v, fn))
    if isinstance(t, Union_):
        return Union_([tmap(a, fn) for a in t.alts])
    if isinstance(t, ConvT) and t.args:
        return ConvT(t.cls, [tmap(a, fn) for a in t.args])
    return t


# ---------------------------------------------------------------- placement model
def resolve(t, dyn, reg, ser=False):
    """t: op-level type; dyn: tuple of Roles currently passed dynamically; reg: {OpClass: [Role]} default
    conversions.  ser=True: serialization view (a single conversion per class: the first matching one)."""
    if isinstance(t, ConvT):
        k = t.cls
        cands = [r for r in dyn if r.cls is k]
        if cands:
            alts, dynamic = cands, True
        else:
            alts, dynamic = list(reg.get(k, [])), False
            if not alts:
                raise Unsup(k.name)
        if ser:
            if len(alts) > 1 and not dynamic:
                raise Abstain("serialization of a class with several registered deserializers")
            alts = alts[:1]
        out = []
        for r in alts:
            src = subst(r.src, k.tvar, t.args)
            nxt = tuple(r.sub)
            if not dynamic and k.kind == "ml":
                nxt = nxt + tuple(dyn)  # documented: a registered conversion of a container keeps the dynamic one
            elif not dynamic and dyn and has_conv(src) and set(all_classes_deep(src)) & {d.cls for d in dyn}:
                # "a registered conversion from/to a container" is ambiguous for a non-collection class
                raise Abstain("dynamic conversion below a registered conversion of a non-collection class")
            out.append((r, resolve(src, nxt, reg, ser)))
        return Exp(k, out, dynamic, list(t.args))
    if not has_conv(t):
        return t
    if isinstance(t, Coll):
        return Coll(t.c, resolve(t.e, dyn, reg, ser))
    if isinstance(t, Tup):
        return Tup([resolve(e, dyn, reg, ser) for e in t.es])
    if isinstance(t, MapT):
        return MapT(t.c, t.k, resolve(t.v, dyn, reg, ser))
    if isinstance(t, Union_):
        alts = []
        for a in t.alts:
            try:
                alts.append(resolve(a, dyn, reg, ser))
            except Unsup:
                raise Abstain("union alternative without conversion")
        return Union_(alts)
    if isinstance(t, ObjectT):
        fields = []
        for f in t.fields:
            f2 = dataclasses.replace(f)
            f2.t = resolve(f.t, tuple(getattr(f, "conv_roles", ())), reg, ser)  # dynamic conversions are local
            fields.append(f2)
        return dataclasses.replace(t, fields=fields)
    raise AssertionError(f"unexpected wrapper node {type(t).__name__}")


def _reachable_classes(t):
    """classes occurring in t without crossing an object (where a dynamic conversion could land)"""
    out = set()

    def rec(n):
        if isinstance(n, ConvT):
            out.add(n.cls)
        elif isinstance(n, (Coll, Tup, MapT, Union_)):
            for c in n.children():
                rec(c)

    rec(t)
    return out


def erase(t, annot, suffix):
    """resolved tree -> conversion-free reference type.  annot: 'nondyn' (K's own schema annotations are
    merged where the conversion is not dynamic), 'all' or 'none'."""
    if isinstance(t, Exp):
        srcs = [erase(s, annot, suffix) for _, s in t.alts]
        k = t.cls
        if k.ann and (annot == "all" or (annot == "nondyn" and not t.dynamic)):
            srcs = [AnnX(s, dict(k.ann)) for s in srcs]
        return srcs[0] if len(srcs) == 1 else Union_(srcs)
    if not has_conv(t):
        return t
    if isinstance(t, Coll):
        return Coll(t.c, erase(t.e, annot, suffix))
    if isinstance(t, Tup):
        return Tup([erase(e, annot, suffix) for e in t.es])
    if isinstance(t, MapT):
        return MapT(t.c, t.k, erase(t.v, annot, suffix))
    if isinstance(t, Union_):
        return Union_([erase(a, annot, suffix) for a in t.alts])
    if isinstance(t, ObjectT):
        fields = []
        for f in t.fields:
            f2 = dataclasses.replace(f, extra_md=[])
            f2.t = erase(f.t, annot, suffix)
            fields.append(f2)
        return dataclasses.replace(t, name=t.name + suffix, fields=fields)
    raise AssertionError(type(t).__name__)


def exp_nodes(t):
    for n in walk_all(t):
        if isinstance(n, Exp):
            yield n


def strictness(t):
    """'exact' when error lists must be equal; 'verdict' when the converted side contains a union that the reference
    type words differently: a non-Optional union around an occurrence (by-type shortcut on the reference side), an
    occurrence with several alternatives, or a union one of whose alternatives converts from a union itself
    (typing flattens Optional[Optional[X]] on the reference side only)."""
    for n in walk_all(t):
        if isinstance(n, Exp) and len(n.alts) > 1:
            return "verdict"
        if isinstance(n, Union_) and has_conv(n):
            non_none = [a for a in n.alts if not (isinstance(a, Prim) and a.p == "none")]
            if len(non_none) > 1:
                return "verdict"
            sigs = []
            for a in n.alts:
                while isinstance(a, Exp) and len(a.alts) == 1:
                    a = a.alts[0][1]
                if isinstance(strip(a), Union_):
                    return "verdict"
                sigs.append(a.sig() if not isinstance(a, Exp) else id(a))
            if len(set(sigs)) < len(sigs):  # typing removes duplicate alternatives on the reference side only
                return "verdict"
    return "exact"


def conforms(v, t, classes):
    """None when value v carries opaque instances exactly where the resolved tree says, with the expected tags;
    else a short description of the first mismatch."""
    from vf.c12_rt import contains_opaque

    if isinstance(t, Exp):
        cls = classes[t.cls.name]
        if type(v) is not cls:
            return f"expected an instance of {t.cls.kind} class, got {type(v).__name__}"
        for r, src in t.alts:
            if getattr(v, "tag", None) == r.tag:
                return conforms(list(v) if t.cls.kind == "ml" else v.v, src, classes)
        return f"tag {getattr(v, 'tag', None)} not among expected {[r.tag for r, _ in t.alts]}"
    if not has_conv(t):
        return "opaque instance inside a conversion-free type" if contains_opaque(v) else None
    if isinstance(t, Coll):
        import collections
        if not isinstance(v, (list, tuple, set, frozenset, collections.deque)):
            return f"collection expected, got {type(v).__name__}"
        for e in v:
            r = conforms(e, t.e, classes)
            if r:
                return r
        return None
    if isinstance(t, Tup):
        if not isinstance(v, tuple) or len(v) != len(t.es):
            return "tuple expected"
        for e, et in zip(v, t.es):
            r = conforms(e, et, classes)
            if r:
                return r
        return None
    if isinstance(t, MapT):
        if not isinstance(v, dict):
            return "mapping expected"
        for e in v.values():
            r = conforms(e, t.v, classes)
            if r:
                return r
        return None
    if isinstance(t, Union_):
        rs = [conforms(v, a, classes) for a in t.alts]
        return None if any(r is None for r in rs) else "no union alternative conforms: " + "; ".join(map(str, rs))[:200]
    if isinstance(t, ObjectT):
        for f in t.fields:
            if t.kind == "typeddict":
                if not isinstance(v, dict):
                    return "dict expected"
                if f.name not in v:
                    continue
                x = v[f.name]
            else:
                if not hasattr(v, f.name):
                    return f"attribute {f.name} missing"
                x = getattr(v, f.name)
            r = conforms(x, f.t, classes)
            if r:
                return f"field: {r}"
        return None
    raise AssertionError(type(t).__name__)


# ---------------------------------------------------------------- generator
DOC_ANN = [{"description": "own description"}, {"title": "OwnTitle", "description": "d"}, {"title": "T"}, {"deprecated": True}]


def own_cons(src):
    """a lenient constraint of K itself matching the JSON kind of its source"""
    b = strip(src)
    if isinstance(src, Ann) or isinstance(b, Union_):
        return None
    if isinstance(b, Coll) and b.c not in ("set", "absset", "frozenset", "mutset"):
        return {"max_items": 2}
    if isinstance(b, Prim) and b.p == "str":
        return {"max_len": 3}
    if isinstance(b, Prim) and b.p in ("int", "float"):
        return {"max": 9}
    if isinstance(b, MapT):
        return {"max_props": 1}
    return None


class GraphGen:
    def __init__(self, rng, gen):
        self.rng, self.g = rng, gen
        self.classes: List[OpClass] = []

    def fresh_class(self, kind="opaque"):
        name = self.g.fresh({"opaque": "K", "ml": "ML", "generic": "GK"}[kind])
        k = OpClass(name, kind, tvar=f"TV_{name}" if kind == "generic" else None)
        self.classes.append(k)
        return k

    def leaf(self, small=False):
        r, g = self.rng, self.g
        save = g.max_depth
        g.max_depth = 1 if small else r.choice([1, 2, 2, 3])
        try:
            k = r.random()
            if k < 0.2:
                return g.prim(["int", "str", "float", "bool", "int", "str"])
            if k < 0.35:
                return g.object(0, kind="dataclass")
            return g.type(0)
        finally:
            g.max_depth = save

    def style(self):
        return self.rng.choice(["func", "func", "conv", "conv", "lazy"])

    def src_around(self, inner):
        """source type of the next class of a chain, built around an occurrence of the previous one"""
        r = self.rng
        k = r.random()
        if k < 0.3:
            return inner
        if k < 0.5:
            return Coll(r.choice(["list", "seq", "vartuple"]), inner)
        if k < 0.65:
            return MapT("dict", Prim("str"), inner)
        if k < 0.8:
            return Tup([inner, Prim(r.choice(["int", "str"]))])
        if k < 0.9:
            return opt(inner)
        return Coll("list", opt(inner))

    def opaque(self, src, allow_ann=True, allow_dyn=True, allow_raise=False):
        """a fresh opaque class converted from src (registered role) + optional dyn / sub machinery"""
        r = self.rng
        k = self.fresh_class()
        mode, catch = None, False
        if allow_raise and r.random() < 0.6:
            mode = r.choice(["verr", "value", "value"])
            catch = mode == "value" and r.random() < 0.7
        subs = self.sub_roles(src)
        k.add("reg", src, mode=mode, catch=catch, style=self.style(), sub=subs)
        if allow_ann and r.random() < 0.35:
            k.ann = dict(r.choice(DOC_ANN))
            c = own_cons(src)
            same_src_dyn = False
            if c and not allow_dyn and r.random() < 0.6:
                k.ann.update(c)
                k.locked = True  # own constraints: only ever used through its registered role
            elif c and allow_dyn and r.random() < 0.4:
                # own constraints and a dynamic conversion from the very same source type: the constraints apply through the
                # registered role and do not through the dynamic one (same JSON kind, so they are meaningful in both schemas)
                k.ann.update(c)
                same_src_dyn = True
        else:
            same_src_dyn = False
        if allow_dyn and (same_src_dyn or r.random() < 0.6):
            dsrc = src if same_src_dyn or r.random() < 0.5 or has_conv(src) else self.leaf(small=True)
            k.add("dyn", dsrc, style=self.style(), sub=self.sub_roles(dsrc))
        return k

    def sub_roles(self, src):
        """with some probability give the classes reachable in src a `sub` role (used as sub_conversion)"""
        out = []
        if has_conv(src) and self.rng.random() < 0.5:
            for c in sorted(_reachable_classes(src), key=lambda c: c.name):
                if c.kind != "opaque" or not c.roles["reg"] or getattr(c, "locked", False):
                    continue
                if not c.roles["sub"]:
                    base = c.roles["reg"][0].src
                    c.add("sub", base if self.rng.random() < 0.6 or has_conv(base) else self.leaf(small=True), style=self.style())
                out.append(c.roles["sub"][0])
        return out

    def hole(self, pool):
        return ConvT(self.rng.choice(pool))

    def wrapper(self, pool, depth=0, in_obj=False):
        """a type around occurrences of the classes of pool (containers, unions, tuples, objects, ML)"""
        r = self.rng
        k = r.random()
        if depth >= 3 or k < (0.3 if depth else 0.22):
            return self.hole(pool)
        if k < 0.42:
            return Coll(r.choice(["list", "list", "seq", "coll", "mutseq", "blist", "vartuple", "deque"]), self.wrapper(pool, depth + 1))
        if k < 0.52:
            return MapT(r.choice(["dict", "mapping", "bdict"]), Prim("str"), self.wrapper(pool, depth + 1))
        if k < 0.62:
            es = [self.wrapper(pool, depth + 1)]
            if r.random() < 0.7:
                es.insert(r.randint(0, 1), self.wrapper(pool, depth + 2) if r.random() < 0.4 else Prim(r.choice(["int", "str", "bool"])))
            return Tup(es)
        if k < 0.70:
            w = self.wrapper(pool, depth + 1)
            return opt(w) if not isinstance(w, Union_) else w
        if k < 0.78:
            w = self.wrapper(pool, depth + 1)
            if isinstance(w, Union_):
                return w
            other = r.choice([Prim("int"), Prim("str"), Prim("bool"), Coll("list", Prim("int")), Prim("none")])
            alts = [w, other] if r.random() < 0.6 else [other, w]
            return Union_(alts)
        if k < 0.86:
            ml = self.fresh_class("ml")
            ml.add("reg", Coll("list", self.wrapper(pool, depth + 1)), style=r.choice(["func", "conv"]))
            return ConvT(ml)
        # object wrapper (dynamic conversions must not cross it; field conversions are declared here)
        kind = r.choice(["dataclass", "dataclass", "namedtuple", "typeddict"])
        name = self.g.fresh({"dataclass": "W", "namedtuple": "WN", "typeddict": "WT"}[kind])
        fields = []
        for _ in range(r.choice([1, 1, 2])):
            f = F(self.g.fresh("h"), self.wrapper(pool, depth + 1, in_obj=True))
            reach = sorted((c for c in _reachable_classes(f.t) if c.kind == "opaque" and not getattr(c, "locked", False)), key=lambda c: c.name)
            if reach and r.random() < 0.5:
                roles = []
                for c in reach:
                    if not c.roles["fld"]:
                        base = c.roles["reg"][0].src if c.roles["reg"] else None
                        c.add("fld", base if base is not None and (r.random() < 0.5 or has_conv(base)) else self.leaf(small=True), style=self.style())
                    roles.append(c.roles["fld"][0])
                f.conv_roles = roles
                des = ", ".join(f"DES[{x.tag!r}]" for x in roles)
                ser = ", ".join(f"SER[{x.tag!r}]" for x in roles)
                f.extra_md = [f"conversion(({des},), ({ser},))"]
            fields.append(f)
        if r.random() < 0.6:
            fields.append(F(self.g.fresh("p"), Prim(r.choice(["int", "str"]))))
        return ObjectT(kind, name, fields)

    # ---- graph families
    def build(self):
        """-> (family, top op-level type, root_exact) ; root_exact: the top is a bare occurrence whose
        alternatives are checked by the exact try-each oracle (converters may reject there)"""
        r = self.rng
        fam = r.choice(["base", "base", "multi", "chain", "chain", "generic", "two"])
        if fam == "base":
            bare = r.random() < 0.45
            k = self.opaque(self.leaf(), allow_raise=bare, allow_dyn=True)
            top = ConvT(k) if bare else self.wrapper([k])
        elif fam == "multi":
            k = self.fresh_class()
            base = self.leaf()
            srcs = [base]
            for _ in range(r.choice([1, 1, 2])):
                q = r.random()
                if q < 0.35:
                    srcs.append(base)  # same source: only the order tells the converters apart
                elif q < 0.5 and not isinstance(base, Union_):
                    srcs.append(Union_([base, Prim("str")]) if strip(base) != Prim("str") else Union_([base, Prim("int")]))
                elif q < 0.6:
                    srcs.append(Prim("float") if strip(base) == Prim("int") else Prim("int"))
                else:
                    srcs.append(self.leaf(small=True))
            r.shuffle(srcs)
            bare = r.random() < 0.7
            for s in srcs:
                mode, catch = None, False
                if bare and r.random() < 0.4:
                    mode = r.choice(["verr", "value"])
                    catch = mode == "value" and r.random() < 0.75
                k.add("reg", s, mode=mode, catch=catch, style=self.style())
            if r.random() < 0.3:
                k.ann = dict(r.choice(DOC_ANN))
            if r.random() < 0.4:
                # same relative order as the registered ones: typing (and apischema, F21) identify Union[A, B] and
                # Union[B, A], so one program must not contain both orders of the same reference union
                picked = sorted(r.sample(range(len(srcs)), r.choice([1, 2])))
                for i in picked:
                    k.add("dyn", srcs[i], style=self.style())
            top = ConvT(k) if bare else self.wrapper([k])
        elif fam == "chain":
            k = self.opaque(self.leaf(), allow_dyn=r.random() < 0.5)
            for _ in range(r.choice([1, 1, 2])):
                k = self.opaque(self.src_around(ConvT(k)), allow_dyn=r.random() < 0.7)
            bare = r.random() < 0.5
            top = ConvT(k) if bare else self.wrapper([k])
        elif fam == "generic":
            gk = self.fresh_class("generic")
            tv = TVarT(gk.tvar)
            tmpl = lambda: r.choice([Coll("list", tv), tv, MapT("dict", Prim("str"), tv), Tup([tv, Prim("int")]), opt(tv), Coll("seq", tv)])
            gk.add("reg", tmpl(), style=r.choice(["func", "conv"]))
            if r.random() < 0.5:
                gk.add("dyn", tmpl(), style=r.choice(["func", "conv"]))
            if r.random() < 0.3:
                gk.ann = dict(r.choice(DOC_ANN))
            arg = self.leaf(small=r.random() < 0.5) if r.random() < 0.6 else ConvT(self.opaque(self.leaf(small=True), allow_dyn=False))
            if isinstance(arg, Prim) and arg.p == "none":
                arg = Prim("int")
            occ = ConvT(gk, [arg])
            bare = r.random() < 0.5
            top = occ if bare else self._wrap_fixed(occ)
        else:  # two classes side by side
            ka = self.opaque(self.leaf(small=True))
            kb = self.opaque(self.leaf(small=True))
            bare = False
            top = self.wrapper([ka, kb])
            if len(_all_classes(top) & {ka, kb}) < 2:
                top = Tup([top, ConvT(kb if ka in _all_classes(top) else ka)])
        return fam, top, bare

    def _wrap_fixed(self, occ):
        r = self.rng
        k = r.random()
        if k < 0.3:
            return Coll("list", occ)
        if k < 0.5:
            return Tup([occ, Prim("int")])
        if k < 0.7:
            return MapT("dict", Prim("str"), occ)
        if k < 0.85:
            return opt(occ)
        return ObjectT("dataclass", self.g.fresh("W"), [F(self.g.fresh("h"), occ)])


def _all_classes(t):
    return {n.cls for n in walk_all(t) if isinstance(n, ConvT)}


def all_classes_deep(t, acc=None):
    """every class needed by the graph (through sources of all roles), dependency order"""
    acc = [] if acc is None else acc
    for n in walk_all(t):
        if isinstance(n, ConvT) and n.cls not in acc:
            for r in n.cls.all_roles():
                all_classes_deep(r.src, acc)
                for s in r.sub:
                    all_classes_deep(ConvT(s.cls), acc)
            if n.cls not in acc:
                acc.append(n.cls)
        elif isinstance(n, ObjectT):
            for f in n.fields:
                for rl in getattr(f, "conv_roles", ()):
                    all_classes_deep(ConvT(rl.cls), acc)
    return acc
