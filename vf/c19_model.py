"""C19 helper: generator of GraphQL "programs" (Python source defining a data model + operations), the model of
the documented Python -> GraphQL mapping, query / expected-data construction and argument data.

Everything here is written from the documentation (docs/graphql/*.md, docs/data_model.md); nothing is derived from
apischema's implementation.  Type nodes are JSON lists:
  ["prim", "int"|"float"|"str"|"bool", {constraints}?]   ["list", t]   ["opt", t]   ["undef", t]  (Union[t, UndefinedType])
  ["enum", name] ["lit", name] ["new", name] ["conv", name] ["obj", class name] ["union", alias name]
"""
import base64
import linecache
import sys
import types as _types

PRELUDE = '''\
import base64
from dataclasses import dataclass, field
from enum import Enum
from typing import Annotated, Any, Collection, List, Literal, NewType, NoReturn, Optional, Sequence, Union
from apischema import Undefined, UndefinedType, ValidationError, alias, deserializer, schema, serializer, type_name, validator
import graphql
from apischema.metadata import flatten, none_as_undefined, validators
from apischema.graphql import Mutation, Query, graphql_schema, interface, resolver
from apischema.utils import to_camel_case
LOG = []
RESULTS = {}
RAISE = set()
def al_identity(s): return s
def al_custom(s): return "x_" + s
def en_custom(s): return "E_" + s
def id_dec(s): return base64.b64decode(s).decode()
def id_enc(s): return base64.b64encode(s.encode()).decode()
def eh_none(error, obj, info, **kwargs) -> None:
    return None
def eh_reraise(error, obj, info, **kwargs) -> NoReturn:
    raise error
'''

GQL_PRIM = {"int": "Int", "float": "Float", "str": "String", "bool": "Boolean"}
STD_SCALARS = {"Int", "Float", "String", "Boolean", "ID"}


def camel(s):
    out, up = [], False
    i = 0
    while i < len(s):
        c = s[i]
        if c == "_" and i + 1 < len(s) and (s[i + 1].islower() or s[i + 1].isdigit()):
            out.append(s[i + 1].upper())
            i += 2
            continue
        out.append(c)
        i += 1
    return "".join(out)


ALIASERS = {"camel": camel, "identity": lambda s: s, "custom": lambda s: "x_" + s}
ENUM_ALIASERS = {"upper": str.upper, "none": lambda s: s, "custom": lambda s: "E_" + s}


def core(t):
    while t[0] in ("list", "opt", "undef"):
        t = t[1]
    return t


def nullable(t):
    return t[0] in ("opt", "undef")


# ------------------------------------------------------------------------------------------------ generation
class Gen:
    def __init__(self, rng, suffix=""):
        self.rng = rng
        self.n = 0
        # type names must be unique per process: typing caches List["X"] / ForwardRef("X") objects together with their evaluated value
        self.suffix = suffix

    def fresh(self, p):
        self.n += 1
        return f"{p}{self.n}{self.suffix}"

    def fname(self):
        self.n += 1
        return self.rng.choice(["va_b", "my_f", "f", "it_em", "x_y_z", "fld"]) + str(self.n)

    def maybe_alias(self, p=0.3):
        if self.rng.random() < p:
            self.n += 1
            return self.rng.choice(["al_i", "zz", "other_n"]) + str(self.n)
        return None

    # ---- program
    def program(self):
        r = self.rng
        P = {"settings": {"aliaser": r.choice(["camel", "camel", "identity", "custom"]),
                          "enum_aliaser": r.choice(["upper", "upper", "none", "custom"]),
                          "id_encoding": r.choice(["none", "none", "both", "ser", "deser"]),
                          "id_types_as": r.choice(["set", "predicate"]),
                          "union_name": r.choice(["default", "default", "custom"])},
             "enums": [], "lits": [], "news": [], "convs": [], "classes": [], "unions": [], "ops": [], "validators": []}
        self.P = P
        for _ in range(r.choice([0, 1, 1, 2])):
            name = self.fresh("Color")
            strv = r.random() < 0.6
            ms = []
            for i in range(r.randint(1, 3)):
                mn = r.choice(["red", "Blue", "GREEN", "dark_x"]) + str(i)
                ms.append([mn, (mn[:2].lower() + str(i)) if strv else i + 1])
            P["enums"].append({"name": name, "members": ms})
        for _ in range(r.choice([0, 0, 1])):
            P["lits"].append({"name": self.fresh("Lit"), "values": r.sample(["aa", "b_b", "Cc", "dd9"], r.randint(1, 3))})
        for _ in range(r.choice([0, 1, 1, 2])):
            P["news"].append({"name": self.fresh("Nt"), "prim": r.choice(["int", "str", "float", "bool"]), "id": False})
        if r.random() < 0.45:
            P["news"].append({"name": self.fresh("Ident"), "prim": "str", "id": True})
        for _ in range(r.choice([0, 0, 1, 2])):
            P["convs"].append({"name": self.fresh("Opq"), "prim": r.choice(["int", "str"]), "ser": True, "deser": True, "id": False})
        if r.random() < 0.2:
            P["convs"].append({"name": self.fresh("Key"), "prim": "str", "ser": True, "deser": True, "id": True})
        if r.random() < 0.25:
            P["convs"].append({"name": self.fresh("NoSer"), "prim": "int", "ser": False, "deser": True, "id": False})
        # input classes
        for _ in range(r.choice([0, 1, 1, 2, 3])):
            self.input_class()
        # interfaces + output classes
        nint = r.choice([0, 0, 1, 1, 2])
        for i in range(nint):
            self.output_class(interface=True)
        for _ in range(r.choice([1, 2, 3, 4])):
            self.output_class(interface=False)
        # every interface needs an implementer
        for c in list(P["classes"]):
            if c["interface"] and not self.implementers(c["name"]):
                self.output_class(interface=False, base=c["name"])
        # unions
        conc = [c["name"] for c in P["classes"] if c["role"] == "out" and not c["interface"]]
        if len(conc) >= 2 and r.random() < 0.5:
            ms = r.sample(conc, r.choice([2, 2, 3]) if len(conc) >= 3 else 2)
            P["unions"].append({"name": self.fresh("Un"), "members": ms, "named": r.random() < 0.5})
        if P["unions"]:
            # an unsupported alternative of a union is dropped silently by the visitors; keep re-raising handlers (typing.NoReturn) away
            # from the classes when unions exist, so that their effect stays attributable (operations may still use them)
            for c in P["classes"]:
                for rs in c["resolvers"]:
                    if rs["error_handler"] == "reraise":
                        rs["error_handler"] = "undef"
        # operations
        for _ in range(r.choice([1, 2, 2, 3, 4])):
            self.operation("query")
        for _ in range(r.choice([0, 0, 1, 2])):
            self.operation("mutation")
        # classes carrying resolvers with parameters should be directly reachable
        for c in P["classes"]:
            if c["role"] == "out" and any(rs["params"] for rs in c["resolvers"]) and r.random() < 0.8:
                t = ["obj", c["name"]]
                w = r.random()
                t = ["list", t] if w < 0.25 else ["opt", t] if w < 0.4 else t
                self.operation("query", ret=t, nparams=0)
        if P["unions"]:
            u = P["unions"][0]
            self.operation("query", ret=r.choice([["union", u["name"]], ["list", ["union", u["name"]]], ["opt", ["union", u["name"]]]]))
        return P

    def implementers(self, iname):
        out = []
        for c in self.P["classes"]:
            if not c["interface"] and iname in self.all_bases(c["name"]):
                out.append(c["name"])
        return out

    def cls(self, name):
        for c in self.P["classes"]:
            if c["name"] == name:
                return c
        raise KeyError(name)

    def all_bases(self, name):
        out = []
        for b in self.cls(name)["bases"]:
            out.append(b)
            out += self.all_bases(b)
        return out

    # ---- types
    def scalar_pool(self, role):
        P = self.P
        pool = [["prim", p] for p in ("int", "float", "str", "bool", "int", "str")]
        pool += [["enum", e["name"]] for e in P["enums"]] * 2
        pool += [["lit", l["name"]] for l in P["lits"]] * 2
        pool += [["new", n["name"]] for n in P["news"]]
        pool += [["conv", c["name"]] for c in P["convs"] if (c["ser"] if role == "out" else c["deser"])]
        return pool

    def out_type(self, allow_obj=True, selfname=None, top=True):
        r = self.rng
        k = r.random()
        objs = [c["name"] for c in self.P["classes"] if c["role"] in ("out", "both") and c["name"] != selfname]
        if allow_obj and objs and k < 0.3:
            t = ["obj", r.choice(objs)]
            if selfname and self.cls(t[1])["interface"]:
                # inside a class, interfaces are referenced through Optional / List only (keeps generated values finite)
                return ["opt", t] if r.random() < 0.5 else ["list", t]
        elif allow_obj and selfname and k < 0.4:
            t = ["obj", selfname]
            w = r.random()
            return ["opt", t] if w < 0.5 else ["list", t] if w < 0.85 else ["opt", ["list", t]]
        elif allow_obj and self.P["unions"] and k < 0.45:
            t = ["union", r.choice(self.P["unions"])["name"]]
        else:
            t = r.choice(self.scalar_pool("out"))
        return self.wrap(t, top, undef=True)

    def wrap(self, t, top, undef):
        r = self.rng
        w = r.random()
        if w < 0.5:
            return t
        if w < 0.65:
            return ["opt", t]
        if w < 0.8:
            return ["list", t]
        if w < 0.85:
            return ["list", ["opt", t]]
        if w < 0.9:
            return ["opt", ["list", t]]
        if w < 0.93:
            return ["list", ["list", t]]
        if undef and top:
            return ["undef", t] if w < 0.97 else ["undef", ["opt", t]]
        return t

    def in_type(self, selfname=None, constraints=True):
        r = self.rng
        k = r.random()
        objs = [c["name"] for c in self.P["classes"] if c["role"] in ("in", "both") and c["name"] != selfname]
        if objs and k < 0.25:
            t = ["obj", r.choice(objs)]
        else:
            t = list(r.choice(self.scalar_pool("in")))
            if constraints and t[0] == "prim" and r.random() < 0.35:
                if t[1] == "int":
                    t = t + [r.choice([{"min": 0}, {"max": 10}, {"bad": 7}])]
                    if "bad" in t[2]:
                        self.need_validator(7)
                elif t[1] == "str":
                    t = t + [{"max_len": 3}]
        w = r.random()
        if w < 0.6:
            return t
        if w < 0.75:
            return ["opt", t]
        if w < 0.9:
            return ["list", t]
        if w < 0.95:
            return ["opt", ["list", t]]
        return ["list", ["opt", t]]

    def need_validator(self, bad):
        if bad not in self.P["validators"]:
            self.P["validators"].append(bad)

    # ---- defaults for input positions: returns {"kind":..., "src":...} or None (required)
    def type_ser(self, t):
        """is the type serializable as a whole (apischema builds the serialization method from the type; Unsupported alternatives of a union are skipped)"""
        k = t[0]
        if k == "opt":
            return True
        if k in ("list", "undef"):   # the UndefinedType alternative is not a serialization alternative
            return self.type_ser(t[1])
        if k == "conv":
            return self.conv(t[1])["ser"]
        if k == "obj":
            return all(self.type_ser(f["t"]) for f in self.cls(t[1])["fields"])
        return True

    def in_default(self, t, p=0.5, nonopt=False):
        d = self._in_default(t, p, nonopt)
        if d is not None and d["kind"] not in ("none", "undef"):
            tt = t[1] if t[0] == "opt" else t
            if not self.type_ser(tt):
                d = {**d, "kind": "unserializable"}
        return d

    def _in_default(self, t, p=0.5, nonopt=False):
        r = self.rng
        if r.random() > p:
            return None
        if t[0] == "opt":
            if r.random() < 0.7:
                return {"kind": "none", "src": "None"}
            t = t[1]
        c = core(t)
        if nonopt and t[0] == "prim" and r.random() < 0.15:
            # `x: int = None`: not Optional in the type hints, nullable in the schema because of the default
            return {"kind": "none", "src": "None", "nonopt": True}
        if t[0] == "list":
            if r.random() < 0.2:
                return {"kind": "unhashable", "src": "[]", "factory": "list"}
            return None
        if t[0] == "prim":
            cons = t[2] if len(t) > 2 else {}
            v = {"int": 3, "float": 1.5, "str": "ab", "bool": True}[t[1]]
            return {"kind": "value", "src": repr(v)}
        if t[0] == "enum":
            e = self.enum(t[1])
            return {"kind": "enum", "src": f"{t[1]}.{r.choice(e['members'])[0]}"}
        if t[0] == "lit":
            return {"kind": "value", "src": repr(r.choice(self.lit(t[1])["values"]))}
        if t[0] == "new":
            n = self.new(t[1])
            v = {"int": 3, "float": 1.5, "str": "ab", "bool": True}[n["prim"]]
            return {"kind": "value", "src": f"{t[1]}({v!r})"}
        if t[0] == "conv":
            cv = self.conv(t[1])
            v = {"int": 3, "str": "ab"}[cv["prim"]]
            return {"kind": "value" if cv["ser"] else "unserializable", "src": f"{t[1]}({v!r})"}
        if t[0] == "obj":
            cl = self.cls(t[1])
            src = self.default_obj_src(cl)
            if src is None:
                return None
            kind = "object" if self.instance_serializable(cl) else "unserializable"
            return {"kind": kind, "src": src, "frozen": cl["frozen"], "cls": cl["name"], "is_object": True}
        return None

    def instance_serializable(self, cl, depth=0):
        """is the instance built by default_obj_src (required fields given, others defaulted) serializable"""
        for f in cl["fields"]:
            d, t = f["default"], f["t"]
            if d is not None:
                if d["kind"] == "unserializable":
                    return False
                continue
            if t[0] in ("opt", "list"):
                continue
            if t[0] == "conv" and not self.conv(t[1])["ser"]:
                return False
            if t[0] == "obj" and not self.instance_serializable(self.cls(t[1]), depth + 1):
                return False
        return True

    def default_obj_src(self, cl, depth=0):
        """constructor expression for an input class, required fields only (hashable when frozen and no list inside)"""
        parts = []
        for f in cl["fields"]:
            if f["default"] is not None:
                continue
            s = self.simple_value_src(f["t"], depth)
            if s is None:
                return None
            parts.append(f"{f['name']}={s}")
        return f"{cl['name']}({', '.join(parts)})"

    def simple_value_src(self, t, depth):
        r = self.rng
        if t[0] == "opt":
            return "None"
        if t[0] == "list":
            return "[]"
        if t[0] == "prim":
            cons = t[2] if len(t) > 2 else {}
            return repr({"int": 2, "float": 0.5, "str": "xy", "bool": False}[t[1]])
        if t[0] == "enum":
            return f"{t[1]}.{self.enum(t[1])['members'][0][0]}"
        if t[0] == "lit":
            return repr(self.lit(t[1])["values"][0])
        if t[0] == "new":
            n = self.new(t[1])
            return f"{t[1]}({({'int': 2, 'float': 0.5, 'str': 'xy', 'bool': False}[n['prim']])!r})"
        if t[0] == "conv":
            return f"{t[1]}({({'int': 2, 'str': 'xy'}[self.conv(t[1])['prim']])!r})"
        if t[0] == "obj" and depth < 2:
            return self.default_obj_src(self.cls(t[1]), depth + 1)
        return None

    def enum(self, n):
        return next(e for e in self.P["enums"] if e["name"] == n)

    def lit(self, n):
        return next(e for e in self.P["lits"] if e["name"] == n)

    def new(self, n):
        return next(e for e in self.P["news"] if e["name"] == n)

    def conv(self, n):
        return next(e for e in self.P["convs"] if e["name"] == n)

    # ---- classes
    def input_class(self):
        r = self.rng
        name = self.fresh("Inp")
        cl = {"name": name, "role": "in", "interface": False, "bases": [], "fields": [], "resolvers": [], "frozen": r.random() < 0.4,
              "gql_name": None, "class_aliaser": r.random() < 0.2, "validator": None}
        if r.random() < 0.15:
            cl["gql_name"] = self.fresh("Named") + r.choice(["", "Input"])
        fields = []
        for _ in range(r.randint(1, 4)):
            k = r.random()
            if k < 0.08:
                t = ["opt", ["obj", name]]
                d = {"kind": "none", "src": "None"}
            elif k < 0.16:
                t = ["undef", r.choice(self.scalar_pool("in"))]
                d = {"kind": "undef", "src": "Undefined"}
            else:
                t = self.in_type(selfname=name)
                d = self.in_default(t)
            if d is not None and d.get("is_object") and not d["frozen"]:
                d = {**d, "factory": "lambda: " + d["src"]}
            fields.append({"name": self.fname(), "t": t, "alias": self.maybe_alias(), "default": d, "flatten": False})
        # flatten another input class
        others = [c for c in self.P["classes"] if c["role"] == "in" and not any(f["flatten"] for f in c["fields"])]
        if others and r.random() < 0.2:
            fields.append({"name": self.fname(), "t": ["obj", r.choice(others)["name"]], "alias": None, "default": None, "flatten": True})
        fields.sort(key=lambda f: f["default"] is not None)
        cl["fields"] = fields
        ints = [f for f in fields if f["t"][0] == "prim" and f["t"][1] == "int" and len(f["t"]) == 2 and f["default"] is None]
        if ints and r.random() < 0.4:
            cl["validator"] = {"field": ints[0]["name"], "bad": 13}
        self.P["classes"].append(cl)
        return cl

    def params(self, n=None):
        r = self.rng
        out = []
        n = r.choice([0, 1, 1, 2, 3]) if n is None else n
        for _ in range(n):
            k = r.random()
            if k < 0.1:
                t = ["undef", r.choice(self.scalar_pool("in"))]
                if r.random() < 0.5:
                    t = ["undef", ["opt", t[1]]]
                d = {"kind": "undef", "src": "Undefined"}
            else:
                t = self.in_type()
                d = self.in_default(t, nonopt=True)
            out.append({"name": self.fname(), "t": t, "alias": self.maybe_alias(0.25), "default": d,
                        "meta_form": r.choice(["or", "sep"])})
        out.sort(key=lambda p: p["default"] is not None)
        return out

    def output_class(self, interface, base=None):
        r = self.rng
        name = self.fresh("Iface" if interface else "Obj")
        cl = {"name": name, "role": "out", "interface": interface, "bases": [], "fields": [], "resolvers": [], "frozen": False,
              "gql_name": None, "class_aliaser": r.random() < 0.2, "validator": None}
        ifaces = [c["name"] for c in self.P["classes"] if c["interface"]]
        if base:
            cl["bases"] = [base]
        elif ifaces and r.random() < (0.3 if interface else 0.6):
            cl["bases"] = [r.choice(ifaces)]
        if interface or cl["bases"]:
            # a class-level aliaser would rename the inherited interface fields in the implementer only (ill-formed schema)
            cl["class_aliaser"] = False
        if r.random() < 0.15:
            cl["gql_name"] = self.fresh("Named")
        self.P["classes"].append(cl)  # registered first: self references allowed
        for _ in range(r.randint(1, 4)):
            cl["fields"].append({"name": self.fname(), "t": self.out_type(selfname=name), "alias": self.maybe_alias(), "default": None, "flatten": False})
            if cl["fields"][-1]["t"][0] == "opt" and r.random() < 0.3:
                cl["fields"][-1]["nau"] = True
        # flatten: a class defined earlier, not an ancestor, not flattening itself, at most once
        mine = self.contributors(name)
        cands = [c for c in self.P["classes"] if c["role"] == "out" and c["name"] != name and not self.reaches(c["name"], name)
                 and not (self.contributors(c["name"]) & mine)]
        if cands and not interface and r.random() < 0.25:
            cl["fields"].append({"name": self.fname(), "t": ["obj", r.choice(cands)["name"]], "alias": None, "default": None, "flatten": True})
        for _ in range(r.choice([0, 0, 1, 1, 2])):
            rn = self.fname()
            cl["resolvers"].append({"name": rn, "alias": self.maybe_alias(0.25), "params": self.params(), "ret": self.out_type(selfname=name),
                                    "error_handler": self.handler_kind()})
            if r.random() < 0.15:
                cl["resolvers"][-1]["info_at"] = r.randint(0, len(cl["resolvers"][-1]["params"]))
        return cl

    def contributors(self, cname):
        """classes whose fields / resolvers end up in the GraphQL type of cname (itself, bases, flattened classes, recursively)"""
        out = {cname}
        for b in self.cls(cname)["bases"]:
            out |= self.contributors(b)
        for f in self.cls(cname)["fields"]:
            if f["flatten"]:
                out |= self.contributors(f["t"][1])
        return out

    def handler_kind(self):
        k = self.rng.random()
        return "undef" if k < 0.62 else "none" if k < 0.8 else "custom_none" if k < 0.96 else "reraise"

    def flattened_anywhere(self, cname, names):
        """does class cname (transitively through its flattened fields / bases) flatten or inherit one of `names`"""
        for f in self.cls(cname)["fields"]:
            if f["flatten"] and (f["t"][1] in names or self.flattened_anywhere(f["t"][1], names)):
                return True
        return False

    def reaches(self, a, b, seen=None):
        """class a references class b through fields (used to keep flattening acyclic)"""
        seen = seen or set()
        if a == b:
            return True
        if a in seen:
            return False
        seen.add(a)
        c = self.cls(a)
        for f in c["fields"]:
            k = core(f["t"])
            if k[0] == "obj" and self.reaches(k[1], b, seen):
                return True
        for bb in c["bases"]:
            if self.reaches(bb, b, seen):
                return True
        return False

    def operation(self, root, ret=None, nparams=None):
        r = self.rng
        name = self.fname()
        op = {"root": root, "name": name, "alias": self.maybe_alias(0.25), "params": self.params(nparams),
              "ret": ret or self.out_type(), "error_handler": self.handler_kind()}
        if self.rng.random() < 0.15:
            op["info_at"] = self.rng.randint(0, len(op["params"]))
        self.P["ops"].append(op)
        return op


# ------------------------------------------------------------------------------------------------ source emission
class Model:
    """program spec + derived lookups + source + expected mapping"""

    def __init__(self, P):
        self.P = P
        S = P["settings"]
        self.A = ALIASERS[S["aliaser"]]
        self.EA = ENUM_ALIASERS[S["enum_aliaser"]]
        self.enums = {e["name"]: e for e in P["enums"]}
        self.lits = {e["name"]: e for e in P["lits"]}
        self.news = {e["name"]: e for e in P["news"]}
        self.convs = {e["name"]: e for e in P["convs"]}
        self.classes = {c["name"]: c for c in P["classes"]}
        self.unions = {u["name"]: u for u in P["unions"]}
        self.source = self.emit()

    # ---- annotations
    def ann(self, t, quote=True):
        k = t[0]
        if k == "prim":
            cons = t[2] if len(t) > 2 else None
            if not cons:
                return t[1]
            return f"Annotated[{t[1]}, {self.cons_src(cons)}]"
        if k == "list":
            return f"List[{self.ann(t[1], quote)}]"
        if k == "opt":
            return f"Optional[{self.ann(t[1], quote)}]"
        if k == "undef":
            return f"Union[{self.ann(t[1], quote)}, UndefinedType]"
        if k in ("obj", "union"):
            return f'"{t[1]}"' if quote else t[1]
        return t[1]

    @staticmethod
    def cons_src(cons):
        if "min" in cons:
            return f"schema(min={cons['min']})"
        if "max" in cons:
            return f"schema(max={cons['max']})"
        if "max_len" in cons:
            return f"schema(max_len={cons['max_len']})"
        if "bad" in cons:
            return f"validators(chk{cons['bad']})"
        raise ValueError(cons)

    def param_ann(self, p):
        a = self.ann(p["t"])
        if p["alias"]:
            t = p["t"]
            if t[0] == "prim" and len(t) > 2 and p.get("meta_form") == "or":
                return f"Annotated[{t[1]}, alias({p['alias']!r}) | {self.cons_src(t[2])}]"
            return f"Annotated[{a}, alias({p['alias']!r})]"
        return a

    def params_src(self, params, info_at=None):
        out = []
        for p in params:
            s = f"{p['name']}: {self.param_ann(p)}"
            if p["default"] is not None:
                s += f" = {p['default']['src']}"
            out.append(s)
        if info_at is not None:
            # a GraphQLResolveInfo parameter is not an argument; the parameters declared after it still are (it needs a default
            # when it follows a defaulted parameter)
            k = min(info_at, len(out))
            has_default_before = any(p["default"] is not None for p in params[:k])
            out.insert(k, "info_: graphql.GraphQLResolveInfo" + (" = None" if has_default_before else ""))
        return ", ".join(out)

    def emit(self):
        P = self.P
        L = [PRELUDE]
        for bad in P["validators"]:
            L.append(f"def chk{bad}(x):\n    if x == {bad}:\n        raise ValidationError('bad value {bad}')\n")
        for e in P["enums"]:
            L.append(f"class {e['name']}(Enum):")
            for n, v in e["members"]:
                L.append(f"    {n} = {v!r}")
            L.append("")
        for l in P["lits"]:
            vs = ", ".join(repr(v) for v in l["values"])
            L.append(f"{l['name']} = Annotated[Literal[{vs}], type_name({l['name']!r})]")
        for n in P["news"]:
            L.append(f"{n['name']} = NewType({n['name']!r}, {n['prim']})")
        for c in P["convs"]:
            nm = c["name"]
            L.append(f"class {nm}:\n    def __init__(self, v):\n        self.v = v\n    def __repr__(self):\n        return f'{nm}({{self.v!r}})'\n"
                     f"    def __eq__(self, o):\n        return type(o) is {nm} and o.v == self.v\n    def __hash__(self):\n        return hash(self.v)")
            if c["ser"]:
                L.append(f"@serializer\ndef ser_{nm}(o: {nm}) -> {c['prim']}:\n    return o.v")
            if c["deser"]:
                L.append(f"@deserializer\ndef deser_{nm}(v: {c['prim']}) -> {nm}:\n    return {nm}(v)")
            L.append("")
        for c in P["classes"]:
            if c["class_aliaser"]:
                L.append("@alias(lambda s: 'pre_' + s)")
            if c["gql_name"]:
                L.append(f"@type_name({c['gql_name']!r})")
            if c["interface"]:
                L.append("@interface")
            L.append(f"@dataclass(frozen=True)" if c["frozen"] else "@dataclass")
            L.append(f"class {c['name']}({', '.join(c['bases'])}):" if c["bases"] else f"class {c['name']}:")
            for f in c["fields"]:
                meta = []
                if f["alias"]:
                    meta.append(f"alias({f['alias']!r})")
                if f["flatten"]:
                    meta.append("flatten")
                if f.get("nau"):
                    meta.append("none_as_undefined")  # serialize omits None there; GraphQL resolves it as null (the field stays nullable)
                d = f["default"]
                args = []
                if d is not None:
                    if d.get("factory"):
                        args.append(f"default_factory={d['factory']}")
                    else:
                        args.append(f"default={d['src']}")
                if meta:
                    args.append("metadata=" + " | ".join(meta))
                line = f"    {f['name']}: {self.ann(f['t'])}"
                if d is not None and not meta and not d.get("factory"):
                    line += f" = {d['src']}"
                elif args:
                    line += f" = field({', '.join(args)})"
                L.append(line)
            if c["validator"]:
                v = c["validator"]
                L.append(f"    @validator\n    def check_{c['name']}(self):\n        if self.{v['field']} == {v['bad']}:\n            raise ValidationError('bad {c['name']}')")
            for rs in c["resolvers"]:
                key = f"{c['name']}.{rs['name']}"
                dec = []
                if rs["alias"]:
                    dec.append(f"alias={rs['alias']!r}")
                if rs["error_handler"] != "undef":
                    dec.append("error_handler=" + {"none": "None", "custom_none": "eh_none", "reraise": "eh_reraise"}[rs["error_handler"]])
                L.append(f"    @resolver({', '.join(dec)})" if dec else "    @resolver")
                ps = self.params_src(rs["params"], rs.get("info_at"))
                L.append(f"    def {rs['name']}(self{', ' + ps if ps else ''}) -> {self.ann(rs['ret'])}:")
                L.append(f"        LOG.append(({key!r}, dict({', '.join(p['name'] + '=' + p['name'] for p in rs['params'])})))")
                L.append(f"        if {key!r} in RAISE:\n            raise RuntimeError('boom {key}')")
                L.append(f"        return RESULTS[{key!r}]")
            L.append("")
        for u in P["unions"]:
            ms = ", ".join(u["members"])
            L.append(f"{u['name']} = Annotated[Union[{ms}], type_name({u['name']!r})]" if u["named"] else f"{u['name']} = Union[{ms}]")
        for op in P["ops"]:
            key = op["name"]
            L.append(f"def {op['name']}({self.params_src(op['params'], op.get('info_at'))}) -> {self.ann(op['ret'])}:")
            L.append(f"    LOG.append(({key!r}, dict({', '.join(p['name'] + '=' + p['name'] for p in op['params'])})))")
            L.append(f"    if {key!r} in RAISE:\n        raise RuntimeError('boom {key}')")
            L.append(f"    return RESULTS[{key!r}]\n")
        L.append("def build():")
        L.append("    return graphql_schema(" + ", ".join(self.schema_kwargs()) + ")")
        return "\n".join(L) + "\n"

    def op_src(self, op):
        kw = []
        if op["alias"]:
            kw.append(f"alias={op['alias']!r}")
        if op["error_handler"] != "undef":
            kw.append("error_handler=" + {"none": "None", "custom_none": "eh_none", "reraise": "eh_reraise"}[op["error_handler"]])
        if not kw:
            return op["name"]
        return f"{'Query' if op['root'] == 'query' else 'Mutation'}({op['name']}, {', '.join(kw)})"

    def schema_kwargs(self):
        P, S = self.P, self.P["settings"]
        kw = ["query=[" + ", ".join(self.op_src(o) for o in P["ops"] if o["root"] == "query") + "]"]
        muts = [o for o in P["ops"] if o["root"] == "mutation"]
        if muts:
            kw.append("mutation=[" + ", ".join(self.op_src(o) for o in muts) + "]")
        extra = self.extra_types()
        if extra:
            kw.append("types=[" + ", ".join(extra) + "]")
        if S["aliaser"] != "camel":
            kw.append("aliaser=" + {"identity": "al_identity", "custom": "al_custom"}[S["aliaser"]])
        if S["enum_aliaser"] != "upper":
            kw.append("enum_aliaser=" + {"none": "None", "custom": "en_custom"}[S["enum_aliaser"]])
        ids = self.id_names()
        if ids:
            kw.append("id_types={" + ", ".join(ids) + "}" if S["id_types_as"] == "set" else "id_types=lambda t: t in (" + ", ".join(ids) + ",)")
        if S["id_encoding"] != "none":
            kw.append("id_encoding=" + {"both": "(id_dec, id_enc)", "ser": "(None, id_enc)", "deser": "(id_dec, None)"}[S["id_encoding"]])
        if S["union_name"] == "custom":
            kw.append("union_name='_U_'.join")
        return kw

    def id_names(self):
        return [n["name"] for n in self.P["news"] if n["id"]] + [c["name"] for c in self.P["convs"] if c["id"]]

    def extra_types(self):
        """concrete implementers of interfaces are only part of the schema when listed in `types` (docs: Additional types)"""
        return [c["name"] for c in self.P["classes"] if c["role"] == "out" and not c["interface"] and self.all_bases(c["name"])]

    # ---- class structure
    def all_bases(self, name):
        out = []
        for b in self.classes[name]["bases"]:
            out.append(b)
            out += [x for x in self.all_bases(b) if x not in out]
        return out

    def dc_fields(self, name):
        """dataclass fields incl. inherited ones: (owner class, field)"""
        out = []
        c = self.classes[name]
        for b in c["bases"]:
            out += self.dc_fields(b)
        out += [(name, f) for f in c["fields"]]
        return out

    def all_resolvers(self, name):
        out = []
        c = self.classes[name]
        for b in c["bases"]:
            out += self.all_resolvers(b)
        out += [(name, r) for r in c["resolvers"]]
        return out

    def implementers(self, iname):
        return [c["name"] for c in self.P["classes"] if not c["interface"] and iname in self.all_bases(c["name"])]

    def field_alias(self, owner, f):
        """external name before the GraphQL aliaser: class_aliaser(alias or name)   (docs: json_schema.md#field-alias, class-level alias)"""
        a = f["alias"] or f["name"]
        if self.classes[owner]["class_aliaser"]:
            a = "pre_" + a
        return a

    def gql_name(self, cname, role):
        c = self.classes[cname]
        n = c["gql_name"] or cname
        if role == "in" and not n.endswith("Input"):
            n += "Input"
        return n

    def is_id(self, t):
        return (t[0] == "new" and self.news[t[1]]["id"]) or (t[0] == "conv" and self.convs[t[1]]["id"])

    def union_gql_name(self, u):
        if u["named"]:
            return u["name"]
        sep = "_U_" if self.P["settings"]["union_name"] == "custom" else "Or"
        return sep.join(self.gql_name(m, "out") for m in u["members"])

    def named(self, t, role):
        k = t[0]
        if k == "prim":
            return GQL_PRIM[t[1]]
        if self.is_id(t):
            return "ID"
        if k in ("enum", "lit", "new", "conv"):
            return t[1]
        if k == "obj":
            return self.gql_name(t[1], role)
        if k == "union":
            return self.union_gql_name(self.unions[t[1]])
        raise ValueError(t)

    def gql_type(self, t, role):
        k = t[0]
        if k in ("opt", "undef"):
            s = self.gql_type(t[1], role)
            return s[:-1] if s.endswith("!") else s
        if k == "list":
            return f"[{self.gql_type(t[1], role)}]!"
        return self.named(t, role) + "!"

    # ---- expected fields of an output object: list of entries
    def out_fields(self, cname):
        """entries: dict(name=expected GraphQL name, plain=A(python name), kind=field|resolver, owner, spec, path=[flattened attr names])"""
        out = []
        for owner, f in self.dc_fields(cname):
            if f["flatten"]:
                for e in self.out_fields(f["t"][1]):
                    out.append({**e, "path": [f["name"]] + e["path"]})
            else:
                out.append({"name": self.A(self.field_alias(owner, f)), "plain": self.A(f["name"]), "kind": "field", "owner": owner, "spec": f, "path": []})
        for owner, r in self.all_resolvers(cname):
            out.append({"name": self.A(r["alias"] or r["name"]), "plain": self.A(r["name"]), "kind": "resolver", "owner": owner, "spec": r, "path": []})
        return out

    def in_fields(self, cname):
        out = []
        for owner, f in self.dc_fields(cname):
            if f["flatten"]:
                out += self.in_fields(f["t"][1])
            else:
                out.append({"name": self.A(self.field_alias(owner, f)), "plain": self.A(f["name"]), "owner": owner, "spec": f})
        return out

    def out_interfaces(self, cname):
        s = set(self.gql_name(b, "out") for b in self.all_bases(cname) if self.classes[b]["interface"])
        for owner, f in self.dc_fields(cname):
            if f["flatten"]:
                fc = f["t"][1]
                if self.classes[fc]["interface"]:
                    s.add(self.gql_name(fc, "out"))
                # interfaces implemented by the flattened class / interface are implemented too (GraphQL: transitively)
                s |= self.out_interfaces(fc)
        return s

    def ret_type(self, spec):
        """declared return type widened by the error handler (docs: error_handler=None / handler returning None => Optional)"""
        t = spec["ret"]
        if spec["error_handler"] in ("none", "custom_none") and not nullable(t):
            return ["opt", t]
        return t

    def arg_expect(self, p):
        """(name, plain name, type string, has_default)"""
        t, d = p["t"], p["default"]
        has_default = False
        if d is not None:
            if d["kind"] in ("none", "undef", "unserializable"):
                t = ["opt", t] if not nullable(t) else t
            else:
                has_default = True
        return self.A(p["alias"] or p["name"]), self.A(p["name"]), self.gql_type(t, "in"), has_default

    def in_field_expect(self, e):
        f = e["spec"]
        d = f["default"]
        if d is not None and d["kind"] == "unserializable" and d["src"] == "[]" and f["t"][0] == "opt":
            # Optional[List[NoSer]] = []: the serialization method of the union drops the unsupported list alternative and,
            # without type check, hands the empty list back as is: the default stays (as on the pinned tree). Without Optional
            # the method cannot be built at all (no default); parameter defaults are type-checked (no default either)
            d = {**d, "kind": "unhashable"}
        return self.arg_expect({"name": f["name"], "alias": None, "t": f["t"], "default": d})[2:]

    # ---- expected reachable type map: name -> descriptor
    def expected_types(self):
        T = {}

        def visit(t, role):
            c = core(t)
            k = c[0]
            if k == "prim" or self.is_id(c):
                return
            name = self.named(c, role)
            if k == "enum":
                T[name] = {"kind": "enum", "values": {self.EA(m[0]): ("member", c[1], m[0]) for m in self.enums[c[1]]["members"]}}
            elif k == "lit":
                T[name] = {"kind": "enum", "values": {self.EA(v): ("raw", v) for v in self.lits[c[1]]["values"]}}
            elif k in ("new", "conv"):
                T[name] = {"kind": "scalar"}
            elif k == "union":
                u = self.unions[c[1]]
                if name not in T:
                    T[name] = {"kind": "union", "members": set(self.gql_name(m, "out") for m in u["members"])}
                    for m in u["members"]:
                        visit(["obj", m], "out")
            elif k == "obj":
                if name in T:
                    return
                cl = self.classes[c[1]]
                if role == "in":
                    ents = self.in_fields(c[1])
                    T[name] = {"kind": "input", "cls": c[1], "fields": ents}
                    for e in ents:
                        visit(e["spec"]["t"], "in")
                else:
                    ents = self.out_fields(c[1])
                    T[name] = {"kind": "interface" if cl["interface"] else "object", "cls": c[1], "fields": ents, "interfaces": self.out_interfaces(c[1])}
                    for e in ents:
                        if e["kind"] == "field":
                            visit(e["spec"]["t"], "out")
                        else:
                            visit(e["spec"]["ret"], "out")
                            for p in e["spec"]["params"]:
                                visit(p["t"], "in")
                    for b in self.all_bases(c[1]):
                        if self.classes[b]["interface"]:
                            visit(["obj", b], "out")
                    for owner, f in self.dc_fields(c[1]):
                        if f["flatten"]:
                            # a flattened interface-marked class becomes an implemented interface (docs: Interfaces)
                            if self.classes[f["t"][1]]["interface"]:
                                visit(f["t"], "out")
                            for iname in self.all_bases(f["t"][1]):
                                if self.classes[iname]["interface"]:
                                    visit(["obj", iname], "out")

        for op in self.P["ops"]:
            visit(op["ret"], "out")
            for p in op["params"]:
                visit(p["t"], "in")
        for n in self.extra_types():
            visit(["obj", n], "out")
        return T

    # ---- features of the program (for triage)
    def default_kinds(self):
        out = set()
        for c in self.P["classes"]:
            if c["role"] == "in":
                for f in c["fields"]:
                    if f["default"]:
                        out.add(f["default"]["kind"])
                        if f["default"]["src"] == "[]":
                            out.add("unhashable")
                        if f["default"].get("is_object"):
                            out.add("any-object")
                            if not f["default"].get("frozen"):
                                out.add("unhashable-object")
        for spec in self.all_callables():
            for p in spec["params"]:
                if p["default"]:
                    out.add(p["default"]["kind"])
                    if p["default"]["src"] == "[]":
                        out.add("unhashable")
                    if p["default"].get("is_object"):
                        out.add("any-object")
                    if p["default"].get("is_object") and not p["default"].get("frozen"):
                        out.add("unhashable-object")
        return out

    def all_callables(self):
        for op in self.P["ops"]:
            yield op
        for c in self.P["classes"]:
            for r in c["resolvers"]:
                yield r


# ------------------------------------------------------------------------------------------------ loading
_counter = [0]


class Loaded:
    def __init__(self, source):
        _counter[0] += 1
        name = f"vfgql_{_counter[0]}"
        mod = _types.ModuleType(name)
        fn = f"<{name}>"
        mod.__file__ = fn
        linecache.cache[fn] = (len(source), None, source.splitlines(True), fn)
        sys.modules[name] = mod
        self.module, self.name, self.fn = mod, name, fn
        try:
            exec(compile(source, fn, "exec"), mod.__dict__)
        except BaseException:
            self.unload()
            raise

    def unload(self):
        sys.modules.pop(self.name, None)
        linecache.cache.pop(self.fn, None)


# ------------------------------------------------------------------------------------------------ values (as source expressions)
class Values:
    def __init__(self, model, rng, max_depth=3):
        self.m, self.rng, self.max_depth = model, rng, max_depth

    def prim(self, p):
        r = self.rng
        if p == "int":
            return repr(r.choice([0, 1, -3, 7, 13, 42, 1000]))
        if p == "float":
            return repr(r.choice([0.5, -2.25, 3.0, 1e3]))
        if p == "str":
            return repr(r.choice(["", "a", "hello", "été", "x y", "RED"]))
        return repr(r.choice([True, False]))

    def src(self, t, depth=0, force=False, exact=False):
        m, r = self.m, self.rng
        k = t[0]
        if k == "prim":
            return self.prim(t[1])
        if k == "opt":
            if not force and (r.random() < 0.3 or (depth >= self.max_depth and core(t)[0] in ("obj", "union"))):
                return "None"
            return self.src(t[1], depth, force)
        if k == "undef":
            if not force and (r.random() < 0.35 or (depth >= self.max_depth and core(t)[0] in ("obj", "union"))):
                return "Undefined"
            return self.src(t[1], depth, force)
        if k == "list":
            if depth >= self.max_depth and core(t)[0] in ("obj", "union"):
                return "[]"
            n = r.choice([1, 2]) if force else r.choice([0, 1, 2, 3])
            return "[" + ", ".join(self.src(t[1], depth, force) for _ in range(n)) + "]"
        if k == "enum":
            return f"{t[1]}.{r.choice(m.enums[t[1]]['members'])[0]}"
        if k == "lit":
            return repr(r.choice(m.lits[t[1]]["values"]))
        if k == "new":
            n = m.news[t[1]]
            return f"{t[1]}({self.idstr() if n['id'] else self.prim(n['prim'])})"
        if k == "conv":
            c = m.convs[t[1]]
            return f"{t[1]}({self.idstr() if c['id'] else self.prim(c['prim'])})"
        if k == "union":
            return self.src(["obj", r.choice(m.unions[t[1]]["members"])], depth)
        if k == "obj":
            cname = t[1]
            if m.classes[cname]["interface"] and not exact:
                cname = r.choice(m.implementers(cname))
            # a flattened field holds an instance of exactly its declared class (an @interface dataclass is instantiable)
            parts = [f"{f['name']}={self.src(f['t'], depth + 1, exact=f['flatten'])}" for _, f in m.dc_fields(cname)]
            return f"{cname}({', '.join(parts)})"
        raise ValueError(t)

    def idstr(self):
        return repr(self.rng.choice(["id1", "abc", "k-42", "zz top"]))


# ------------------------------------------------------------------------------------------------ queries + expected data
class Selection:
    """selection tree over an output type (bounded: object depth, repetitions of a class on a path, total number of fields),
    its query text and, following the same tree, the expected data for a value"""

    def __init__(self, model, loaded, actual_names, var_alloc, arg_values, id_ser, max_depth=3, budget=220):
        self.m, self.mod = model, loaded.module
        self.actual = actual_names      # (gql type name, expected field name) -> actual field name in the built schema
        self.var_alloc = var_alloc      # callable(owner gql type, actual field name, arg expected name, gql value) -> ("$vN", arg name) or None
        self.arg_values = arg_values    # callable(key, params) -> {param name: (gql, plain)} valid arguments
        self.id_ser = id_ser
        self.max_depth = max_depth
        self.budget = budget
        self.fragments = 0
        self.argtext = {}
        self.calls = {}                 # resolver key -> {param: (gql, plain) or absent}

    # -- tree: None (leaf) | ("obj", declared class, [(entry, head, sub)], {impl: [(entry, head, sub)]}) | ("union", {member: obj node})
    def build(self, t, depth=0, path=()):
        c = core(t)
        if c[0] == "obj":
            return self.build_obj(c[1], depth, path)
        if c[0] == "union":
            return ("union", {mb: self.build_obj(mb, depth, path) for mb in self.m.unions[c[1]]["members"]})
        return None

    def build_obj(self, cname, depth, path):
        m = self.m
        tname = m.gql_name(cname, "out")
        path2 = path + (cname,)
        fields = [x for x in (self.build_field(tname, e, depth, path2) for e in m.out_fields(cname)) if x]
        frags = {}
        if m.classes[cname]["interface"]:
            base = {e["name"] for e in m.out_fields(cname)}
            for impl in m.implementers(cname):
                iname = m.gql_name(impl, "out")
                frags[impl] = [x for x in (self.build_field(iname, e, depth, path2 + (impl,)) for e in m.out_fields(impl) if e["name"] not in base) if x]
        return ("obj", cname, fields, frags)

    def build_field(self, tname, e, depth, path):
        m = self.m
        t = e["spec"]["t"] if e["kind"] == "field" else e["spec"]["ret"]
        c = core(t)
        is_obj = c[0] in ("obj", "union")
        if is_obj:
            if depth + 1 > self.max_depth or self.budget <= 0:
                return None
            names = [c[1]] if c[0] == "obj" else m.unions[c[1]]["members"]
            if any(path.count(n) >= 2 for n in names):
                return None
        act = self.actual.get((tname, e["name"]), e["name"])
        head = e["name"] if act == e["name"] else f"{e['name']}: {act}"
        if e["kind"] == "resolver" and e["spec"]["params"]:
            key = f"{e['owner']}.{e['spec']['name']}"
            if key not in self.argtext:
                vals = self.arg_values(key, e["spec"]["params"])
                self.calls[key] = vals
                args = []
                for p in e["spec"]["params"]:
                    if p["name"] in vals:
                        v = self.var_alloc(tname, act, m.A(p["alias"] or p["name"]), vals[p["name"]][0])
                        if v is None:
                            args = None
                            break
                        args.append(f"{v[1]}: {v[0]}")
                self.argtext[key] = args
            args = self.argtext[key]
            if args is None:
                return None
            if args:
                head += "(" + ", ".join(args) + ")"
        self.budget -= 1
        return (e, head, self.build(t, depth + 1, path) if is_obj else None)

    # -- query text
    def text(self, node):
        if node is None:
            return ""
        if node[0] == "union":
            return "{ __typename " + " ".join(f"... on {self.m.gql_name(mb, 'out')} {self.text(sub)}" for mb, sub in node[1].items()) + " }"
        _, cname, fields, frags = node
        parts = ["__typename"] + [h + (" " + self.text(sub) if sub is not None else "") for _, h, sub in fields]
        for impl, fl in frags.items():
            if fl:
                parts.append(f"... on {self.m.gql_name(impl, 'out')} {{ " + " ".join(h + (" " + self.text(sub) if sub is not None else "") for _, h, sub in fl) + " }")
        return "{ " + " ".join(parts) + " }"

    # -- expected data: returns (data, tags)
    def expect(self, t, ser, val, node):
        from apischema import Undefined

        m = self.m
        k = t[0]
        if k == "undef":
            if val is Undefined:
                return None, "undefined"
            return self.expect(t[1], ser, val, node)
        if k == "opt":
            if val is None:
                return None, "null"
            return self.expect(t[1], ser, val, node)
        if k == "list":
            pairs = [self.expect(t[1], s, v, node) for s, v in zip(ser, val)]
            return [p[0] for p in pairs], [p[1] for p in pairs]
        if m.is_id(t):
            return (self.id_ser(ser) if self.id_ser else ser), "id"
        if k == "prim":
            return ser, "prim:" + t[1]
        if k == "new":
            return ser, "newtype"
        if k == "conv":
            return ser, "conversion"
        if k == "enum":
            return m.EA(val.name), "enum"
        if k == "lit":
            return m.EA(ser), "literal"
        if k == "union":
            cname = type(val).__name__
            self.fragments += 1
            return self.expect_obj(node[1][cname], cname, ser, val)
        if k == "obj":
            rc = type(val).__name__
            if rc != t[1]:
                # interface position: the fragments select the fields of the runtime class
                self.fragments += 1
                ser = self.serialize_as(rc, val)
            return self.expect_obj(node, rc, ser, val)
        raise ValueError(t)

    def serialize_as(self, cname, val):
        from apischema import serialize

        return serialize(getattr(self.mod, cname), val, aliaser=self.m.A_fn)

    def expect_obj(self, node, runtime, ser, val):
        from apischema import Undefined, serialize

        m = self.m
        _, declared, fields, frags = node
        data, tags = {"__typename": m.gql_name(runtime, "out")}, {"__typename": "typename"}
        ents = list(fields)
        if runtime != declared:
            ents += frags.get(runtime, [])
        for e, _, sub in ents:
            t = e["spec"]["t"] if e["kind"] == "field" else m.ret_type(e["spec"])
            holder = val
            for a in e["path"]:
                holder = getattr(holder, a)
            flat = "flattened:" if e["path"] else ""
            key = e["name"]
            if e["kind"] == "field":
                v = getattr(holder, e["spec"]["name"])
                if v is Undefined or (v is None and e["spec"].get("nau")):
                    # Undefined -- or None in a none_as_undefined field, which serialize turns into Undefined -- is null in GraphQL
                    data[key], tags[key] = None, flat + ("undefined" if v is Undefined else "none_as_undefined")
                    continue
                if key not in ser:
                    # serialize did not emit the key: report as a structural difference, not an oracle crash
                    data[key], tags[key] = {"$missing-in-serialize": key}, flat + "field"
                    continue
                d, tg = self.expect(t, ser[key], v, sub)
            else:
                rkey = f"{e['owner']}.{e['spec']['name']}"
                rv = self.mod.RESULTS[rkey]
                rt = m.hint(self.mod, e["owner"], e["spec"]["name"])
                d, tg = self.expect(t, None if rv is Undefined else serialize(rt, rv, aliaser=m.A_fn), rv, sub)
                tg = _prefix(tg, "resolver:")
            data[key], tags[key] = d, _prefix(tg, flat) if flat else tg
            tags["$edge:" + key] = flat + e["kind"]
        return data, tags


def _prefix(tg, p):
    if isinstance(tg, str):
        return p + tg
    return tg


def first_diff(exp, got, tags, path=()):
    """first position where the observed data differ from the expected data -> (path, construct tag, expected, observed)"""
    if isinstance(exp, dict) and isinstance(got, dict):
        for k in exp:
            if k not in got:
                return path + (k,), _tag(tags, k), exp[k], "<absent>"
            r = first_diff(exp[k], got[k], tags.get(k) if isinstance(tags, dict) else None, path + (k,))
            if r:
                if r[1] in ("structure", "list-length") and isinstance(tags, dict) and "$edge:" + k in tags:
                    r = (r[0], tags["$edge:" + k] + ":" + r[1], r[2], r[3])
                return r
        for k in got:
            if k not in exp:
                return path + (k,), "extra-key", "<absent>", got[k]
        return None
    if isinstance(exp, list) and isinstance(got, list):
        if len(exp) != len(got):
            return path, "list-length", len(exp), len(got)
        for i, (a, b) in enumerate(zip(exp, got)):
            r = first_diff(a, b, tags[i] if isinstance(tags, list) and i < len(tags) else None, path + (i,))
            if r:
                return r
        return None
    if _scalar_eq(exp, got):
        return None
    return path, tags if isinstance(tags, str) else "structure", exp, got


def _tag(tags, k):
    t = tags.get(k) if isinstance(tags, dict) else None
    return t if isinstance(t, str) else "object"


def _scalar_eq(a, b):
    if isinstance(a, bool) or isinstance(b, bool):
        return isinstance(a, bool) and isinstance(b, bool) and a == b
    if isinstance(a, (int, float)) and isinstance(b, (int, float)):
        return a == b
    if isinstance(a, (dict, list)) or isinstance(b, (dict, list)):
        return False
    return type(a) is type(b) and a == b


# ------------------------------------------------------------------------------------------------ argument data
class ArgGen:
    """valid / invalid argument data: (gql form for variables, plain form for apischema.deserialize)
    gql form: enums by (aliased) name, literals by enum_aliaser(value), IDs encoded; plain form: enum values, raw literals, raw ids."""

    def __init__(self, model, rng, id_enc_for_input):
        self.m, self.rng = model, rng
        self.enc = id_enc_for_input
        self.want = None     # None | "gql" | "api"
        self.done = None     # construct tag of the injected violation

    def inject(self, kind):
        if self.want == kind and self.done is None and self.rng.random() < 0.6:
            return True
        return False

    def prim(self, p, cons):
        r = self.rng
        if self.inject("gql"):
            self.done = "ill-typed:" + p
            bad = {"int": "x", "float": "x", "str": 5, "bool": 1}[p]
            return bad, bad
        if cons and self.inject("api"):
            self.done = "constraint:" + next(iter(cons))
            v = -1 if "min" in cons else 11 if "max" in cons else "toolong" if "max_len" in cons else cons["bad"]
            return v, v
        if p == "int":
            v = r.choice([0, 1, 2, 5, 9])
        elif p == "float":
            v = r.choice([0.5, 2.0, 3, -1.25])
        elif p == "str":
            v = r.choice(["", "a", "ab", "é"])
        else:
            v = r.choice([True, False])
        return v, v

    def arg(self, t, depth=0):
        m, r = self.m, self.rng
        k = t[0]
        if k in ("opt", "undef"):
            inner = t[1]
            if k == "undef" and inner[0] == "opt":
                inner = inner[1]
                k = "opt"
            if k == "opt" and (r.random() < 0.25 or depth > 3):
                return None, None
            return self.arg(inner, depth)
        if k == "list":
            if self.inject("gql"):
                self.done = "null-in-nonnull" if t[1][0] != "opt" else None
                if self.done:
                    return [None], [None]
            n = r.choice([0, 1, 2])
            items = [self.arg(t[1], depth + 1) for _ in range(n)]
            return [i[0] for i in items], [i[1] for i in items]
        if k == "prim":
            return self.prim(t[1], t[2] if len(t) > 2 else None)
        if m.is_id(t):
            raw = r.choice(["id1", "abc", "k-42"])
            return (self.enc(raw) if self.enc else raw), raw
        if k == "enum":
            e = m.enums[t[1]]
            if self.inject("gql"):
                self.done = "unknown-enum-name"
                return "NO_SUCH_NAME", "NO_SUCH_NAME"
            mn, mv = r.choice(e["members"])
            return m.EA(mn), mv
        if k == "lit":
            if self.inject("gql"):
                self.done = "unknown-enum-name"
                return "NO_SUCH_NAME", "NO_SUCH_NAME"
            v = r.choice(m.lits[t[1]]["values"])
            return m.EA(v), v
        if k in ("new", "conv"):
            p = (m.news if k == "new" else m.convs)[t[1]]["prim"]
            if self.inject("api"):
                self.done = "custom-scalar-ill-typed"
                bad = {"int": "x", "float": "x", "str": 5, "bool": "x"}[p]
                return bad, bad
            want, self.want = self.want, None if self.want == "gql" else self.want   # custom scalars accept anything at GraphQL level
            try:
                return self.prim(p, None)
            finally:
                self.want = want
        if k == "obj":
            return self.obj(t[1], depth)
        raise ValueError(t)

    def obj(self, cname, depth):
        m, r = self.m, self.rng
        g, pl = {}, {}
        cl = m.classes[cname]
        ents = m.in_fields(cname)
        drop = None
        if self.inject("gql"):
            req = [e for e in ents if e["spec"]["default"] is None and not nullable(e["spec"]["t"])]
            if req and r.random() < 0.5:
                drop = r.choice(req)["name"]
                self.done = "missing-required-field"
            else:
                g["no_such_field"] = 1
                pl["no_such_field"] = 1
                self.done = "unknown-field"
        for e in ents:
            f = e["spec"]
            if e["name"] == drop:
                continue
            if f["default"] is not None and r.random() < 0.5:
                continue
            owner_v = m.classes[e["owner"]]["validator"]
            if owner_v and owner_v["field"] == f["name"] and self.inject("api"):
                self.done = "object-validator"
                a = (owner_v["bad"], owner_v["bad"])
            else:
                a = self.arg(f["t"], depth + 1)
            g[e["name"]], pl[e["name"]] = a
        return g, pl


def canon(v):
    """typed canonical image of a Python value reaching a resolver"""
    import dataclasses
    from enum import Enum

    from apischema import Undefined

    if v is Undefined:
        return "Undefined"
    if isinstance(v, Enum):
        return ("enum", type(v).__name__, v.name)
    if dataclasses.is_dataclass(v) and not isinstance(v, type):
        return ("obj", type(v).__name__, tuple((f.name, canon(getattr(v, f.name))) for f in dataclasses.fields(v)))
    if isinstance(v, (list, tuple)):
        return ("list", tuple(canon(x) for x in v))
    if hasattr(v, "v") and type(v).__module__.startswith("vfgql_"):
        return ("opaque", type(v).__name__, canon(v.v))
    if isinstance(v, float) and v == int(v):
        return ("num", int(v))
    if isinstance(v, bool):
        return ("bool", v)
    if isinstance(v, int):
        return ("num", v)
    return (type(v).__name__, v)
