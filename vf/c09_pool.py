"""C09 pool: a fixed module of small types, each sensitive to one registry / settings group of apischema,
plus the operation alphabet as *data* and the interpreter for operations and observations.

Everything an operation or an observation refers to is a *name* exported here (TYPES, IMPLS, DATA, VALUES), so a history
(list of JSON steps) can be replayed in any process that imports this module: the hot history runner, the reset oracle
(forked child), the cold oracle (`python -m vf.c09_cold`, a fresh interpreter) and `./check C09 --replay`.

Importing this module performs a few registrations through the public API ("Pre*" types), so that removals
(`reset_deserializers`, `reset_serializer`, `set_object_fields(cls, None)`) are observable from the pristine state.
No observation (deserialize / serialize / schema) is ever made at import time: the state after import is the cold start.
"""
import json
import re
from dataclasses import dataclass, field
from typing import Annotated, Any, Dict, List, Literal, NewType, Optional, Union

import apischema
from apischema import (
    ValidationError,
    alias,
    dependent_required,
    deserialize,
    deserializer,
    discriminator,
    order,
    schema,
    serialize,
    serialized,
    serializer,
    settings,
    type_name,
    validator,
)
from apischema.conversions import Conversion, reset_deserializers, reset_serializer
from apischema.fields import with_fields_set
from apischema.json_schema import JsonSchemaVersion, deserialization_schema, serialization_schema
from apischema.objects import ObjectField, set_object_fields
from apischema.serialization import PassThroughOptions
from apischema.type_names import TypeName

# --------------------------------------------------------------------------------------------------------------------
# types
# --------------------------------------------------------------------------------------------------------------------


class Conv:  # plain class: only (de)serializable through registered conversions
    def __init__(self, v):
        self.v = v


class ConvSub(Conv):  # serializers are inherited
    pass


@dataclass
class ConvHolder:
    c: Conv
    cs: List[Conv] = field(default_factory=list)


@dataclass
class ConvDC:  # a dataclass on which conversions may be registered on top of the native behaviour
    x: int = 0


class PreConv:  # has a deserializer and a serializer registered at import
    def __init__(self, v):
        self.v = v


def pre_from_int(i: int) -> PreConv:
    return PreConv(i)


def pre_to_int(p: PreConv) -> int:
    return p.v


deserializer(pre_from_int)
serializer(pre_to_int)


@dataclass
class PreConvHolder:
    p: PreConv
    ps: List[PreConv] = field(default_factory=list)


def conv_from_int(i: int) -> Conv:
    return Conv(i)


def conv_from_str(s: str) -> Conv:
    return Conv("s:" + s)


def conv_to_int(c: Conv) -> int:
    return c.v if isinstance(c.v, int) else -1


def conv_to_str(c: Conv) -> str:
    return "c:" + str(c.v)


def convdc_from_int(i: int) -> ConvDC:
    return ConvDC(i * 10)


def convdc_to_int(c: ConvDC) -> int:
    return c.x + 1000


def pre_from_str(s: str) -> PreConv:
    return PreConv("s:" + s)


def pre_to_str(p: PreConv) -> str:
    return "p:" + str(p.v)


conv_from_list = Conversion(lambda l: Conv(sum(l)), source=List[int], target=Conv)  # noqa: E741


class Obj:  # plain class, fields only through set_object_fields / settings.default_object_fields
    def __init__(self, a=0, b="b", c=None):
        self.a, self.b, self.c = a, b, c


@dataclass
class ObjDC:  # dataclass whose native fields can be overridden
    a: int
    b: str = "b"


class PreObj:  # fields registered at import
    def __init__(self, a=0, b="b"):
        self.a, self.b = a, b


obj_fields_a = [ObjectField("a", int)]
obj_fields_ab = [ObjectField("a", int), ObjectField("b", str, required=False, default="dflt")]
obj_fields_str = [ObjectField("a", str), ObjectField("c", Optional[int], required=False, default=None)]


def obj_fields_factory():
    return [ObjectField("b", str)]


set_object_fields(PreObj, [ObjectField("a", int), ObjectField("b", str, required=False, default="pre")])


@dataclass
class ObjHolder:
    o: Obj
    d: Optional[ObjDC] = None
    p: Optional[PreObj] = None


@dataclass
class Rec:  # natively recursive dataclass; registered fields make it flat or recursive again (the recursion analysis is cached too)
    v: int = 0
    next: Optional["Rec"] = None


rec_fields_flat = [ObjectField("v", int, required=False, default=0)]
rec_fields_rec = [ObjectField("v", int, required=False, default=0), ObjectField("next", Optional[Rec], required=False, default=None)]


@dataclass
class RecHolder:
    r: Rec
    rs: List[Rec] = field(default_factory=list)


@dataclass
class Named:
    x: int = 0


@dataclass
class NamedHolder:  # two occurrences -> the type is a $ref / $defs entry named after its type_name
    a: Named
    b: Optional[Named] = None


@dataclass
class XLeaf:
    x: int = 0


@dataclass
class XRef:  # references carrying user-supplied keywords next to them: the older dialects move the $ref into an `allOf`
    a: Annotated[XLeaf, schema(extra={"allOf": [{"title": "t"}]})]
    b: Optional[XLeaf] = None
    c: Annotated[Union[int, str, None], schema(extra={"anyOf": [{"title": "u"}]})] = None


@dataclass
class Cat:
    name: str = "c"


@dataclass
class Dog:
    name: str = "d"


PetU = Annotated[Union[Cat, Dog], discriminator("type")]  # discriminator values come from the type names
# partial explicit mapping kept in a user dict: the implicit key of the unmapped alternative (Dog) follows its type name
PetM = Annotated[Union[Cat, Dog], discriminator("type", {"kitty": Cat})]


@dataclass
class LitA:  # its registered fields may carry the discriminator value as a Literal (read through the cached object_fields)
    x: int = 0


@dataclass
class LitB:
    y: int = 0


LitU = Annotated[Union[LitA, LitB], discriminator("kind")]
lita_fields_plain = [ObjectField("x", int, required=False, default=0)]
lita_fields_lit = [ObjectField("kind", Literal["first"], required=False, default="first"), ObjectField("x", int, required=False, default=0)]
lita_fields_lit2 = [ObjectField("kind", Literal["premier", "first"], required=False, default="premier"), ObjectField("x", int, required=False, default=0)]


def tn_factory(tp, *args):
    return "F_" + tp.__name__


Sch = NewType("Sch", int)
SchStr = NewType("SchStr", str)


@dataclass
class SchDC:
    k: int = 0


@dataclass
class SchHolder:
    s: Sch
    l: List[Sch] = field(default_factory=list)  # noqa: E741
    t: SchStr = SchStr("ab")
    d: Optional[SchDC] = None


schema_min0 = schema(min=0)
schema_max5 = schema(max=5, description="at most five")
schema_empty = schema()
schema_minlen2 = schema(min_len=2)
schema_pattern = schema(pattern="^a", title="starts with a")
schema_title = schema(title="A titled class", description="described")
schema_minprops = schema(min_props=1)


@dataclass
class Aliased:
    some_field: int
    other_field: str = "x"
    fixed_field: int = field(default=0, metadata=alias("fixed", override=False))


@dataclass
class AliasedHolder:
    inner: Aliased
    own_field: int = 0


def upper_aliaser(s: str) -> str:
    return s.upper()


def dash_aliaser(s: str) -> str:
    return s.replace("_", "-")


def identity_aliaser(s: str) -> str:
    return s


@dataclass
class Ordered:
    a: int = 1
    b: int = 2
    c: int = 3


@dataclass
class OrderedHolder:
    o: Ordered
    z: int = 0


order_cab = ["c", "a", "b"]
order_bca = ["b", "c", "a"]
order_a_last = {"a": order(1)}
order_c_first = {"c": order(-1)}
order_none = {}


@dataclass
class Validated:
    a: int = 0
    b: int = 0


@dataclass
class ValidatedHolder:
    v: Validated
    vs: List[Validated] = field(default_factory=list)


def val_a_not_one(self):
    if self.a == 1:
        raise ValidationError("a must not be 1")


def val_b_le_a(self):
    if self.b > self.a:
        yield "b greater than a"


def val_sum(self):
    if self.a + self.b == 7:
        raise ValidationError("sum is 7")


def val_field_a(self):
    if self.a == 2:
        raise ValidationError("a is 2")


@dataclass
class DepReq:
    a: Optional[int] = None
    b: Optional[int] = None
    c: Optional[int] = None


@dataclass
class DepReqHolder:
    d: DepReq


dr_a_needs_b = ({"a": ["b"]}, ())
dr_b_needs_c = ({"b": ["c"]}, ())
dr_group_ac = ({}, (["a", "c"],))


class Base:  # plain base class: deserializable only once a discriminator is registered
    pass


@dataclass
class SubA(Base):
    x: int = 0


@dataclass
class SubB(Base):
    y: str = ""


@dataclass
class BaseHolder:
    item: Base
    items: List[Base] = field(default_factory=list)


UnionSub = Union[SubA, SubB]

disc_kind = discriminator("kind")
disc_type = discriminator("type")
disc_kind_mapping = discriminator("kind", {"a": SubA, "b": SubB})


@dataclass
class Meth:
    x: int = 1


@dataclass
class MethHolder:
    m: Meth
    ms: List[Meth] = field(default_factory=list)


def double(self) -> int:
    return self.x * 2


def triple(self) -> int:
    return self.x * 3


def label(self) -> str:
    return "x=" + str(self.x)


@dataclass
class Cons:  # one field per customisable error message
    req: int
    mn: int = field(default=0, metadata=schema(min=0))
    mx: int = field(default=0, metadata=schema(max=10))
    emn: int = field(default=1, metadata=schema(exc_min=0))
    emx: int = field(default=0, metadata=schema(exc_max=10))
    mul: int = field(default=0, metadata=schema(mult_of=3))
    minl: str = field(default="ab", metadata=schema(min_len=2))
    maxl: str = field(default="", metadata=schema(max_len=3))
    pat: str = field(default="a", metadata=schema(pattern="^a"))
    mini: List[int] = field(default_factory=lambda: [1], metadata=schema(min_items=1))
    maxi: List[int] = field(default_factory=list, metadata=schema(max_items=2))
    uniq: List[int] = field(default_factory=list, metadata=schema(unique=True))
    minp: Dict[str, int] = field(default_factory=lambda: {"k": 1}, metadata=schema(min_props=1))
    maxp: Dict[str, int] = field(default_factory=dict, metadata=schema(max_props=1))
    lit: Literal["a", "b"] = "a"
    tup: tuple[int, int] = (0, 0)


CONS_BAD = {"mn": -1, "mx": 11, "emn": 0, "emx": 10, "mul": 4, "minl": "a", "maxl": "abcd", "pat": "b", "mini": [], "maxi": [1, 2, 3],
            "uniq": [1, 1], "minp": {}, "maxp": {"a": 1, "b": 2}, "lit": "c", "tup": [1], "extra": 1}

ConsInt = Annotated[int, schema(min=0, max=10, mult_of=2)]


def err_callable(constraint, data):
    return "custom error: " + repr(constraint) + " violated by " + repr(data)


@dataclass
class Defaulted:  # exclude_defaults / exclude_none / fall_back_on_default / additional_properties
    a: int = 1
    b: Optional[int] = None
    c: str = "c"


@with_fields_set
@dataclass
class FS:  # exclude_unset
    a: int = 1
    b: int = 2


@dataclass
class Raw:  # a "raw" dataclass: eligible for settings.deserialization.override_dataclass_constructors
    a: int = 0
    b: int = 5
    y: int = 0


class _Doubling:  # data descriptor installed after @dataclass: the generated __init__ goes through it, a direct __dict__ write does not
    def __set__(self, obj, v):
        obj.__dict__["_y"] = v * 2

    def __get__(self, obj, owner=None):
        return self if obj is None else obj.__dict__.get("_y")


Raw.y = _Doubling()


@dataclass
class RawHolder:
    r: Raw
    rs: List[Raw] = field(default_factory=list)


class Dof:  # plain class: fields only via settings.default_object_fields = pool_default_object_fields
    def __init__(self, n=0):
        self.n = n


@dataclass
class DofHolder:
    d: Dof


@dataclass
class A1:
    x: int = 0


@dataclass
class B1:
    x: int = 0


U_AB = Union[A1, B1]  # equal as typing objects, different alternative order (finding F21)
U_BA = Union[B1, A1]

ListInt = List[int]
DictAny = Dict[str, Any]
OptInt = Optional[int]

ORIG = {
    "aliaser": settings.aliaser,
    "default_object_fields": settings.default_object_fields,
    "default_type_name": settings.default_type_name,
    "coercer": settings.deserialization.coercer,
    "deser_default_conversion": settings.deserialization.default_conversion,
    "ser_default_conversion": settings.serialization.default_conversion,
    "ser_pass_through": settings.serialization.pass_through,
    "bs_field": settings.base_schema.field,
    "bs_method": settings.base_schema.method,
    "bs_parameter": settings.base_schema.parameter,
    "bs_type": settings.base_schema.type,
}
ERROR_ATTRS = ["minimum", "maximum", "exclusive_minimum", "exclusive_maximum", "multiple_of", "min_length", "max_length", "pattern",
               "min_items", "max_items", "unique_items", "min_properties", "max_properties", "one_of", "unexpected_property", "missing_property"]
ORIG_ERRORS = {a: getattr(settings.errors, a) for a in ERROR_ATTRS}


def pool_default_object_fields(cls):
    if cls is Dof:
        return [ObjectField("n", int, required=False, default=7)]
    if cls is Obj:
        return [ObjectField("c", Optional[int], required=False, default=None)]
    return ORIG["default_object_fields"](cls)


def pool_default_object_fields2(cls):
    if cls is Dof:
        return [ObjectField("n", str)]
    return ORIG["default_object_fields"](cls)


def pool_default_type_name(tp):
    base = ORIG["default_type_name"](tp)
    if base is None or base.json_schema is None:
        return base
    return TypeName("P_" + base.json_schema, "P_" + (base.graphql or base.json_schema))


def pool_coercer(cls, data):
    if cls is int and isinstance(data, str):
        return len(data)
    return ORIG["coercer"](cls, data)


def pool_deser_default_conversion(tp):
    if tp is Conv:
        return conv_from_str
    return ORIG["deser_default_conversion"](tp)


def pool_ser_default_conversion(tp):
    if tp is Conv:
        return conv_to_str
    return ORIG["ser_default_conversion"](tp)


def bs_type(tp):
    return schema(title="T:" + tp.__name__) if isinstance(tp, type) and tp.__module__ == __name__ else None


def bs_field(tp, name, alias_):
    return schema(description="field " + name + " as " + alias_)


def bs_method(tp, method, alias_):
    return schema(description="method " + alias_)


def bs_parameter(func, param, alias_):
    return schema(description="parameter " + alias_)


IMPLS = {
    # conversions
    "conv_from_int": conv_from_int, "conv_from_str": conv_from_str, "conv_from_list": conv_from_list, "conv_to_int": conv_to_int,
    "conv_to_str": conv_to_str, "convdc_from_int": convdc_from_int, "convdc_to_int": convdc_to_int, "pre_from_str": pre_from_str,
    "pre_from_int": pre_from_int, "pre_to_str": pre_to_str, "pre_to_int": pre_to_int,
    # object fields
    "rec_fields_flat": rec_fields_flat, "rec_fields_rec": rec_fields_rec,
    "lita_fields_plain": lita_fields_plain, "lita_fields_lit": lita_fields_lit, "lita_fields_lit2": lita_fields_lit2,
    "obj_fields_a": obj_fields_a, "obj_fields_ab": obj_fields_ab, "obj_fields_str": obj_fields_str, "obj_fields_factory": obj_fields_factory,
    # type names
    "tn_factory": tn_factory,
    # schemas
    "schema_min0": schema_min0, "schema_max5": schema_max5, "schema_empty": schema_empty, "schema_minlen2": schema_minlen2,
    "schema_pattern": schema_pattern, "schema_title": schema_title, "schema_minprops": schema_minprops,
    # aliasers
    "upper_aliaser": upper_aliaser, "dash_aliaser": dash_aliaser, "identity_aliaser": identity_aliaser, "default_aliaser": ORIG["aliaser"],
    # orderings
    "order_cab": order_cab, "order_bca": order_bca, "order_a_last": order_a_last, "order_c_first": order_c_first, "order_none": order_none,
    # validators
    "val_a_not_one": val_a_not_one, "val_b_le_a": val_b_le_a, "val_sum": val_sum, "val_field_a": val_field_a,
    # dependent required
    "dr_a_needs_b": dr_a_needs_b, "dr_b_needs_c": dr_b_needs_c, "dr_group_ac": dr_group_ac,
    # discriminators
    "disc_kind": disc_kind, "disc_type": disc_type, "disc_kind_mapping": disc_kind_mapping,
    # serialized methods
    "double": double, "triple": triple, "label": label,
    # settings values
    "pool_default_object_fields": pool_default_object_fields, "pool_default_object_fields2": pool_default_object_fields2,
    "orig_default_object_fields": ORIG["default_object_fields"],
    "pool_default_type_name": pool_default_type_name, "orig_default_type_name": ORIG["default_type_name"],
    "jsv_2020_12": JsonSchemaVersion.DRAFT_2020_12, "jsv_2019_09": JsonSchemaVersion.DRAFT_2019_09, "jsv_draft7": JsonSchemaVersion.DRAFT_7,
    "jsv_oas30": JsonSchemaVersion.OPEN_API_3_0, "jsv_oas31": JsonSchemaVersion.OPEN_API_3_1,
    "pool_coercer": pool_coercer, "orig_coercer": ORIG["coercer"],
    "pool_deser_default_conversion": pool_deser_default_conversion, "orig_deser_default_conversion": ORIG["deser_default_conversion"],
    "pool_ser_default_conversion": pool_ser_default_conversion, "orig_ser_default_conversion": ORIG["ser_default_conversion"],
    "pt_none": (), "pt_conv": (Conv, PreConv), "pt_raw": (Raw,),
    "spt_default": ORIG["ser_pass_through"], "spt_dataclasses": PassThroughOptions(dataclasses=True),
    "spt_all": PassThroughOptions(any=True, collections=True, dataclasses=True, enums=True, tuple=True, types=(Conv,)),
    "err_callable": err_callable,
    "bs_type": bs_type, "bs_field": bs_field, "bs_method": bs_method, "bs_parameter": bs_parameter,
    "orig_bs_type": ORIG["bs_type"], "orig_bs_field": ORIG["bs_field"], "orig_bs_method": ORIG["bs_method"], "orig_bs_parameter": ORIG["bs_parameter"],
}
for _a in ERROR_ATTRS:
    IMPLS["orig_err_" + _a] = ORIG_ERRORS[_a]

TYPES = {
    "Conv": Conv, "ConvSub": ConvSub, "ConvHolder": ConvHolder, "ConvDC": ConvDC, "PreConv": PreConv, "PreConvHolder": PreConvHolder,
    "Obj": Obj, "ObjDC": ObjDC, "PreObj": PreObj, "ObjHolder": ObjHolder, "Rec": Rec, "RecHolder": RecHolder,
    "Named": Named, "NamedHolder": NamedHolder, "XRef": XRef, "Cat": Cat, "Dog": Dog, "PetU": PetU, "PetM": PetM, "LitA": LitA, "LitU": LitU,
    "Sch": Sch, "SchStr": SchStr, "SchDC": SchDC, "SchHolder": SchHolder,
    "Aliased": Aliased, "AliasedHolder": AliasedHolder,
    "Ordered": Ordered, "OrderedHolder": OrderedHolder,
    "Validated": Validated, "ValidatedHolder": ValidatedHolder,
    "DepReq": DepReq, "DepReqHolder": DepReqHolder,
    "Base": Base, "SubA": SubA, "SubB": SubB, "BaseHolder": BaseHolder, "UnionSub": UnionSub,
    "Meth": Meth, "MethHolder": MethHolder,
    "Cons": Cons, "ConsInt": ConsInt,
    "Defaulted": Defaulted, "FS": FS, "Raw": Raw, "RawHolder": RawHolder, "Dof": Dof, "DofHolder": DofHolder,
    "A1": A1, "B1": B1, "U_AB": U_AB, "U_BA": U_BA,
    "Int": int, "ListInt": ListInt, "DictAny": DictAny, "OptInt": OptInt, "AnyT": Any,
}
# permutation twins: typing-equal unions with another alternative order (explanatory model of finding F21)
TWINS = {"U_AB": "U_BA", "U_BA": "U_AB"}

# data for deserialize observations (JSON), per type
DATA = {
    "Conv": [1, "s", [1, 2], 1.5], "ConvSub": [1], "ConvHolder": [{"c": 1, "cs": ["a", 2]}], "ConvDC": [3, {"x": 3}],
    "PreConv": [1, "s"], "PreConvHolder": [{"p": 1, "ps": [2, "t"]}],
    "Obj": [{"a": 1}, {"a": "s", "c": 2}, {"b": "x"}, {}], "ObjDC": [{"a": 1}, {"a": 1, "b": "z"}, {"b": "only"}], "PreObj": [{"a": 1}, {}],
    "ObjHolder": [{"o": {"a": 1}, "d": {"a": 2}, "p": {"a": 3}}],
    "Rec": [{"v": 1, "next": {"v": 2, "next": None}}, {"v": 1}], "RecHolder": [{"r": {"v": 1, "next": {"v": 2}}, "rs": [{"v": 3}]}],
    "Named": [{"x": 1}], "NamedHolder": [{"a": {"x": 1}, "b": {"x": 2}}], "XRef": [{"a": {"x": 1}, "c": "s"}], "Cat": [{"name": "tom"}],
    "PetU": [{"type": "Cat", "name": "tom"}, {"type": "Kitty", "name": "tom"}, {"type": "P_Cat"}, {"type": "F_Cat"}, {"type": "Dog"}],
    "PetM": [{"type": "kitty", "name": "tom"}, {"type": "Dog", "name": "rex"}, {"type": "Doggo", "name": "rex"}, {"type": "Cat"}],
    "LitA": [{"x": 1}, {"kind": "first", "x": 1}],
    "LitU": [{"kind": "LitA", "x": 1}, {"kind": "first", "x": 1}, {"kind": "premier"}, {"kind": "LitB", "y": 2}],
    "Sch": [-1, 3, 7], "SchStr": ["a", "bcd", "abc"], "SchDC": [{"k": 1}, {}], "SchHolder": [{"s": -1, "l": [7, -2], "t": "b", "d": {}}],
    "Aliased": [{"some_field": 1, "other_field": "y", "fixed": 2}, {"SOME_FIELD": 1, "OTHER_FIELD": "y", "fixed": 2}, {"some-field": 1, "someField": 1}],
    "AliasedHolder": [{"inner": {"some_field": 1}, "own_field": 2}, {"INNER": {"SOME_FIELD": 1}, "OWN_FIELD": 2}, {"inner": {"SOME_FIELD": 1}, "ownField": 3}],
    "Ordered": [{"c": 30, "a": 10}], "OrderedHolder": [{"o": {"b": 5}, "z": 1}],
    "Validated": [{"a": 1, "b": 0}, {"a": 3, "b": 4}, {"a": 2, "b": 9}, {"A": 2, "B": 9}], "ValidatedHolder": [{"v": {"a": 1}, "vs": [{"a": 3, "b": 4}, {"a": 2}]}],
    "DepReq": [{"a": 1}, {"b": 1}, {"a": 1, "b": 2}, {"c": 1}], "DepReqHolder": [{"d": {"a": 1}}],
    "Base": [{"kind": "SubA", "x": 1}, {"type": "SubB", "y": "s"}, {"kind": "a", "x": 2}, {"x": 1}],
    "SubA": [{"x": 1}], "BaseHolder": [{"item": {"kind": "SubA", "x": 1}, "items": [{"kind": "b", "y": "t"}, {"type": "SubA"}]}],
    "UnionSub": [{"kind": "SubB", "y": "u"}, {"y": "u"}, {"type": "SubA", "x": 3}],
    "Meth": [{"x": 2}], "MethHolder": [{"m": {"x": 2}}],
    "Cons": [CONS_BAD, {"req": 1}], "ConsInt": [-1, 11, 4],
    "Defaulted": [{"a": "bad", "extra": 1}, {"a": "bad"}, {"b": 2}], "FS": [{"a": 5}],
    "Raw": [{"b": 1, "y": 4}, {"a": 2}], "RawHolder": [{"r": {"y": 1}, "rs": [{"a": 1}]}], "Dof": [{"n": 3}, {}, {"n": "s"}], "DofHolder": [{"d": {}}],
    "A1": [{"x": 1}], "U_AB": [{"x": 1}], "U_BA": [{"x": 1}],
    "Int": ["12", 1, None], "ListInt": [[1, "2"], [1, 2]], "DictAny": [{"a": [1, {"b": None}]}], "OptInt": [None, "", "3"], "AnyT": [{"k": [1]}],
}


def _aliased():
    return Aliased(1, "y", 2)


# values for serialize observations: zero-argument factories (named by index), per declared type
VALUES = {
    "Conv": [lambda: Conv(1), lambda: Conv("s")], "ConvSub": [lambda: ConvSub(2)], "ConvHolder": [lambda: ConvHolder(Conv(1), [Conv("a"), ConvSub(2)])],
    "ConvDC": [lambda: ConvDC(3)], "PreConv": [lambda: PreConv(1)], "PreConvHolder": [lambda: PreConvHolder(PreConv(1), [PreConv(2)])],
    "Obj": [lambda: Obj(1, "x", 2)], "ObjDC": [lambda: ObjDC(1, "z")], "PreObj": [lambda: PreObj(1, "q")],
    "ObjHolder": [lambda: ObjHolder(Obj(1, "x", 2), ObjDC(2), PreObj(3))],
    "Rec": [lambda: Rec(1, Rec(2))], "RecHolder": [lambda: RecHolder(Rec(1, Rec(2)), [Rec(3)])],
    "Named": [lambda: Named(1)], "NamedHolder": [lambda: NamedHolder(Named(1), Named(2))], "XRef": [lambda: XRef(XLeaf(1), XLeaf(2), 3)], "PetU": [lambda: Cat("tom"), lambda: Dog("rex")], "PetM": [lambda: Cat("tom"), lambda: Dog("rex")],
    "LitA": [lambda: LitA(1)], "LitU": [lambda: LitA(1), lambda: LitB(2)],
    "Sch": [lambda: 3], "SchHolder": [lambda: SchHolder(Sch(1), [Sch(2)])], "SchDC": [lambda: SchDC(1)],
    "Aliased": [_aliased], "AliasedHolder": [lambda: AliasedHolder(_aliased(), 2)],
    "Ordered": [lambda: Ordered()], "OrderedHolder": [lambda: OrderedHolder(Ordered(), 1)],
    "Validated": [lambda: Validated(1, 0)], "DepReq": [lambda: DepReq(1)],
    "Base": [lambda: SubA(1), lambda: SubB("s")], "BaseHolder": [lambda: BaseHolder(SubA(1), [SubB("t")])], "UnionSub": [lambda: SubB("u")],
    "Meth": [lambda: Meth(2)], "MethHolder": [lambda: MethHolder(Meth(2), [Meth(3)])],
    "Cons": [lambda: Cons(1)],
    "Defaulted": [lambda: Defaulted(), lambda: Defaulted(2, 3, "d")], "FS": [lambda: FS(a=5), lambda: FS()],
    "Raw": [lambda: Raw(1, 2, 3)], "Dof": [lambda: Dof(4)], "DofHolder": [lambda: DofHolder(Dof(4))],
    "U_AB": [lambda: B1(1)], "U_BA": [lambda: B1(1)],
    "Int": [lambda: 1, lambda: "not an int"], "ListInt": [lambda: [1, 2], lambda: (1, 2)], "DictAny": [lambda: {"a": Defaulted(), "b": [Conv(1)]}],
    "OptInt": [lambda: None], "AnyT": [lambda: Defaulted(), lambda: SubA(1), lambda: Conv(1), lambda: {"k": Named(2)}],
}

# --------------------------------------------------------------------------------------------------------------------
# operation alphabet (data).  "types": the pool types whose observations the operation is expected to be able to affect
# (only used to *select* histories; the oracles never look at it).
# --------------------------------------------------------------------------------------------------------------------
GENERIC = ["Int", "ListInt", "DictAny", "OptInt", "Defaulted"]
CONV_T = ["Conv", "ConvSub", "ConvHolder", "AnyT"]
PRE_T = ["PreConv", "PreConvHolder"]
OBJ_T = ["Obj", "ObjHolder"]
ALL_OBJECTS = ["Defaulted", "Aliased", "AliasedHolder", "Ordered", "NamedHolder", "ObjDC", "Raw", "Cons", "FS", "Meth", "PetU", "PetM", "Base", "UnionSub"]


def _ops():
    ops = []

    def add(types, **op):
        op["types"] = types
        ops.append(op)

    # --- conversions
    for impl in ("conv_from_int", "conv_from_str", "conv_from_list"):
        add(CONV_T, op="deserializer", target="Conv", impl=impl)
    add(CONV_T, op="reset_deserializers", target="Conv")
    for impl in ("conv_to_int", "conv_to_str"):
        add(CONV_T, op="serializer", target="Conv", impl=impl)
    add(CONV_T, op="reset_serializer", target="Conv")
    add(CONV_T, op="cache_set_size", target="Conv", v=64)
    add(["ConvDC"], op="deserializer", target="ConvDC", impl="convdc_from_int")
    add(["ConvDC"], op="reset_deserializers", target="ConvDC")
    add(["ConvDC"], op="serializer", target="ConvDC", impl="convdc_to_int")
    add(["ConvDC"], op="reset_serializer", target="ConvDC")
    add(PRE_T, op="deserializer", target="PreConv", impl="pre_from_str")
    add(PRE_T, op="deserializer", target="PreConv", impl="pre_from_int")
    add(PRE_T, op="reset_deserializers", target="PreConv")
    add(PRE_T, op="serializer", target="PreConv", impl="pre_to_str")
    add(PRE_T, op="serializer", target="PreConv", impl="pre_to_int")
    add(PRE_T, op="reset_serializer", target="PreConv")
    # --- object fields
    for impl in ("obj_fields_a", "obj_fields_ab", "obj_fields_str", "obj_fields_factory", None):
        add(OBJ_T, op="set_object_fields", target="Obj", impl=impl)
    for impl in ("obj_fields_a", "obj_fields_factory", None):
        add(["ObjDC", "ObjHolder"], op="set_object_fields", target="ObjDC", impl=impl)
    for impl in ("obj_fields_a", None):
        add(["PreObj", "ObjHolder"], op="set_object_fields", target="PreObj", impl=impl)
    for impl in ("rec_fields_flat", "rec_fields_rec", None):
        add(["Rec", "RecHolder"], op="set_object_fields", target="Rec", impl=impl)
    for impl in ("lita_fields_plain", "lita_fields_lit", "lita_fields_lit2", None):
        add(["LitU", "LitA"], op="set_object_fields", target="LitA", impl=impl)
    # --- type names
    for target, types in (("Named", ["Named", "NamedHolder"]), ("Cat", ["PetU", "Cat"]), ("SubA", ["Base", "UnionSub", "BaseHolder"]), ("Dog", ["PetM", "Dog"])):
        add(types, op="type_name", target=target, v={"Named": "Renamed", "Cat": "Kitty", "SubA": "a", "Dog": "Doggo"}[target])
        add(types, op="type_name", target=target, v=None)
        add(types, op="type_name", target=target, impl="tn_factory")
    # --- schema registry
    for impl in ("schema_min0", "schema_max5", "schema_empty"):
        add(["Sch", "SchHolder"], op="schema", target="Sch", impl=impl)
    for impl in ("schema_minlen2", "schema_pattern", "schema_empty"):
        add(["SchStr", "SchHolder"], op="schema", target="SchStr", impl=impl)
    for impl in ("schema_title", "schema_minprops", "schema_empty"):
        add(["SchDC", "SchHolder"], op="schema", target="SchDC", impl=impl)
    # --- class aliasers
    for impl in ("upper_aliaser", "dash_aliaser", "identity_aliaser"):
        add(["Aliased", "AliasedHolder"], op="alias", target="Aliased", impl=impl)
    add(["AliasedHolder"], op="alias", target="AliasedHolder", impl="upper_aliaser")
    for impl in ("upper_aliaser", "identity_aliaser"):
        add(["Validated", "ValidatedHolder"], op="alias", target="Validated", impl=impl)
    # --- order overriding
    for impl in ("order_cab", "order_bca", "order_a_last", "order_c_first", "order_none"):
        add(["Ordered", "OrderedHolder"], op="order", target="Ordered", impl=impl)
    # --- validators
    for impl in ("val_a_not_one", "val_b_le_a", "val_sum"):
        add(["Validated", "ValidatedHolder"], op="validator", target="Validated", impl=impl)
    add(["Validated", "ValidatedHolder"], op="validator", target="Validated", impl="val_field_a", field="a")
    # --- dependent required
    for impl in ("dr_a_needs_b", "dr_b_needs_c", "dr_group_ac"):
        add(["DepReq", "DepReqHolder"], op="dependent_required", target="DepReq", impl=impl)
    # --- discriminators
    for impl in ("disc_kind", "disc_type", "disc_kind_mapping"):
        add(["Base", "UnionSub", "BaseHolder", "SubA"], op="discriminator", target="Base", impl=impl)
    # --- serialized methods
    add(["Meth", "MethHolder"], op="serialized", target="Meth", impl="double", alias=None)
    add(["Meth", "MethHolder"], op="serialized", target="Meth", impl="triple", alias="double")  # replaces the alias
    add(["Meth", "MethHolder"], op="serialized", target="Meth", impl="label", alias="lbl")
    # --- top-level settings
    for v in (True, False):
        add(ALL_OBJECTS + ["DictAny"], op="set", path="settings.additional_properties", v=v)
        add(ALL_OBJECTS, op="set", path="settings.camel_case", v=v)
    for impl in ("upper_aliaser", "dash_aliaser", "default_aliaser"):
        add(ALL_OBJECTS + ["AliasedHolder"], op="set", path="settings.aliaser", impl=impl)
    for impl in ("pool_default_object_fields", "pool_default_object_fields2", "orig_default_object_fields"):
        add(["Dof", "DofHolder", "Obj", "ObjHolder", "PreObj", "ObjDC"], op="set", path="settings.default_object_fields", impl=impl)
    for impl in ("pool_default_type_name", "orig_default_type_name"):
        add(["PetU", "NamedHolder", "Base", "UnionSub", "BaseHolder", "Named"], op="set", path="settings.default_type_name", impl=impl)
    for impl in ("jsv_draft7", "jsv_2019_09", "jsv_oas30", "jsv_oas31", "jsv_2020_12"):
        add(["NamedHolder", "DepReq", "Cons", "PetU", "OptInt", "XRef"], op="set", path="settings.json_schema_version", impl=impl)
    # --- settings.deserialization
    D = "settings.deserialization."
    for v in (True, False):
        add(["Int", "ListInt", "OptInt", "Defaulted", "Cons"], op="set", path=D + "coerce", v=v)
        add(["Defaulted", "Cons", "SchHolder"], op="set", path=D + "fall_back_on_default", v=v)
        add(["ListInt", "DictAny", "AnyT"], op="set", path=D + "no_copy", v=v)
        add(["Raw", "RawHolder", "Defaulted"], op="set", path=D + "override_dataclass_constructors", v=v)
    for impl in ("pool_coercer", "orig_coercer"):
        add(["Int", "ListInt", "OptInt"], op="set", path=D + "coercer", impl=impl)
    for impl in ("pool_deser_default_conversion", "orig_deser_default_conversion"):
        add(CONV_T + PRE_T, op="set", path=D + "default_conversion", impl=impl)
    for impl in ("pt_conv", "pt_raw", "pt_none"):
        add(["Conv", "ConvHolder", "PreConv", "Raw", "RawHolder"], op="set", path=D + "pass_through", impl=impl)
    # --- settings.serialization
    S = "settings.serialization."
    for v in (True, False):
        add(["Int", "ListInt", "Defaulted", "AnyT"], op="set", path=S + "check_type", v=v)
        add(["Base", "BaseHolder", "Conv", "AnyT", "Dof"], op="set", path=S + "fall_back_on_any", v=v)
        add(["Defaulted", "Cons", "FS", "AnyT", "Raw"], op="set", path=S + "exclude_defaults", v=v)
        add(["Defaulted", "DepReq", "AnyT", "ObjHolder"], op="set", path=S + "exclude_none", v=v)
        add(["FS"], op="set", path=S + "exclude_unset", v=v)
        add(["ListInt", "DictAny", "AnyT"], op="set", path=S + "no_copy", v=v)
    for impl in ("pool_ser_default_conversion", "orig_ser_default_conversion"):
        add(CONV_T + PRE_T, op="set", path=S + "default_conversion", impl=impl)
    for impl in ("spt_dataclasses", "spt_all", "spt_default"):
        add(["Defaulted", "Conv", "ConvHolder", "ListInt", "DictAny", "AnyT", "Raw"], op="set", path=S + "pass_through", impl=impl)
    # --- settings.errors
    err_types = {"one_of": ["Cons", "PetU", "Base"], "missing_property": ["Cons", "PetU", "Base", "ObjDC"], "unexpected_property": ["Cons", "Defaulted"],
                 "minimum": ["Cons", "ConsInt", "Sch"], "maximum": ["Cons", "ConsInt", "Sch"], "multiple_of": ["Cons", "ConsInt"],
                 "min_length": ["Cons", "SchStr"], "pattern": ["Cons", "SchStr"], "min_items": ["Cons"], "max_items": ["Cons"], "min_properties": ["Cons", "SchDC"]}
    for a in ERROR_ATTRS:
        types = err_types.get(a, ["Cons"])
        tagged = "§" + a + ("" if a in ("unique_items", "unexpected_property", "missing_property") else ":{}")
        add(types, op="set", path="settings.errors." + a, v=tagged)
        add(types, op="set", path="settings.errors." + a, impl="orig_err_" + a)
    for a in ("minimum", "multiple_of", "max_length", "one_of"):
        add(err_types.get(a, ["Cons"]), op="set", path="settings.errors." + a, impl="err_callable")
    # --- settings.base_schema
    for a in ("type", "field", "method", "parameter"):
        types = {"type": ["Named", "NamedHolder", "Sch", "Defaulted"], "field": ["Defaulted", "Aliased", "NamedHolder"], "method": ["Meth", "MethHolder"], "parameter": ["Meth"]}[a]
        add(types, op="set", path="settings.base_schema." + a, impl="bs_" + a)
        add(types, op="set", path="settings.base_schema." + a, impl="orig_bs_" + a)
    return ops


OPS = _ops()


def op_kind(op) -> str:
    """mechanism-level name of an operation (violation feature `op`)"""
    k = op["op"]
    if k == "set":
        parts = op["path"].split(".")
        return ".".join(parts[:-1]) if len(parts) > 2 else "settings"
    if k == "set_object_fields" and op.get("impl") is None:
        return "set_object_fields(None)"
    return k


def op_group(op) -> str:
    """operations acting on the same registry entry / the same setting"""
    return op["path"] if op["op"] == "set" else {"reset_deserializers": "deserializer", "reset_serializer": "serializer"}.get(op["op"], op["op"]) + ":" + op["target"]


def _arg(op):
    return IMPLS[op["impl"]] if op.get("impl") is not None else op.get("v")


def apply(op):
    """execute one configuration operation through the public API"""
    k = op["op"]
    if k == "set":
        holder = settings
        *path, attr = op["path"].split(".")[1:]
        for p in path:
            holder = getattr(holder, p)
        setattr(holder, attr, _arg(op))
        return
    cls = TYPES[op["target"]]
    if k == "cache_set_size":  # resizes (re-creates) every cache: later operations must still invalidate them
        import apischema.cache
        apischema.cache.set_size(op["v"])
        return
    if k == "deserializer":
        deserializer(IMPLS[op["impl"]])
    elif k == "serializer":
        serializer(IMPLS[op["impl"]])
    elif k == "reset_deserializers":
        reset_deserializers(cls)
    elif k == "reset_serializer":
        reset_serializer(cls)
    elif k == "set_object_fields":
        set_object_fields(cls, _arg(op))
    elif k == "type_name":
        type_name(_arg(op))(cls)
    elif k == "schema":
        IMPLS[op["impl"]](cls)
    elif k == "alias":
        alias(IMPLS[op["impl"]])(cls)
    elif k == "order":
        order(IMPLS[op["impl"]])(cls)
    elif k == "validator":
        validator(op.get("field"), owner=cls)(IMPLS[op["impl"]])
    elif k == "dependent_required":
        fields, groups = IMPLS[op["impl"]]
        dependent_required(fields, *groups, owner=cls)
    elif k == "discriminator":
        IMPLS[op["impl"]](cls)
    elif k == "serialized":
        serialized(op.get("alias"), owner=cls)(IMPLS[op["impl"]])
    else:
        raise KeyError(k)


def apply_safe(op):
    """-> None or the exception class name (an operation raising is part of the history, not a verdict)"""
    try:
        apply(op)
    except Exception as e:  # noqa: BLE001
        return type(e).__name__
    return None


# --------------------------------------------------------------------------------------------------------------------
# observations
# --------------------------------------------------------------------------------------------------------------------
OBS_KINDS = ["deserialize", "serialize", "deserialization_schema", "serialization_schema"]


def observations_of(tname):
    out = [{"obs": "deserialize", "type": tname, "datum": i} for i in range(len(DATA.get(tname, ())))]
    out += [{"obs": "serialize", "type": tname, "value": i} for i in range(len(VALUES.get(tname, ())))]
    out += [{"obs": "deserialization_schema", "type": tname}, {"obs": "serialization_schema", "type": tname}]
    return out


ALL_OBS = [o for t in TYPES for o in observations_of(t)]

_ADDR = re.compile(r" at 0x[0-9a-fA-F]+")


def dump(x, depth=0):
    """canonical structural rendering: class names, attribute dict *in order*, containers tagged"""
    if depth > 20:
        return "<deep>"
    if x is None or type(x) in (bool, int, str):
        return x
    if type(x) is float:
        return {"$float": repr(x)}
    if type(x) is list:
        return [dump(e, depth + 1) for e in x]
    if isinstance(x, dict):
        if all(isinstance(k, str) for k in x):
            out = {str.__str__(k): dump(v, depth + 1) for k, v in x.items()}
            return out if type(x) is dict else {"$sub": type(x).__name__, "v": out}
        return {"$dict": [[dump(k, depth + 1), dump(v, depth + 1)] for k, v in x.items()]}
    if isinstance(x, (tuple, set, frozenset)):
        elts = sorted(x, key=repr) if isinstance(x, (set, frozenset)) else x
        return {"$" + type(x).__name__: [dump(e, depth + 1) for e in elts]}
    if isinstance(x, str):  # str subclasses (AliasedStr, str enums of the schema layer) as their plain value
        return str.__str__(x)
    if isinstance(x, int):
        return int(x)
    if isinstance(x, list):
        return {"$sub": type(x).__name__, "v": [dump(e, depth + 1) for e in x]}
    d = getattr(x, "__dict__", None)
    if isinstance(d, dict):
        return {"$cls": type(x).__name__, "attrs": [[k, dump(v, depth + 1)] for k, v in d.items()]}
    return {"$repr": _ADDR.sub("", repr(x))[:300], "$cls": type(x).__name__}


def observe(obs) -> str:
    """perform one observation through the public API with no explicit option (the global configuration decides);
    never reuses a precomputed method; -> canonical JSON string"""
    tp = TYPES[obs["type"]]
    k = obs["obs"]
    try:
        if k == "deserialize":
            datum = json.loads(json.dumps(DATA[obs["type"]][obs["datum"]]))  # private copy
            v = deserialize(tp, datum)
            out = {"ok": dump(v)}
            if isinstance(datum, (list, dict)):
                out["same_object"] = v is datum
        elif k == "serialize":
            out = {"ok": dump(serialize(tp, VALUES[obs["type"]][obs["value"]]()))}
        elif k == "deserialization_schema":
            out = {"ok": dump(deserialization_schema(tp))}
        elif k == "serialization_schema":
            out = {"ok": dump(serialization_schema(tp))}
        else:
            raise KeyError(k)
    except ValidationError as e:
        try:
            out = {"verr": dump(e.errors)}
        except Exception as e2:  # noqa: BLE001
            out = {"verr_unrenderable": type(e2).__name__}
    except RecursionError:
        out = {"exc": "RecursionError"}
    except Exception as e:  # noqa: BLE001
        out = {"exc": type(e).__name__, "msg": _ADDR.sub("", str(e))[:400]}
    return json.dumps(out, ensure_ascii=True)


def cache_reset():
    apischema.cache.reset()
