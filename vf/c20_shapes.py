"""C20 helper: fresh type clusters with ground truth known by construction.

A *shape* is a small JSON-serialisable description (classes, field types, entry points).  `render(shape, sfx)`
gives Python source in which every class name carries the suffix, so that the same shape can be loaded many
times as *fresh* types (and once more as the sequential twin).  Field types use a tiny AST:

    ["int"] ["str"] ["float"] ["bool"]   ["opt", t] ["list", t] ["dict", t] ["union", t1, t2] ["tuple2", t1, t2]
    ["ref", C]        a class of the cluster (always rendered as a forward-reference string)
    ["gen", C, t]     C[t] for a generic class C
    ["tv"]            the type variable of the enclosing generic class
    ["csv"]           List[str] with a field-level conversion from / to a comma separated string

Class kinds: "dc" (dataclass, optionally generic), "idstr" (opaque class with registered deserializer /
serializer from / to str), "idlazy" (same, registered with lazy=...), "wrapof" (opaque class converted from / to
another class of the cluster -- a conversion edge in the reference graph).

Ground truth ("is on a reference cycle") is computed from the shape's graph (SCCs), never from apischema.
"""
import dataclasses
import json
import linecache
import sys
import types

PRIMS = {"int": "int", "str": "str", "float": "float", "bool": "bool"}

PRELUDE = """\
from dataclasses import dataclass, field
from typing import Any, Dict, Generic, List, Optional, Tuple, TypeVar, Union
from apischema import deserializer, serializer, validator as _validator, ValidationError as _VE
from apischema.conversions import Conversion, LazyConversion
from apischema.metadata import conversion as _conv_md, flatten as _flatten_md, validators as _validators_md
T = TypeVar("T")
def _from_csv(s: str) -> List[str]:
    return s.split(",") if s else []
def _to_csv(l: List[str]) -> str:
    return ",".join(l)
"""


# ---------------------------------------------------------------- rendering
def ann(t, sfx, quoted=False):
    if t[0] == "flat":
        t = ["ref", t[1]]
    k = t[0]
    if k in PRIMS:
        return PRIMS[k]
    if k == "opt":
        return f"Optional[{ann(t[1], sfx, quoted)}]"
    if k == "list":
        return f"List[{ann(t[1], sfx, quoted)}]"
    if k == "dict":
        return f"Dict[str, {ann(t[1], sfx, quoted)}]"
    if k == "union":
        return f"Union[{ann(t[1], sfx, quoted)}, {ann(t[2], sfx, quoted)}]"
    if k == "tuple2":
        return f"Tuple[{ann(t[1], sfx, quoted)}, {ann(t[2], sfx, quoted)}]"
    if k == "ref":
        return f"{t[1]}_{sfx}" if quoted else f'"{t[1]}_{sfx}"'
    if k == "gen":
        inner = f"{t[1]}_{sfx}[{ann(t[2], sfx, True)}]"
        return inner if quoted else f'"{inner}"'
    if k == "tv":
        return "T"
    if k == "csv":
        return "List[str]"
    raise ValueError(t)


def expr(t, sfx):
    """evaluable expression (no forward strings) -- used for entry points after all classes exist"""
    return ann(t, sfx, quoted=True)


def render(shape, sfx):
    out = [PRELUDE]
    for c in shape["classes"]:
        n = f"{c['name']}_{sfx}"
        kind = c["kind"]
        if kind == "dc":
            out.append("@dataclass")
            out.append(f"class {n}{'(Generic[T])' if c.get('generic') else ''}:")
            for fname, ft in sorted(c["fields"], key=lambda f: f[1][0] in ("opt", "csv")):  # defaults last
                if ft[0] == "csv":
                    out.append(f"    {fname}: List[str] = field(default_factory=list, metadata=_conv_md(_from_csv, _to_csv))")
                elif ft[0] == "flat":  # flattened field: its properties are merged into the parent's
                    out.append(f"    {fname}: {ann(ft, sfx)} = field(metadata=_flatten_md)")
                elif ft[0] == "opt":
                    out.append(f"    {fname}: {ann(ft, sfx)} = None")
                elif fname in (c.get("md_validators") or {}):
                    # function validator given through field metadata (unregistered: its dependencies are computed when
                    # the method of the field's class is compiled, i.e. at first use)
                    out.append(f"    {fname}: {ann(ft, sfx)} = field(metadata=_validators_md(_chk_{c['md_validators'][fname]}_{sfx}))")
                else:
                    out.append(f"    {fname}: {ann(ft, sfx)}")
            if not c["fields"]:
                out.append("    pass")
            if c.get("helper"):  # helper method through which the checker below reads the fields a and b
                out.append("    def span(self):\n        return self.b - self.a")
                out.append(f"def _chk_{n}(o):\n    if o.span() < 0:\n        raise _VE(\"negative span\")")
            if c.get("validator"):  # class-level validator whose dependencies are the int fields a and b
                out.append("    @_validator\n    def _check_ab(self):\n        if self.a > self.b:\n            raise _VE(\"a > b\")")
        elif kind in ("idstr", "idlazy", "wrapof"):
            out.append(f"class {n}:")
            out.append("    def __init__(self, v):\n        self.v = v")
            out.append("    def __eq__(self, o):\n        return type(o) is type(self) and o.v == self.v")
            out.append("    __hash__ = None")
            src = "str" if kind != "wrapof" else f'"{c["target"]}_{sfx}"'
            if kind == "idlazy":
                out.append(f"def _{n}_from(v: {src}) -> {n}:\n    return {n}(v)")
                out.append(f"def _{n}_to(o: {n}) -> {src}:\n    return o.v")
                out.append(f"deserializer(lazy=lambda: Conversion(_{n}_from, source=str, target={n}), target={n})")
                out.append(f"serializer(lazy=lambda: Conversion(_{n}_to, source={n}, target=str), source={n})")
            else:
                out.append(f"@deserializer\ndef _{n}_from(v: {src}) -> {n}:\n    return {n}(v)")
                out.append(f"@serializer\ndef _{n}_to(o: {n}) -> {src}:\n    return o.v")
    if shape.get("lazyrec"):
        # the documented recursive-conversion pattern (docs/conversions.md, examples/recursive_conversions.py)
        c = f"{shape['lazyrec']}_{sfx}"
        out.append(f"def _{c}_elements(o: {c}) -> List[Union[int, {c}]]:\n    return o.elements")
        out.append(f"_tmp_{sfx} = None")
        out.append(f"CONV_{sfx} = Conversion(_{c}_elements, sub_conversion=LazyConversion(lambda: _tmp_{sfx}))")
        out.append(f"_tmp_{sfx} = CONV_{sfx}")
    return "\n".join(out) + "\n"


# ---------------------------------------------------------------- ground truth
def _refs(t, acc):
    if t[0] == "flat":
        t = ["ref", t[1]]
    if t[0] == "ref":
        acc.add(t[1])
    elif t[0] == "gen":
        acc.add(t[1])
        _refs(t[2], acc)
    else:
        for x in t[1:]:
            if isinstance(x, list):
                _refs(x, acc)
    return acc


def graph(shape):
    g = {}
    for c in shape["classes"]:
        s = set()
        if c["kind"] == "dc":
            for _, ft in c["fields"]:
                _refs(ft, s)
        elif c["kind"] == "wrapof":
            s.add(c["target"])
        g[c["name"]] = s
    return g


def on_cycle(shape):
    """class name -> True iff the class lies on a reference cycle (self loop or non-trivial SCC)"""
    g = graph(shape)
    res = {}
    for a in g:
        seen, stack = set(), list(g[a])
        while stack:
            x = stack.pop()
            if x in seen:
                continue
            seen.add(x)
            stack.extend(g.get(x, ()))
        res[a] = a in seen
    return res


# ---------------------------------------------------------------- data
def _cls(shape, name):
    for c in shape["classes"]:
        if c["name"] == name:
            return c
    raise KeyError(name)


def valid(shape, t, depth, rng, tv=None):
    k = t[0]
    if k == "int":
        return rng.randrange(-5, 100)
    if k == "str":
        return rng.choice(["", "a", "bc", "x y"])
    if k == "float":
        return rng.choice([0.5, -1.25, 3.0])
    if k == "bool":
        return rng.random() < 0.5
    if k == "csv":
        return rng.choice(["", "a", "a,b", "x,y,z"])
    if k == "tv":
        return valid(shape, tv, depth, rng)
    if k == "opt":
        return None if depth <= 0 or rng.random() < 0.25 else valid(shape, t[1], depth, rng, tv)
    if k == "list":
        return [] if depth <= 0 else [valid(shape, t[1], depth, rng, tv) for _ in range(rng.randrange(1, 3))]
    if k == "dict":
        return {} if depth <= 0 else {key: valid(shape, t[1], depth, rng, tv) for key in rng.sample(["k", "l", "m"], rng.randrange(1, 3))}
    if k == "union":
        return valid(shape, t[1] if depth <= 0 or rng.random() < 0.4 else t[2], depth, rng, tv)
    if k == "tuple2":
        return [valid(shape, t[1], depth, rng, tv), valid(shape, t[2], depth, rng, tv)]
    if k in ("ref", "gen"):
        c = _cls(shape, t[1])
        tv2 = (tv if t[2] == ["tv"] else t[2]) if k == "gen" else tv
        if c["kind"] == "dc":
            out = {}
            for fn, ft in c["fields"]:
                if ft[0] == "flat":
                    out.update(valid(shape, ["ref", ft[1]], depth, rng, tv2))
                else:
                    out[fn] = valid(shape, ft, depth - 1, rng, tv2)
            return out
        if c["kind"] in ("idstr", "idlazy"):
            return rng.choice(["id-1", "id-2", ""])
        if c["kind"] == "wrapof":
            return valid(shape, ["ref", c["target"]], depth - 1, rng, tv)
    raise ValueError(t)


def build(shape, t, d, ns, sfx, tv=None):
    """Python value of type t whose serialization is d (no apischema involved)"""
    k = t[0]
    if k in PRIMS:
        return d
    if k == "csv":
        return d.split(",") if d else []
    if k == "tv":
        return build(shape, tv, d, ns, sfx)
    if k == "opt":
        return None if d is None else build(shape, t[1], d, ns, sfx, tv)
    if k == "list":
        return [build(shape, t[1], x, ns, sfx, tv) for x in d]
    if k == "dict":
        return {key: build(shape, t[1], x, ns, sfx, tv) for key, x in d.items()}
    if k == "union":
        first = t[1]
        ok = {"int": int, "str": str, "float": float, "bool": bool}.get(first[0])
        if ok is not None and type(d) is ok:
            return d
        return build(shape, t[2], d, ns, sfx, tv)
    if k == "tuple2":
        return (build(shape, t[1], d[0], ns, sfx, tv), build(shape, t[2], d[1], ns, sfx, tv))
    if k in ("ref", "gen"):
        c = _cls(shape, t[1])
        cls = ns[f"{t[1]}_{sfx}"]
        tv2 = (tv if t[2] == ["tv"] else t[2]) if k == "gen" else tv
        if c["kind"] == "dc":
            return cls(**{fn: (build(shape, ["ref", ft[1]], d, ns, sfx, tv2) if ft[0] == "flat" else build(shape, ft, d[fn], ns, sfx, tv2)) for fn, ft in c["fields"]})
        if c["kind"] in ("idstr", "idlazy"):
            return cls(d)
        if c["kind"] == "wrapof":
            return cls(build(shape, ["ref", c["target"]], d, ns, sfx, tv))
    raise ValueError(t)


def mutate(d, rng):
    """one type-changing replacement somewhere in a JSON value (usually makes it invalid; either way the oracle is differential)"""
    paths = []

    def walk(x, p):
        paths.append(p)
        if isinstance(x, dict):
            for k, v in x.items():
                walk(v, p + [k])
        elif isinstance(x, list):
            for i, v in enumerate(x):
                walk(v, p + [i])

    walk(d, [])
    p = rng.choice(paths)

    def repl(x):
        if isinstance(x, bool):
            return "b"
        if isinstance(x, int):
            return "x"
        if isinstance(x, float):
            return "f"
        if isinstance(x, str):
            return 7
        if isinstance(x, dict):
            return rng.choice([[], dict(x, zz_unexpected=1)])
        if isinstance(x, list):
            return {}
        return 3  # None

    def rec(x, p):
        if not p:
            return repl(x)
        if isinstance(x, dict):
            return {k: (rec(v, p[1:]) if k == p[0] else v) for k, v in x.items()}
        return [rec(v, p[1:]) if i == p[0] else v for i, v in enumerate(x)]

    return rec(d, p)


# ---------------------------------------------------------------- shape catalogue
def dc(name, *fields, generic=False):
    return {"name": name, "kind": "dc", "fields": [list(f) for f in fields], "generic": generic}


I, S, F, B = ["int"], ["str"], ["float"], ["bool"]


def R(n):
    return ["ref", n]


def O(t):
    return ["opt", t]


def L(t):
    return ["list", t]


def D(t):
    return ["dict", t]


def fixed_shapes():
    sh = {}
    sh["plain"] = {"classes": [dc("P", ("a", I), ("b", S), ("c", L(I)), ("d", O(R("Q")))), dc("Q", ("x", F), ("y", D(I)))],
                   "entries": [R("P"), R("Q"), L(R("P"))]}
    sh["generic"] = {"classes": [dc("Box", ("item", ["tv"]), ("more", L(["tv"])), generic=True), dc("Leaf", ("v", I))],
                     "entries": [["gen", "Box", I], ["gen", "Box", R("Leaf")], L(["gen", "Box", S])]}
    sh["gentree"] = {"classes": [dc("Tree", ("value", ["tv"]), ("children", L(["gen", "Tree", ["tv"]])), generic=True)],
                     "entries": [["gen", "Tree", I], ["gen", "Tree", S]], "recursive_entries": [0, 1], "no_schema": True}
    sh["self"] = {"classes": [dc("Node", ("val", I), ("next", O(R("Node"))))], "entries": [R("Node"), L(R("Node")), O(R("Node"))]}
    sh["selftree"] = {"classes": [dc("T", ("children", L(R("T"))), ("tags", D(R("T"))), ("n", I))], "entries": [R("T"), D(R("T"))]}
    sh["mutual2"] = {"classes": [dc("N", ("m", O(R("M")))), dc("M", ("n", O(R("N"))), ("v", I))], "entries": [R("N"), R("M")]}
    sh["mutual2list"] = {"classes": [dc("N", ("ms", L(R("M"))), ("v", I)), dc("M", ("ns", D(R("N"))))], "entries": [R("N"), R("M"), L(R("M"))]}
    sh["mutual3"] = {"classes": [dc("A", ("b", O(R("B")))), dc("B", ("c", L(R("C")))), dc("C", ("a", O(R("A"))), ("v", S))],
                     "entries": [R("A"), R("B"), R("C")]}
    sh["tailcycle"] = {"classes": [dc("W", ("n", O(R("N"))), ("leaf", R("Leaf"))), dc("N", ("m", O(R("M"))), ("leaf", R("Leaf"))),
                                   dc("M", ("n", O(R("N")))), dc("Leaf", ("v", I))],
                       "entries": [R("W"), R("N"), R("M"), R("Leaf")]}
    sh["nested"] = {"classes": [dc("A", ("b", O(R("B")))), dc("B", ("a", O(R("A"))), ("c", O(R("C")))), dc("C", ("b", L(R("B"))))],
                    "entries": [R("A"), R("B"), R("C")]}
    sh["unionrec"] = {"classes": [dc("U", ("e", L(["union", I, R("U")]))), dc("V", ("u", O(R("U"))), ("t", ["tuple2", I, O(R("V"))]))],
                      "entries": [R("U"), R("V")]}
    sh["convreg"] = {"classes": [{"name": "Id", "kind": "idstr"}, dc("N", ("id", R("Id")), ("m", O(R("M")))), dc("M", ("ns", L(R("N"))), ("ids", L(R("Id"))))],
                     "entries": [R("N"), R("M"), R("Id")]}
    sh["convlazy"] = {"classes": [{"name": "Id", "kind": "idlazy"}, dc("N", ("id", R("Id")), ("m", O(R("M")))), dc("M", ("n", O(R("N"))), ("id", O(R("Id"))))],
                      "entries": [R("N"), R("M"), R("Id")]}
    sh["recconv"] = {"classes": [dc("N", ("k", O(R("K"))), ("v", I)), {"name": "K", "kind": "wrapof", "target": "N"}],
                     "entries": [R("N"), R("K"), L(R("K"))]}
    sh["fieldconv"] = {"classes": [dc("N", ("tags", ["csv"]), ("m", O(R("M")))), dc("M", ("n", O(R("N"))), ("tags", ["csv"]))],
                       "entries": [R("N"), R("M")]}
    sh["validated"] = {"classes": [dict(dc("N", ("a", I), ("b", I), ("m", O(R("M")))), validator=True), dc("M", ("ns", L(R("N"))), ("n", O(R("N"))))],
                       "entries": [R("N"), R("M")]}
    sh["mdvalidated"] = {"classes": [dict(dc("N", ("a", I), ("b", I)), helper=True), dict(dc("M", ("n", R("N")), ("ns", L(R("N"))), ("m", O(R("M")))), md_validators={"n": "N"}),
                                     dict(dc("H", ("n", R("N")), ("v", I)), md_validators={"n": "N"})],
                         "entries": [R("M"), R("H"), L(R("M"))]}
    sh["flattened"] = {"classes": [dc("Geo", ("lat", F), ("lng", F)), dc("Address", ("street", S), ("geo", ["flat", "Geo"])),
                                   dc("Customer", ("name", S), ("addr", ["flat", "Address"]), ("friends", L(R("Customer")))), dc("Shop", ("title", S), ("where", ["flat", "Address"]))],
                       "entries": [R("Customer"), R("Shop"), R("Address"), L(R("Shop"))]}
    sh["lazyrec"] = {"classes": [dc("Foo", ("elements", L(["union", I, R("Foo")])))], "entries": [R("Foo"), L(R("Foo"))], "lazyrec": "Foo"}
    for n, s in sh.items():
        s["name"] = n
    return sh


def simple_cycles_only(shape):
    """True iff every non-trivial strongly connected component of the class-level reference graph is one simple cycle
    (every member has exactly one distinct successor inside the component).  On such graphs every reference cycle passes
    through every member of its component, which is what apischema's recursion analysis needs to be exact whatever key it
    starts from (see the report: with overlapping cycles the *sequential* result depends on the order of first uses, so
    'what a sequential execution returns' is not one value and this check abstains)."""
    g = graph(shape)
    reach = {}
    for a in g:
        seen, stack = set(), list(g[a])
        while stack:
            x = stack.pop()
            if x not in seen:
                seen.add(x)
                stack.extend(g.get(x, ()))
        reach[a] = seen
    for a in g:
        if a not in reach[a]:
            continue
        comp = {b for b in g if b in reach[a] and a in reach[b]} | {a}
        if len(g[a] & comp) != 1:
            return False
    return True


def random_digraph(rng, idx):
    """unconstrained random reference digraph over 2..5 dataclasses: cycles may overlap.  Only used when the run-time brute
    force over first-use orders (c20.order_safe) finds the sequential analysis order independent on it."""
    n = rng.randrange(2, 6)
    names = [f"C{i}" for i in range(n)]
    classes = []
    with_leaf = rng.random() < 0.5
    for i, nm in enumerate(names):
        fields = [("v", rng.choice([I, S, F, B]))]
        for j, other in enumerate(names):
            if rng.random() < (0.45 if j != i else 0.2):
                wrap = rng.choice([O, L, D, lambda t: O(L(t)), lambda t: L(["union", I, t])])
                fields.append((f"r{j}", wrap(R(other))))
        if with_leaf and rng.random() < 0.5:
            fields.append(("leaf", R("Leaf")))
        classes.append(dc(nm, *fields))
    if with_leaf:
        classes.append(dc("Leaf", ("z", I)))
    entries = [R(nm) for nm in rng.sample(names, min(n, rng.randrange(2, 5)))]
    return {"name": f"randg{idx}", "classes": classes, "entries": entries}


def random_shape(rng, idx):
    """random reference graph over 2..5 dataclasses whose cycles do not overlap: the classes are split into ordered groups,
    a group of >= 2 classes is a ring (with optional parallel edges), a singleton may reference itself, and further
    references only go from earlier to later groups (+ optionally a leaf class, a registered conversion, a csv field)"""
    n = rng.randrange(2, 6)
    names = [f"C{i}" for i in range(n)]
    order = names[:]
    rng.shuffle(order)
    groups, i = [], 0
    while i < n:
        k = rng.choice([1, 2, 2, 3]) if n - i > 1 else 1
        groups.append(order[i : i + k])
        i += k
    wraps = [O, L, D, lambda t: O(L(t)), lambda t: L(["union", I, t]), lambda t: ["tuple2", I, O(t)]]
    with_leaf = rng.random() < 0.5
    with_id = rng.random() < 0.4
    fields = {nm: [("v", rng.choice([I, S, F, B]))] for nm in names}
    for gi, grp in enumerate(groups):
        if len(grp) >= 2:
            for j, nm in enumerate(grp):
                succ = grp[(j + 1) % len(grp)]
                fields[nm].append((f"r{succ}", rng.choice(wraps)(R(succ))))
                if rng.random() < 0.3:  # parallel edge to the same successor through another container
                    fields[nm].append((f"p{succ}", rng.choice(wraps)(R(succ))))
        elif rng.random() < 0.4:
            fields[grp[0]].append(("self_", rng.choice(wraps)(R(grp[0]))))
        for later in groups[gi + 1 :]:
            for nm in grp:
                for other in later:
                    if rng.random() < 0.35:
                        fields[nm].append((f"d{other}", rng.choice(wraps + [lambda t: t])(R(other))))
    for nm in names:
        if with_leaf and rng.random() < 0.5:
            fields[nm].append(("leaf", R("Leaf")))
        if with_id and rng.random() < 0.5:
            fields[nm].append(("id", R("Id")))
        if rng.random() < 0.2:
            fields[nm].append(("tags", ["csv"]))
    classes = [dc(nm, *fields[nm]) for nm in names]
    if with_leaf:
        classes.append(dc("Leaf", ("z", I)))
    if with_id:
        classes.append({"name": "Id", "kind": rng.choice(["idstr", "idlazy"])})
    entries = [R(nm) for nm in rng.sample(names, min(n, rng.randrange(2, 5)))]
    if len(entries) < 4 and rng.random() < 0.5:
        entries.append(L(R(rng.choice(names))))
    return {"name": f"rand{idx}", "classes": classes, "entries": entries}


# ---------------------------------------------------------------- materialised cluster
_counter = [0]


class Cluster:
    """one loaded copy of a shape (fresh classes)"""

    def __init__(self, shape, sfx):
        self.shape, self.sfx = shape, sfx
        self.source = render(shape, sfx)
        _counter[0] += 1
        name = f"vfc20_{sfx}"
        mod = types.ModuleType(name)
        fn = f"<{name}>"
        mod.__file__ = fn
        linecache.cache[fn] = (len(self.source), None, self.source.splitlines(True), fn)
        sys.modules[name] = mod
        exec(compile(self.source, fn, "exec"), mod.__dict__)
        self.module, self.ns = mod, mod.__dict__
        self.types = [eval(expr(t, sfx), self.ns) for t in shape["entries"]]
        self.conv = self.ns.get(f"CONV_{sfx}")
        cyc = on_cycle(shape)
        self.truth = {}  # type object -> bool (class keys with conversion None)
        for c in shape["classes"]:
            if not c.get("generic"):
                self.truth[self.ns[f"{c['name']}_{sfx}"]] = cyc[c["name"]]
        for i in shape.get("recursive_entries", ()):
            self.truth[self.types[i]] = True
        self.cycle_names = sorted(k for k, v in cyc.items() if v)
        self.n_first = shape.get("n_first", len(self.types))  # entries[:n_first] are used concurrently, the rest by the follow-up

    def unload(self):
        sys.modules.pop(self.module.__name__, None)
        linecache.cache.pop(self.module.__file__, None)


def extend(shape):
    """copy of the shape + what the eviction follow-up needs: for every (non generic) member X a *new* dataclass
    LateX embedding it, and new container types over the members.  entries[:n_first] stay the concurrent entry points."""
    ext = json.loads(json.dumps(shape))
    ext["n_first"] = len(shape["entries"])
    members = [c["name"] for c in shape["classes"] if not c.get("generic")]
    for m in members:
        ext["classes"].append(dc("Late" + m, ("x", R(m)), ("y", I)))
        ext["entries"].append(R("Late" + m))
    for m in members:
        ext["entries"].append(D(O(R(m))))
        ext["entries"].append(["tuple2", I, L(R(m))])
    return ext


def make_data(shape, rng, n_valid=2, n_bad=2):
    """per entry: list of JSON data (valid ones first); deterministic given rng"""
    out = []
    for t in shape["entries"]:
        vs = [valid(shape, t, d, rng) for d in ([3, 1] + [2] * n_valid)[:n_valid]]
        bad = [mutate(rng.choice(vs), rng) for _ in range(n_bad)]
        out.append({"valid": vs, "bad": bad})
    return out


def shape_sig(shape):
    return json.dumps({k: v for k, v in shape.items() if k != "name"}, sort_keys=True)
