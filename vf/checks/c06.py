"""C06 — deserialize and deserialization_schema agree on what is valid.
Monitors the verdict of deserialize(T, d, **o) against the validity of d under deserialization_schema(T, **o),
an independent validator (jsonschema, draft 2020-12, format not asserted) being the oracle for the schema side."""
import copy
import json

from vf import gen_data, gen_types, harness
from vf.spec import Coll, ObjectT, Program, Unspecified, jtype

PROP = "C06"
NEED_JSONSCHEMA = True
SHARDS = {"quick": 8, "thorough": 16}
TIME_CAP = {"quick": 70, "thorough": 900}
REQUIRED = ["directed_shape_programs", "conversion_graphs", "conversion_agreement_checks", "primitive_union_programs", "agree_valid", "agree_invalid", "programs", "meta_schema_checks", "per_call_schema_programs", "std_programs", "all_refs_programs", "recursive_programs", "discriminated_families", "discriminated_agree"]
RULE = ("C01 program space + standard-library converted types (UUID, date/datetime/time, Decimal, bytes, Path, ip addresses, Pattern) x JSON data "
        "(atoms, model-valid data, boundary mutants, random deep JSON) x additional_properties x aliaser x all_refs x per-call schema=; data outside the common "
        "semantic domain are skipped and counted (integer-valued floats, duplicate items with set-typed positions, ill-formatted strings at format-only positions). "
        "A case = (type signature, options, datum); distinct by hash; non-trivial unless the type is a bare primitive and the datum an atom."
        ' Plus discriminated-union families (vf/disc.py: inherited @discriminator bases incl. dataclass bases, multi-level and recursive hierarchies, Annotated unions with Literal / str tag fields, TypedDict alternatives, explicit mappings, override_implicit, type_name overrides) x entry types {bare, List, Optional, Dict, subset union, holder class} x data aimed at each alternative with tag / field mutants.')
ASSUMPTIONS = ["jsonschema Draft202012Validator (format as annotation) is the trusted oracle for the schema side; patterns generated start with ^ and use the regex subset common to Python and ECMA",
               "a schema failing its meta-schema makes the case inconclusive here (it is C17's violation)",
               "known finding F22 is attributed only when the explanatory defect model (drop additionalProperties:false from the allOf branches of a flattened object) makes schema and deserialize agree exactly"]


def has_int_valued_float(d):
    if type(d) is float:
        return d.is_integer()
    if type(d) is list:
        return any(has_int_valued_float(x) for x in d)
    if type(d) is dict:
        return any(has_int_valued_float(x) for x in d.values())
    return False


def has_duplicates(d):
    if type(d) is list:
        seen = []
        for x in d:
            k = json.dumps(x, sort_keys=True)
            if k in seen:
                return True
            seen.append(k)
        return any(has_duplicates(x) for x in d)
    if type(d) is dict:
        return any(has_duplicates(x) for x in d.values())
    return False


def has_py_duplicates(d, unordered=False):
    """some array holds two items that are equal for Python (0 == -0.0 == False, 1 == 1.0 == True): a set built from it is smaller.
    unordered=True also treats nested arrays as sets (two arrays with the same items in another order are equal once they are
    deserialized as nested sets)"""
    def freeze(x):
        if type(x) is list:
            if unordered:
                try:
                    return ("s", frozenset(freeze(e) for e in x))
                except TypeError:
                    pass
            return ("l", tuple(freeze(e) for e in x))
        if type(x) is dict:
            return ("d", frozenset((k, freeze(v)) for k, v in x.items()))
        return x
    if type(d) is list:
        try:
            if len({freeze(x) for x in d}) != len(d):
                return True
        except TypeError:
            return True
        return any(has_py_duplicates(x, unordered) for x in d)
    if type(d) is dict:
        return any(has_py_duplicates(x, unordered) for x in d.values())
    return False


def relax_flattened(schema):
    """explanatory defect model for F22: branches of the allOf of a flattened object stay closed
    (additionalProperties: false) although unevaluatedProperties: false already closes the whole"""
    s = copy.deepcopy(schema)

    def walk(x):
        if isinstance(x, dict):
            if "allOf" in x:
                for b in x["allOf"]:
                    open_branch(b, s)
            for v in x.values():
                walk(v)
        elif isinstance(x, list):
            for v in x:
                walk(v)

    def open_branch(b, root):
        if isinstance(b, dict):
            b.pop("additionalProperties", None)  # false closes the branch; a schema wrongly applies to the other branches' keys
            b.pop("unevaluatedProperties", None)  # nested flattening: the inner object is closed on its own
            if "$ref" in b:
                from vf.jsonschema_o import resolve_pointer
                ok, tgt = resolve_pointer(root, b["$ref"])
                if ok and isinstance(tgt, dict):
                    tgt = copy.deepcopy(tgt)
                    b.pop("$ref")
                    b.update(tgt)
                    open_branch(b, root)
            for sub in b.get("allOf", []) or []:
                open_branch(sub, root)

    walk(s)
    return s


def check_program(env, prog, label, ndata, std):
    from apischema import deserialization_method, schema as mk_schema
    from apischema.json_schema import deserialization_schema
    from vf import jsonschema_o as jo

    rng = env.rng
    t = prog.t
    sig = t.sig()
    cx = prog.ctx(additional_properties=rng.random() < 0.3, aliaser=rng.choice(["identity", "identity", "camel", "custom"]))
    kw = harness.options(cx)
    kw.pop("fall_back_on_default", None)
    skw = dict(kw)
    all_refs = rng.random() < 0.4
    if all_refs:
        skw["all_refs"] = True
        env.count("all_refs_programs")
    percall = None
    if rng.random() < 0.15:
        from vf.spec import strip, Prim, MapT
        b = strip(t)
        cons = None
        if isinstance(b, Prim) and b.p in ("int", "float"):
            cons = {"min": 0}
        elif isinstance(b, Prim) and b.p == "str":
            cons = {"min_len": 1}
        elif isinstance(b, Coll) and not COLL_IS_SET(b):
            cons = {"max_items": 2}
        elif isinstance(b, (ObjectT, MapT)):
            cons = {"min_props": 1}
        if cons and "schema(" not in t.ann().split("[")[0]:
            percall = mk_schema(**cons)
            kw["schema"] = percall
            skw["schema"] = percall
            env.count("per_call_schema_programs")
    harness.reset_all()
    om = harness.call(deserialization_method, prog.T, **kw)
    osch = harness.call(deserialization_schema, prog.T, **skw)
    if om.kind != "ok" or osch.kind != "ok":
        bad = om if om.kind != "ok" else osch
        env.violation({"kind": "compile", "which": "method" if om.kind != "ok" else "schema", "exc": bad.exc or "ValidationError", "site": bad.site}, {"program": prog.source, "options": repr(skw), "outcome": bad.brief()})
        return
    method, schema = om.value, osch.value
    env.count("meta_schema_checks")
    if jo.meta_errors(schema, "2020-12"):
        env.count("inconclusive:schema fails its meta-schema (C17)")
        return
    if jo.in_place_cycle(schema):
        env.count("inconclusive:schema has an in-place reference cycle (C17)")
        return
    try:
        validator = jo.make_validator(schema)
    except Exception as e:
        env.count("inconclusive:validator construction failed: " + type(e).__name__)
        return
    relaxed_validator = None
    has_sets = any(isinstance(n, Coll) and COLL_IS_SET(n) for n in t.walk())
    if std:
        env.count("std_programs")
    if "'" in prog.source and "Optional['" in prog.source or "List['" in prog.source:
        env.count("recursive_programs")
    atoms = gen_data.atoms_for(t, cx)
    valid = gen_data.valid_data(t, cx, rng, max(2, ndata // 6))
    data = list(atoms) + valid
    for v in valid:
        data += gen_data.mutants(v, rng, atoms, max(2, ndata // 8))
    data += [gen_data.deep_json(rng) for _ in range(max(1, ndata // 10))]
    if label.startswith("directed:rec"):
        # recursive shapes: nested instances with every small number of properties (the constraints sit on the back-reference)
        for v in valid:
            if isinstance(v, dict):
                prim = {k: x for k, x in v.items() if not isinstance(x, (dict, list)) and x is not None}
                for c in ({}, prim, {**prim, "zz_extra": 1}):
                    for k in v:
                        for wrapped in (c, [c], {"k": c}, [c, c]):
                            data.append({**prim, k: wrapped})
                            data.append({**prim, k: {**c, k: wrapped}} if isinstance(c, dict) else {**prim, k: wrapped})
    optsig = (cx.additional_properties, cx.aliaser, all_refs, percall is not None)
    for d in data:
        if has_int_valued_float(d):
            env.count("outside-domain:integer-valued float")
            continue
        if has_sets and has_duplicates(d):
            env.count("outside-domain:duplicate items with a set-typed position")
            continue
        model_abstained = False
        if std:
            try:
                r = t.deser(d, cx)
                if hasattr(r, "errs") and any(k == "format" for _, k, _ in r.errs):
                    env.count("outside-domain:ill-formatted string at a format-only position")
                    continue
            except Unspecified as u:
                model_abstained = True  # (the format exclusion is then decided from the real errors, below)
            except RecursionError:
                continue
        real = harness.call(method, d)
        try:
            sv = jo.is_valid(validator, d)
        except RecursionError:
            env.count("inconclusive:validator recursion")
            continue
        except jo.SchemaOracleError as e:
            env.violation({"kind": "schema-oracle-error"}, {"program": prog.source, "schema": schema, "datum": d, "error": str(e)})
            return
        env.case(sig, optsig, repr(d), nontrivial=len(sig) > 6 or isinstance(d, (list, dict)))
        if real.kind == "exc":
            env.violation({"kind": "exception", "exc": real.exc, "site": real.site}, {"program": prog.source, "datum": d, "observed": real.brief()})
            continue
        accepted = real.kind == "ok"
        if model_abstained and not accepted and sv and real.kind == "verr" and all(harness.err_kind(e["err"]) in ("other", "format") for e in real.errors):
            # the model abstained on this datum (e.g. hash-equal items of a set) and every real error is a parse failure of a
            # standard-library type: same domain exclusion as above (format is an annotation)
            env.count("outside-domain:ill-formatted string at a format-only position")
            continue
        if accepted == sv:
            env.count("agree_valid" if sv else "agree_invalid")
            continue
        feats = {"kind": "deserialize-accepts-schema-rejects" if accepted else "schema-accepts-deserialize-rejects"}
        wit = {"program": prog.source, "label": label, "options": {"additional_properties": cx.additional_properties, "aliaser": cx.aliaser, "all_refs": all_refs, "per_call_schema": repr(percall)}, "datum": d, "schema": schema, "deserialize": real.brief(), "schema_valid": sv}
        if accepted:
            errs = sorted({e.validator for e in validator.iter_errors(d)})[:4]
            feats["schema_keywords"] = errs
            if any(isinstance(n, ObjectT) and any(f.flatten for f in n.fields) for n in t.walk()):
                if relaxed_validator is None:
                    relaxed_validator = jo.make_validator(relax_flattened(schema))
                try:
                    if jo.is_valid(relaxed_validator, d):
                        feats = {"kind": "deserialize-accepts-schema-rejects", "explained_by": "flattened-branches-closed"}
                except Exception:
                    pass
        else:
            feats["deserialize_errs"] = sorted({harness.err_kind(e["err"]) for e in real.errors})[:4]
            # explanatory defect model F47: the schema of a Mapping ignores the constraints of its key type
            # (pattern keys give patternProperties without closing the object; enum / length of keys are dropped)
            relaxed_t = relax_keys(t)
            if relaxed_t is not None:
                try:
                    from vf.spec import Ok
                    cx2 = copy.copy(cx)
                    cx2.objects = {n.name: n for n in relaxed_t.walk() if isinstance(n, ObjectT)}
                    if isinstance(relaxed_t.deser(d, cx2), Ok):
                        feats = {"kind": "schema-accepts-deserialize-rejects", "explained_by": "mapping-key-constraints-not-in-schema"}
                except (Unspecified, RecursionError):
                    # the model abstains on this datum for an unrelated reason (e.g. multipleOf on a float): same defect model on
                    # the schema side -- close every object that only has patternProperties and see whether the datum is then rejected
                    try:
                        closed = jo.make_validator(close_pattern_objects(schema))
                        if not jo.is_valid(closed, d) and set(feats.get("deserialize_errs", [])) <= {"pattern"}:
                            feats = {"kind": "schema-accepts-deserialize-rejects", "explained_by": "mapping-key-constraints-not-in-schema"}
                    except Exception:
                        pass
        env.violation(feats, wit)
    env.count("programs")


def close_pattern_objects(schema):
    """copy of the schema where an object carrying patternProperties and no additionalProperties keyword is closed (what a key
    pattern means for deserialize)"""
    def walk(x):
        if isinstance(x, list):
            return [walk(e) for e in x]
        if not isinstance(x, dict):
            return x
        out = {k: walk(v) for k, v in x.items()}
        if isinstance(out.get("patternProperties"), dict) and "additionalProperties" not in out and "properties" not in out:
            out["additionalProperties"] = False
        return out
    return walk(json.loads(json.dumps(schema, default=str)))


class _OpenPatternMap:
    """explanatory model of {"patternProperties": {p: V}} without closing: items whose key does not match are unconstrained"""

    def __init__(self, m, pattern):
        self.m, self.pattern = m, pattern


def relax_keys(t):
    """copy of the TypeSpec where Mapping key constraints are dropped the way the generated schema drops them
    (None when there is nothing to relax)"""
    import re
    from vf.spec import Ann, MapT, Ok, Prim, T, strip

    class OpenMap(MapT):
        def deser(self, d, cx):
            if type(d) is dict and getattr(self, "open_pattern", None):
                d = {k: v for k, v in d.items() if type(k) is str and re.match(self.open_pattern, k)}
            return MapT.deser(self, d, cx)

    c = copy.deepcopy(t)
    changed = False
    for n in list(c.walk()):
        if isinstance(n, MapT) and not (isinstance(n.k, Prim) and n.k.p == "str"):
            pat = n.k.cons.get("pattern") if isinstance(n.k, Ann) else None
            n.__class__ = OpenMap
            n.open_pattern = pat
            n.k = Prim("str")
            changed = True
    return c if changed else None


def COLL_IS_SET(n):
    return n.c in ("set", "absset", "mutset", "frozenset")


def run(env):
    harness.tag_errors(True)
    from vf import disc
    disc.run_family(env, disc.check_c06, env.n(96, 4000))  # discriminated-union families first (their own budget)
    from vf import convfam
    convfam.run_family(env, 'deserialize', env.n(480, 12000))  # conversion graphs under every placement (registered / default_conversion / dynamic / field)
    # every ordered union of 2 or 3 bare primitives (the schema builder merges their "type" keywords)
    import itertools
    from vf.spec import Prim, Union_
    prims = ["int", "float", "str", "bool", "none"]
    combos = list(itertools.permutations(prims, 2)) + list(itertools.permutations(prims, 3))
    for i, combo in enumerate(combos):
        if i % env.nshards != env.shard:
            continue
        wrap = [lambda u: u, lambda u: Coll("list", u)][i // env.nshards % 2]
        prog = Program(wrap(Union_([Prim(p) for p in combo])))
        try:
            prog.load()
        except Exception:
            env.count("program_load_failed")
            continue
        try:
            check_program(env, prog, "prim-union:" + "|".join(combo), ndata=30, std=False)
            env.count("primitive_union_programs")
        finally:
            prog.unload()
    rng = env.rng
    for i, (label, build) in enumerate(gen_types.directed_shapes()):
        if i % env.nshards != env.shard:
            continue
        prog = Program(build(gen_types.Gen(rng, max_depth=2)))
        try:
            prog.load()
        except Exception:
            env.count("program_load_failed")
            continue
        try:
            check_program(env, prog, "directed:" + label, ndata=40, std=False)
            env.count("directed_shape_programs")
        finally:
            prog.unload()
    n = env.n(2600, 60000)
    small = [b for _, b in gen_types.enumerate_small(depth2=False)]
    for j in range(n):
        if env.out_of_time():
            env.notes.append("time cap reached")
            break
        std = rng.random() < 0.25
        g = gen_types.Gen(rng, max_depth=rng.choice([2, 3, 4]), std=std)
        g.feats = {"flatten", "pattern", "additional", "class_aliaser", "frozen", "dep_req", "alias", "alias_no_override", "field_cons", "required_md", "skip",
                   "init_false", "initvar", "undefined", "none_as_undefined"}  # fall_back_on_default cannot be expressed in a schema
        k = rng.random()
        if k < 0.2:
            t = rng.choice(small)(g)
            if t is None:
                continue
        elif k < 0.6:
            t = g.type(0)
        else:
            t = g.object(0)
        prog = Program(t)
        try:
            prog.load()
        except Exception:
            env.count("program_load_failed")
            continue
        try:
            check_program(env, prog, f"random#{env.shard}.{j}", ndata=40, std=std)
            if len(env.samples) < 3 and rng.random() < 0.03:
                env.sample({"type": t.ann(), "sig": t.sig()})
        finally:
            prog.unload()


def finish_coverage(cov, counters, tier):
    cov["exhaustive"] = False


def replay(env, rep):
    from vf.replay import generic
    generic(env, rep)
