"""C07 — serialized data validates against serialization_schema generated under the same (global) settings."""
import json

from vf import gen_data, gen_types, harness
from vf.checks.c06 import relax_flattened
from vf.checks.c08 import ambiguous_union
from vf.spec import ALIASERS, ObjectT, Program, Unspecified

PROP = "C07"
NEED_JSONSCHEMA = True
SHARDS = {"quick": 8, "thorough": 16}
TIME_CAP = {"quick": 70, "thorough": 900}
REQUIRED = ["directed_shape_programs", "conversion_graphs", "conversion_agreement_checks", "validated", "programs", "settings:exclude_defaults", "settings:exclude_none", "settings:both", "settings:none", "declared_key_checks", "required_key_checks",
            "method_in_schema_checks", "init_false_in_schema_checks", "aliaser_programs", "additional_properties_programs", "discriminated_families", "discriminated_serialized_validations"]
RULE = ("C04 program / value space (classes without unset-tracking, or exclude_unset=False) x the four combinations of the global settings.serialization.exclude_defaults / "
        "exclude_none x aliaser x additional_properties. A case = (type signature, settings, value repr); distinct by hash; non-trivial when the value is an object or container.")
ASSUMPTIONS = ["jsonschema Draft202012Validator is the oracle; a schema failing its meta-schema is C17's violation (inconclusive here)",
               "F22 is attributed only when the flattened-branches explanatory model makes the schema accept the datum"]


# dependent_required is a rule on the *input* keys: completion with defaults can make it fail on the output (abstain: not generated)
FEATS = {"flatten", "pattern", "additional", "class_aliaser", "frozen", "alias", "alias_no_override", "field_cons", "required_md", "skip", "init_false", "initvar",
         "undefined", "none_as_undefined", "fbod", "methods", "ser_if", "ser_default"}


def props_constraint_on_object(t):
    """minProperties / maxProperties attached to an object type (a recursive reference): a rule on the *input* keys, which
    completion with defaults changes on the output side"""
    from vf.spec import Ann, Ref, strip
    for n in t.walk():
        if isinstance(n, Ann) and ("min_props" in n.cons or "max_props" in n.cons) and isinstance(strip(n.t), (ObjectT, Ref)):
            return True
    return False


def unique_over_objects(t):
    from vf.spec import Ann, Ref
    ObjectT_ = (ObjectT, Ref)  # a recursive reference is an object position too
    for n in t.walk():
        cons = n.cons if isinstance(n, Ann) else None
        if cons and cons.get("unique") and any(isinstance(x, ObjectT_) for x in n.walk()):
            return True
        if isinstance(n, ObjectT):
            for f in n.fields:
                if (f.cons or {}).get("unique") and any(isinstance(x, ObjectT_) for x in f.t.walk()):
                    return True
    return False


def object_positions(schema, data, root, out, depth=0):
    """pairs (object sub-schema, object datum) reachable through properties / items / $ref (for the key-level sub-claims)"""
    from vf.jsonschema_o import resolve_pointer
    if depth > 30 or not isinstance(schema, dict):
        return
    if "$ref" in schema:
        ok, tgt = resolve_pointer(root, schema["$ref"])
        if ok:
            object_positions(tgt, data, root, out, depth + 1)
        return
    if isinstance(data, dict) and schema.get("type") == "object" and "properties" in schema:
        out.append((schema, data))
        for k, sub in schema["properties"].items():
            if k in data:
                object_positions(sub, data[k], root, out, depth + 1)
    elif isinstance(data, list) and isinstance(schema.get("items"), dict):
        for x in data:
            object_positions(schema["items"], x, root, out, depth + 1)


def check_program(env, prog, label, ndata):
    from apischema import deserialization_method, serialization_method, settings
    from apischema.json_schema import serialization_schema
    from vf import jsonschema_o as jo

    rng = env.rng
    t, T = prog.t, prog.T
    sig = t.sig()
    harness.reset_all()
    od = harness.call(deserialization_method, T, additional_properties=True, no_copy=False)
    if od.kind != "ok":
        return
    cxd = prog.ctx(additional_properties=True)
    values = []
    from vf.checks.c06 import has_duplicates as _hd, has_py_duplicates

    def has_duplicates(d):
        return _hd(d) or has_py_duplicates(d) or has_py_duplicates(d, unordered=True)

    from vf.spec import Coll
    has_sets = any(isinstance(n, Coll) and n.c in ("set", "absset", "mutset", "frozenset") for n in t.walk())
    for d in gen_data.valid_data(t, cxd, rng, ndata):
        if has_sets and has_duplicates(d):
            continue  # the resulting set would not satisfy the constraints checked on the raw items
        r = harness.call(od.value, d)
        if r.kind == "ok":
            values.append(r.value)
    if not values:
        return
    extra = [c for v in values[:3] for c in harness.undefined_variants(t, v)]
    if extra:
        env.count("undefined_by_construction_values", len(extra))
        values += extra
    aliaser = rng.choice(["identity", "identity", "camel", "custom"])
    ap = rng.random() < 0.3
    kw = {"additional_properties": ap}
    if aliaser != "identity":
        kw["aliaser"] = ALIASERS[aliaser]
        env.count("aliaser_programs")
    if ap:
        env.count("additional_properties_programs")
    has_methods = [n for n in t.walk() if isinstance(n, ObjectT) and n.methods]
    flat = any(isinstance(n, ObjectT) and any(f.flatten for f in n.fields) for n in t.walk())
    for ed, en in ((False, False), (True, False), (False, True), (True, True)):
        settings.serialization.exclude_defaults = ed
        settings.serialization.exclude_none = en
        try:
            env.count("settings:" + ("both" if ed and en else "exclude_defaults" if ed else "exclude_none" if en else "none"))
            osch = harness.call(serialization_schema, T, **kw)
            oser = harness.call(serialization_method, T, exclude_unset=False, **kw)
            wit0 = {"program": prog.source, "label": label, "settings": {"exclude_defaults": ed, "exclude_none": en, "aliaser": aliaser, "additional_properties": ap}}
            if osch.kind != "ok" or oser.kind != "ok":
                bad = osch if osch.kind != "ok" else oser
                env.violation({"kind": "compile", "which": "schema" if osch.kind != "ok" else "method", "exc": bad.exc or "ValidationError", "site": bad.site}, {**wit0, "outcome": bad.brief()})
                continue
            schema = json.loads(json.dumps(osch.value))
            if jo.meta_errors(schema, "2020-12") or jo.in_place_cycle(schema):
                env.count("inconclusive:schema ill-formed (C17)")
                continue
            validator = jo.make_validator(schema)
            relaxed = None
            for v in values:
                s = harness.call(oser.value, v)
                if s.kind != "ok":
                    env.count("inconclusive:serialize failed (C04)")
                    continue
                try:
                    data = json.loads(json.dumps(s.value))
                except Exception:
                    env.count("inconclusive:non-JSON output (C04)")
                    continue
                env.case(sig, ed, en, aliaser, ap, harness.safe_repr(v)[:200], nontrivial=isinstance(data, (list, dict)))
                wit = {**wit0, "value": harness.safe_repr(v)[:400], "serialized": data, "schema": schema}
                try:
                    ok = jo.is_valid(validator, data)
                except (RecursionError, jo.SchemaOracleError) as e:
                    env.violation({"kind": "schema-oracle-error", "exc": type(e).__name__}, {**wit, "error": str(e)[:300]})
                    break
                if ok:
                    env.count("validated")
                else:
                    errs = list(validator.iter_errors(data))
                    feats = {"kind": "serialized-data-invalid-for-schema", "keywords": sorted({e.validator for e in errs})[:4]}
                    if flat:
                        if relaxed is None:
                            relaxed = jo.make_validator(relax_flattened(schema))
                        try:
                            if jo.is_valid(relaxed, data):
                                feats = {"kind": "serialized-data-invalid-for-schema", "explained_by": "flattened-branches-closed"}
                        except Exception:
                            pass
                    if "explained_by" not in feats and "required" in feats["keywords"] and has_methods:
                        miss = [e.message for e in errs if e.validator == "required"]
                        names = {(m["alias"] or m["name"]) for o in has_methods for m in o.methods if not m.get("undefined") and m["expr"] == "None"}
                        al = ALIASERS[aliaser]
                        if en and miss and all(any(repr(al(n)) in msg for n in names) for msg in miss) and len(errs) == len(miss):
                            feats = {"kind": "serialized-data-invalid-for-schema", "explained_by": "optional-serialized-method-required-but-excluded-by-exclude_none"}
                    env.violation(feats, {**wit, "schema_errors": [f"{'/'.join(map(str, e.absolute_path))}: {e.message}"[:200] for e in errs[:4]]})
                    continue
                # ---- explicit sub-claims at object positions
                pos = []
                object_positions(schema, data, schema, pos)
                for osub, odata in pos:
                    props = osub.get("properties", {})
                    env.count("declared_key_checks")
                    closed = osub.get("additionalProperties") is False and not osub.get("patternProperties")
                    if closed and set(odata) - set(props):
                        env.violation({"kind": "undeclared-key-emitted"}, {**wit, "keys": sorted(set(odata) - set(props))})
                    env.count("required_key_checks")
                    if set(osub.get("required", [])) - set(odata):
                        env.violation({"kind": "required-key-not-emitted"}, {**wit, "keys": sorted(set(osub.get("required", [])) - set(odata))})
            # serialized methods and init=False fields appear in the schema (root object only, by construction of the walker)
            if isinstance(t, ObjectT) and t.kind == "dataclass" and not flat:
                root = schema
                if "$ref" in root:
                    ok_, root = jo.resolve_pointer(schema, root["$ref"])
                props = (root or {}).get("properties", {}) if isinstance(root, dict) else {}
                al = ALIASERS[aliaser]
                for m in t.methods:
                    env.count("method_in_schema_checks")
                    if al(m["alias"] or m["name"]) not in props:
                        env.violation({"kind": "serialized-method-missing-from-schema"}, {**wit0, "method": m["name"], "schema": schema})
                from vf.spec import Ctx
                cx = Ctx(aliaser=aliaser)
                for f in t.fields:
                    if f.init_false and not f.skip_ser and not f.aggregate:
                        env.count("init_false_in_schema_checks")
                        if t.ext(f, cx) not in props:
                            env.violation({"kind": "init-false-field-missing-from-schema"}, {**wit0, "field": f.name, "schema": schema})
        finally:
            settings.serialization.exclude_defaults = False
            settings.serialization.exclude_none = False
    env.count("programs")


def run(env):
    from vf import disc
    disc.run_family(env, disc.check_c07, env.n(96, 3000))  # discriminated-union families first (their own budget)
    from vf import convfam
    convfam.run_family(env, 'serialize', env.n(480, 12000))  # conversion graphs under every placement (registered / default_conversion / dynamic / field)
    harness.tag_errors(False)
    rng = env.rng
    for i, (label, build) in enumerate(gen_types.directed_shapes()):
        if i % env.nshards != env.shard:
            continue
        t = build(gen_types.Gen(rng, max_depth=2, feats=FEATS))
        if props_constraint_on_object(t) or label.startswith("dependent-required"):
            continue  # (same abstention as below; dependent_required is an input-side rule: not generated for C07)
        prog = Program(t)
        try:
            prog.load()
        except Exception:
            env.count("program_load_failed")
            continue
        try:
            check_program(env, prog, "directed:" + label, ndata=8)
            env.count("directed_shape_programs")
        finally:
            prog.unload()
    n = env.n(1400, 30000)
    small = [b for _, b in gen_types.enumerate_small(depth2=False)]
    for j in range(n):
        if env.out_of_time():
            env.notes.append("time cap reached")
            break
        g = gen_types.Gen(rng, max_depth=rng.choice([2, 3, 4]), std=rng.random() < 0.2, feats=FEATS)
        k = rng.random()
        if k < 0.15:
            t = rng.choice(small)(g)
            if t is None:
                continue
        elif k < 0.4:
            t = g.type(0)
        else:
            t = g.object(0, kind="dataclass" if rng.random() < 0.7 else None)
        if ambiguous_union(t):
            env.count("abstain:class-ambiguous union")
            continue
        if unique_over_objects(t):
            env.count("abstain:uniqueness over objects completed with defaults")  # raw items distinct, completed items equal
            continue
        if props_constraint_on_object(t):
            env.count("abstain:property-count constraint on an object completed with defaults")
            continue
        prog = Program(t)
        try:
            prog.load()
        except Exception:
            env.count("program_load_failed")
            continue
        try:
            check_program(env, prog, f"random#{env.shard}.{j}", ndata=5)
            if len(env.samples) < 3 and rng.random() < 0.03:
                env.sample({"type": t.ann(), "sig": t.sig()})
        finally:
            prog.unload()


def finish_coverage(cov, counters, tier):
    cov["exhaustive"] = False


def replay(env, rep):
    from vf.replay import generic
    generic(env, rep)
