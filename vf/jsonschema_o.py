"""Independent JSON Schema oracle (jsonschema 4.x): validators per dialect, meta-schema check,
$ref closure walker, applicator-cycle detection, foreign-keyword walker."""
import copy

import jsonschema
from jsonschema import Draft7Validator, Draft201909Validator, Draft202012Validator

VALIDATORS = {"2020-12": Draft202012Validator, "2019-09": Draft201909Validator, "draft-07": Draft7Validator}

IN_PLACE = ("allOf", "anyOf", "oneOf")


def dialect_of(schema):
    """dialect named by $schema (matched on the draft identifier), None when absent"""
    s = schema.get("$schema") if isinstance(schema, dict) else None
    if not s:
        return None
    for key, name in (("2020-12", "2020-12"), ("2019-09", "2019-09"), ("draft-07", "draft-07")):
        if key in s:
            return name
    return "unknown:" + str(s)


def without_schema_uri(schema):
    s = dict(schema)
    s.pop("$schema", None)
    return s


def make_validator(schema, dialect="2020-12", definitions=None, defs_location=None):
    """validator for `schema`; external definitions (OpenAPI style) are grafted at defs_location
    (e.g. ('components', 'schemas')) so that '#/components/schemas/X' resolves inside the document"""
    root = without_schema_uri(schema)
    if definitions is not None and defs_location:
        root = copy.copy(root)
        cur = root
        for key in defs_location[:-1]:
            cur = cur.setdefault(key, {})
        cur[defs_location[-1]] = definitions
    return VALIDATORS[dialect](root)


def is_valid(validator, d):
    try:
        return validator.is_valid(d)
    except RecursionError:
        raise
    except jsonschema.exceptions.RefResolutionError:  # pragma: no cover
        raise
    except Exception as e:  # unresolvable refs etc.
        raise SchemaOracleError(f"{type(e).__name__}: {e}") from e


class SchemaOracleError(Exception):
    pass


_META = {}


def meta_errors(schema, dialect):
    """violations of the dialect's meta-schema"""
    v = _META.get(dialect)
    if v is None:
        cls = VALIDATORS[dialect]
        v = _META[dialect] = cls(cls.META_SCHEMA)
    return [f"{'/'.join(map(str, e.absolute_path))}: {e.message}"[:200] for e in v.iter_errors(without_schema_uri(schema))][:5]


def subschemas(schema, path=()):
    """every sub-schema position of a schema document (yield (path, subschema))"""
    if isinstance(schema, bool):
        return
    if not isinstance(schema, dict):
        return
    yield path, schema
    for k, v in schema.items():
        if k in ("properties", "patternProperties", "$defs", "definitions", "dependentSchemas"):
            if isinstance(v, dict):
                for n, s in v.items():
                    yield from subschemas(s, (*path, k, n))
        elif k in ("allOf", "anyOf", "oneOf", "prefixItems"):
            if isinstance(v, list):
                for i, s in enumerate(v):
                    yield from subschemas(s, (*path, k, i))
        elif k == "items":
            if isinstance(v, list):
                for i, s in enumerate(v):
                    yield from subschemas(s, (*path, k, i))
            else:
                yield from subschemas(v, (*path, k))
        elif k in ("additionalProperties", "additionalItems", "unevaluatedProperties", "unevaluatedItems", "not", "if", "then", "else", "contains", "propertyNames"):
            yield from subschemas(v, (*path, k))
        elif k == "dependencies" and isinstance(v, dict):
            for n, s in v.items():
                if isinstance(s, dict):
                    yield from subschemas(s, (*path, k, n))
        elif k == "components" and isinstance(v, dict):
            for n, s in (v.get("schemas") or {}).items():
                yield from subschemas(s, (*path, k, "schemas", n))


def refs_of(schema):
    return [(p, s["$ref"]) for p, s in subschemas(schema) if "$ref" in s]


def resolve_pointer(doc, ref):
    """resolve a local '#/a/b' reference inside doc; returns (found, target)"""
    if not ref.startswith("#/"):
        return False, None
    cur = doc
    for part in ref[2:].split("/"):
        part = part.replace("~1", "/").replace("~0", "~")
        if isinstance(cur, dict) and part in cur:
            cur = cur[part]
        else:
            return False, None
    return True, cur


def in_place_cycle(doc):
    """a reference cycle going only through in-place applicators ($ref, allOf, anyOf, oneOf, not, if/then/else)
    consumes no input: every validator diverges on it. Returns the cycle (list of refs) or None."""
    def targets(s, acc):
        if not isinstance(s, dict):
            return
        if "$ref" in s:
            acc.append(s["$ref"])
        for k in IN_PLACE:
            for sub in s.get(k, []) or []:
                targets(sub, acc)
        for k in ("not", "if", "then", "else"):
            if k in s:
                targets(s[k], acc)

    graph = {}
    for _, s in subschemas(doc):
        if "$ref" in s:
            ok, tgt = resolve_pointer(doc, s["$ref"])
            if ok and s["$ref"] not in graph:
                acc = []
                targets(tgt, acc)
                graph[s["$ref"]] = acc
    color = {}

    def dfs(n, stack):
        color[n] = 1
        for m in graph.get(n, []):
            if color.get(m) == 1:
                return stack + [n, m]
            if m not in color and m in graph:
                r = dfs(m, stack + [n])
                if r:
                    return r
        color[n] = 2
        return None

    for n in list(graph):
        if n not in color:
            r = dfs(n, [])
            if r:
                return r
    return None


# keywords that exist in some JSON Schema dialect but not in the given one
KW_2020 = {"prefixItems", "$defs", "dependentRequired", "dependentSchemas", "unevaluatedProperties", "unevaluatedItems", "minContains", "maxContains", "$anchor", "$dynamicRef", "$dynamicAnchor"}
FOREIGN = {
    "2020-12": {"additionalItems", "definitions", "dependencies", "nullable", "example", "$recursiveRef", "$recursiveAnchor"},
    "2019-09": {"prefixItems", "definitions", "dependencies", "nullable", "example", "$dynamicRef", "$dynamicAnchor"},
    "draft-07": KW_2020 | {"nullable", "example", "$recursiveRef", "$recursiveAnchor"},
    "oas-3.0": KW_2020 | {"const", "examples", "definitions", "dependencies", "additionalItems", "$schema", "if", "then", "else", "contains", "propertyNames", "patternProperties_"} - {"patternProperties_"},
    "oas-3.1": {"additionalItems", "definitions", "dependencies", "nullable", "$recursiveRef"},
}


def foreign_keywords(schema, dialect):
    """(path, keyword) for every keyword of another dialect found at any sub-schema position"""
    out = []
    bad = FOREIGN[dialect]
    for path, s in subschemas(schema):
        for k in s:
            if k in bad and not (k == "$defs" and not path and dialect in ("2020-12", "2019-09")):
                out.append((path, k))
        if dialect == "oas-3.0":
            t = s.get("type")
            if isinstance(t, list):
                out.append((path, "type-array"))
            if t == "null":
                out.append((path, "type-null"))
        if dialect in ("draft-07", "2019-09", "oas-3.0") and isinstance(s.get("items"), list) is False and "prefixItems" in s:
            pass
    return out
