#!/usr/bin/env python3
"""tools/seedsave.py <seed-out-dir> <n> <seeded-id> <property> <needs> <ran/result>  -> /verif/seeded/<id>/{patch.diff,demo.py,meta.json}"""
import json, os, shutil, sys
src, n, sid, prop, needs, ran = sys.argv[1:7]
d = f"/verif/seeded/{sid}"
os.makedirs(d, exist_ok=True)
shutil.copy(os.path.join(src, f"change{n}.diff"), os.path.join(d, "patch.diff"))
shutil.copy(os.path.join(src, f"demo{n}.py"), os.path.join(d, "demo.py"))
notes = open(os.path.join(src, "notes.md")).read() if os.path.exists(os.path.join(src, "notes.md")) else ""
json.dump({"id": sid, "breaks_property": prop, "needs_to_manifest": needs, "what_was_run": ran,
           "author": "fresh sub-agent given only the property text and a scratch worktree", "author_notes": notes}, open(os.path.join(d, "meta.json"), "w"), indent=1)
print("saved", d)
