"""C18 — schema dialect conversion preserves the set of valid instances and uses only the target vocabulary.
Monitors *_schema(T, version=V): V's own validator vs the 2020-12 validator on the same data; foreign-keyword walker."""
import copy
import json

from vf import gen_data, harness
from vf.checks import c17
from vf.checks.c06 import has_int_valued_float
from vf.spec import Program

PROP = "C18"
NEED_JSONSCHEMA = True
SHARDS = {"quick": 8, "thorough": 16}
TIME_CAP = {"quick": 70, "thorough": 900}
REQUIRED = ["bound_pair_programs", "oas30_value_shape_walks", "all_refs_programs", "per_call_schema_programs", "semantic_comparisons", "vocabulary_walks", "programs", "version:DRAFT_2019_09", "version:DRAFT_7", "version:OPEN_API_3_0", "version:OPEN_API_3_1",
            "kw:prefixItems-source", "kw:dependentRequired-source", "kw:const-source", "kw:$defs-source", "kw:type-array-source", "nested_positions_walked", "merged_definitions_walks"]
RULE = ("program space of C17 (every keyword the builder emits: tuples/prefixItems, const/enum, type arrays, dependentRequired, patternProperties, unevaluatedProperties, "
        "$defs/$ref, anyOf/oneOf/allOf, nested in properties / items / $defs / additionalProperties) x versions {2019-09, draft-07, OpenAPI 3.0, OpenAPI 3.1} x "
        "deserialization/serialization schema x JSON data (atoms, model-valid data, boundary mutants). A case = (type signature, entry, version, datum); distinct by hash.")
ASSUMPTIONS = ["validators of jsonschema for draft-07 / 2019-09 / 2020-12 are the oracles; OpenAPI 3.1 = 2020-12 semantics; OpenAPI 3.0 is validated through its documented mapping "
               "(nullable -> null alternative, then draft-07 semantics) and is not compared semantically on programs using the keywords it drops explicitly (dependentRequired, unevaluatedProperties)",
               "OpenAPI's own `discriminator` keyword is an annotation and is allowed everywhere"]

TARGETS = {"DRAFT_2019_09": "2019-09", "DRAFT_7": "draft-07", "OPEN_API_3_0": "oas-3.0", "OPEN_API_3_1": "oas-3.1"}
VALIDATE_AS = {"2019-09": "2019-09", "draft-07": "draft-07", "oas-3.0": "draft-07", "oas-3.1": "2020-12"}


def oas30_to_draft7(s):
    """documented mapping of the OpenAPI 3.0 schema object onto JSON Schema semantics"""
    if isinstance(s, list):
        return [oas30_to_draft7(x) for x in s]
    if not isinstance(s, dict):
        return s
    if "$ref" in s:
        return {"$ref": s["$ref"]}  # OpenAPI 3.0 (as draft-07): the siblings of $ref are ignored, `nullable` included
    out = {}
    for k, v in s.items():
        if k in ("properties", "patternProperties", "definitions"):
            out[k] = {n: oas30_to_draft7(x) for n, x in v.items()} if isinstance(v, dict) else v
        elif k in ("enum", "const", "default", "example", "examples", "required"):
            out[k] = v
        else:
            out[k] = oas30_to_draft7(v)
    # exclusive bounds are boolean modifiers of minimum / maximum in OpenAPI 3.0 (draft-04 style); a numeric value there is not
    # understood by a 3.0 validator (reported by the value-shape walker), it is ignored here
    for bound, exclusive in (("minimum", "exclusiveMinimum"), ("maximum", "exclusiveMaximum")):
        if exclusive in out:
            flag = out.pop(exclusive)
            if flag is True and bound in out:
                out[exclusive] = out.pop(bound)
    if out.pop("nullable", False):
        out = {"anyOf": [out, {"type": "null"}]}
    return out


def oas30_value_shapes(doc):
    """keywords of the OpenAPI 3.0 schema object whose value has the shape of another dialect: [(path, keyword)]"""
    from vf import jsonschema_o as jo
    bad = []
    for path, sub in jo.subschemas(doc):
        for kw in ("exclusiveMinimum", "exclusiveMaximum"):
            if kw in sub and not isinstance(sub[kw], bool):
                bad.append((path, kw))
    return bad


def source_keywords(doc, counter):
    from vf import jsonschema_o as jo
    n = 0
    for path, s in jo.subschemas(doc):
        if path:
            n += 1
        for k in ("prefixItems", "dependentRequired", "const", "unevaluatedProperties", "patternProperties"):
            if k in s:
                counter["kw:" + k + "-source"] += 1
        if isinstance(s.get("type"), list):
            counter["kw:type-array-source"] += 1
    if "$defs" in doc:
        counter["kw:$defs-source"] += 1
    counter["nested_positions_walked"] += n


def c06_percall(rng, t):
    """a per-call schema= fitting the top-level type (None most of the time)"""
    from apischema import schema as mk_schema
    from vf.spec import Ann, Coll, MapT, ObjectT, Prim, Ref, strip
    if rng.random() > 0.3:
        return None
    b = strip(t)
    if isinstance(t, Ann):
        return None
    if isinstance(b, Prim) and b.p in ("int", "float"):
        return mk_schema(min=0)
    if isinstance(b, Prim) and b.p == "str":
        return mk_schema(min_len=1)
    if isinstance(b, Coll) and b.c not in ("set", "absset", "mutset", "frozenset"):
        return mk_schema(max_items=2)
    if isinstance(b, (ObjectT, MapT, Ref)):
        return mk_schema(**rng.choice([{"min_props": 1}, {"max_props": 1}, {"max_props": 2}]))
    return None


def check_program(env, prog, label, ndata):
    from apischema.json_schema import JsonSchemaVersion, definitions_schema, deserialization_schema, serialization_schema
    from vf import jsonschema_o as jo

    rng = env.rng
    t = prog.t
    sig = t.sig()
    cx = prog.ctx()
    harness.reset_all()
    atoms = gen_data.atoms_for(t, cx)
    valid = gen_data.valid_data(t, cx, rng, 3)
    data = list(atoms[:: max(1, len(atoms) // 12)]) + valid
    for v in valid:
        data += gen_data.mutants(v, rng, atoms, max(2, ndata // 4))
    data = [d for d in data if not has_int_valued_float(d)]
    # options shared by the 2020-12 reference and the target dialect: extraction of every named type (root emitted as a
    # reference) and a per-call schema= whose keywords land beside that reference
    okw = {}
    if rng.random() < 0.35:
        okw["all_refs"] = True
        env.count("all_refs_programs")
    percall = c06_percall(rng, t)
    if percall is not None:
        okw["schema"] = percall
        env.count("per_call_schema_programs")
    for side, fn in (("deserialization", deserialization_schema), ("serialization", serialization_schema)):
        o0 = harness.call(fn, prog.T, version=JsonSchemaVersion.DRAFT_2020_12, **okw)
        if o0.kind != "ok":
            env.count("inconclusive:2020-12 generation failed (C17)")
            continue
        base = json.loads(json.dumps(o0.value))
        if jo.meta_errors(base, "2020-12") or jo.in_place_cycle(base):
            env.count("inconclusive:2020-12 schema ill-formed (C17)")
            continue
        source_keywords(base, env.counters)
        v0 = jo.make_validator(base, "2020-12")
        try:
            verdict0 = [jo.is_valid(v0, d) for d in data]
        except (RecursionError, jo.SchemaOracleError):
            env.count("inconclusive:2020-12 validation failed")
            continue
        for vname, dialect in TARGETS.items():
            version = getattr(JsonSchemaVersion, vname)
            o = harness.call(fn, prog.T, version=version, **okw)
            wit = {"program": prog.source, "label": label, "entry": side + "_schema", "version": vname, "options": {k: repr(v) for k, v in okw.items()}}
            if o.kind != "ok":
                env.violation({"kind": "generation-failed", "version": vname, "exc": o.exc, "site": o.site}, {**wit, "outcome": o.brief()})
                continue
            doc = json.loads(json.dumps(o.value))
            env.count("version:" + vname)
            ext = None
            if vname.startswith("OPEN_API"):
                od = harness.call(definitions_schema, **{side: [prog.T]}, version=version, **{k: v for k, v in okw.items() if k == "all_refs"})
                if od.kind != "ok":
                    env.violation({"kind": "definitions_schema-failed", "version": vname, "exc": od.exc, "site": od.site}, {**wit, "outcome": od.brief()})
                    continue
                ext = json.loads(json.dumps(od.value))
            # ---- vocabulary, at every nesting level (document + external definitions)
            env.count("vocabulary_walks")
            whole = dict(doc)
            if ext:
                whole["components"] = {"schemas": ext}
            bad = jo.foreign_keywords(whole, dialect)
            if bad:
                kws = sorted({k for _, k in bad})
                env.violation({"kind": "foreign-keyword", "version": vname, "keywords": kws[:4]}, {**wit, "positions": [["/".join(map(str, p)), k] for p, k in bad[:6]], "schema": whole})
            if dialect == "oas-3.0":
                env.count("oas30_value_shape_walks")
                shapes = oas30_value_shapes(whole)
                if shapes:
                    env.violation({"kind": "keyword-value-of-another-dialect", "version": vname, "keywords": sorted({k for _, k in shapes})[:4]},
                                  {**wit, "positions": [["/".join(map(str, p_)), k] for p_, k in shapes[:6]], "schema": whole})
            prefix = c17.PREFIX[vname]
            wrong = [r for _, r in jo.refs_of(whole) if not r.startswith(prefix)]
            if wrong:
                env.violation({"kind": "ref-prefix", "version": vname}, {**wit, "refs": wrong[:4], "expected_prefix": prefix, "schema": whole})
            # ---- semantics
            if dialect == "oas-3.0":
                dropped = any(k in s for _, s in jo.subschemas(base) for k in ("dependentRequired", "unevaluatedProperties"))
                if dropped:
                    env.count("abstain:OpenAPI 3.0 drops a keyword this program needs")
                    continue
                target = oas30_to_draft7(doc)
                if ext:
                    target = dict(target)
                    target["components"] = {"schemas": {n: oas30_to_draft7(x) for n, x in ext.items()}}
            else:
                target = whole
            try:
                vt = jo.make_validator(target, VALIDATE_AS[dialect])
                verdict = [jo.is_valid(vt, d) for d in data]
            except RecursionError:
                env.count("inconclusive:target validation recursion")
                continue
            except Exception as e:
                env.violation({"kind": "target-schema-unusable", "version": vname, "exc": type(e).__name__}, {**wit, "schema": whole, "error": str(e)[:300]})
                continue
            for d, a, b in zip(data, verdict0, verdict):
                env.count("semantic_comparisons")
                env.case(sig, side, vname, repr(d))
                if a != b:
                    kws = sorted({e.validator for e in (vt.iter_errors(d) if a else v0.iter_errors(d))})[:4]
                    env.violation({"kind": "instance-set-differs", "version": vname, "accepted_by": "2020-12" if a else vname, "rejecting_keywords": kws},
                                  {**wit, "datum": d, "schema_2020_12": base, "schema_target": whole})
                    break
    # ---- definitions merged from both sides (deserialization + serialization given together): vocabulary at every level
    for vname, dialect in TARGETS.items():
        version = getattr(JsonSchemaVersion, vname)
        od = harness.call(definitions_schema, deserialization=[prog.T], serialization=[prog.T], version=version, all_refs=True)
        if od.kind != "ok":
            env.count("merged_definitions_refused_or_failed")  # "different schemas for deserialization and serialization" is a legitimate refusal
            continue
        env.count("merged_definitions_walks")
        merged = json.loads(json.dumps(od.value))
        bad = jo.foreign_keywords({"components": {"schemas": merged}}, dialect)
        if bad:
            env.violation({"kind": "foreign-keyword", "version": vname, "entry": "definitions_schema(deserialization+serialization)", "keywords": sorted({k for _, k in bad})[:4]},
                          {"program": prog.source, "label": label, "version": vname, "positions": [["/".join(map(str, p_)), k] for p_, k in bad[:6]], "definitions": merged})
    env.count("programs")


BOUND_POOL = [{"min": 0}, {"exc_min": 0}, {"max": 10}, {"exc_max": 10}, {"min": 1}, {"exc_min": 1}, {"max": 9}, {"exc_max": 9}, {"min": 0, "max": 10}, {"exc_min": 0, "exc_max": 10},
              {"min": 0, "exc_max": 10}, {"exc_min": 0, "max": 10}]


def bounds_sweep(env):
    """every ordered pair of inclusive / exclusive bound sets merged on one number (ties included: minimum == exclusiveMinimum):
    OpenAPI 3.0 rewrites exclusive bounds as boolean modifiers of minimum / maximum, the other dialects keep both keywords"""
    from vf.spec import Ann, Coll, Prim

    k = 0
    for base in ("int", "float"):
        for inner in BOUND_POOL:
            for outer in [None] + BOUND_POOL:
                if outer is not None and set(inner) & set(outer):
                    continue  # the same keyword twice is the merge rule of C01 (stricter wins); here: distinct keywords side by side
                k += 1
                if k % env.nshards != env.shard:
                    continue
                t = Ann(Prim(base), dict(inner))
                if outer is not None:
                    t = Ann(t, dict(outer))
                if k % 3 == 0:
                    t = Coll("list", t)
                prog = Program(t)
                try:
                    prog.load()
                except Exception:
                    env.count("program_load_failed")
                    continue
                try:
                    check_program(env, prog, f"bounds#{k}", ndata=24)
                    env.count("bound_pair_programs")
                finally:
                    prog.unload()


def run(env):
    harness.tag_errors(False)
    bounds_sweep(env)
    from vf import gen_types
    for i, (label, build) in enumerate(gen_types.directed_shapes()):
        if i % env.nshards != env.shard:
            continue
        prog = Program(build(gen_types.Gen(env.rng, max_depth=2)))
        try:
            prog.load()
        except Exception:
            env.count("program_load_failed")
            continue
        try:
            check_program(env, prog, "directed:" + label, ndata=24)
            env.count("directed_shape_programs")
        finally:
            prog.unload()
    rng = env.rng
    n = env.n(420, 12000)
    for j in range(n):
        if env.out_of_time():
            env.notes.append("time cap reached")
            break
        t, tags = c17.mk_program(env)
        prog = Program(t)
        try:
            prog.load()
        except Exception:
            env.count("program_load_failed")
            continue
        try:
            check_program(env, prog, f"random#{env.shard}.{j}", ndata=24)
            if len(env.samples) < 3 and rng.random() < 0.03:
                env.sample({"type": t.ann(), "sig": t.sig()})
        finally:
            prog.unload()


def finish_coverage(cov, counters, tier):
    cov["exhaustive"] = False


def replay(env, rep):
    from vf.replay import generic
    generic(env, rep)
