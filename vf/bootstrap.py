"""Path set-up for workers.

* the repository under test ($VERIF_REPO, default /repo) goes first on sys.path, so the
  working tree is what is executed (pure Python: "build" == import);
* /verif/.deps (jsonschema, icontract; installed offline by setup.sh) is appended *after*
  site-packages, except that `attrs`/`attr` are taken from it (jsonschema needs a newer one
  than /venv has; apischema does not use attrs).
"""
import importlib
import os
import sys

VERIF = os.path.dirname(os.path.dirname(os.path.abspath(__file__)))
REPO = os.environ.get("VERIF_REPO", "/repo")
DEPS = os.path.join(VERIF, ".deps")

_done = False


def init(need_jsonschema: bool = False):
    global _done
    if not _done:
        sys.dont_write_bytecode = True
        if REPO in sys.path:
            sys.path.remove(REPO)
        sys.path.insert(0, REPO)
        if VERIF not in sys.path:
            sys.path.insert(1, VERIF)
        _done = True
    import apischema  # noqa: F401  (from REPO)

    assert os.path.realpath(apischema.__file__).startswith(os.path.realpath(REPO)), (
        apischema.__file__,
        REPO,
    )
    if need_jsonschema and "jsonschema" not in sys.modules:
        for m in [m for m in sys.modules if m == "attr" or m == "attrs" or m.startswith(("attr.", "attrs."))]:
            del sys.modules[m]
        sys.path.insert(0, DEPS)
        try:
            importlib.import_module("attr")
            importlib.import_module("attrs")
            importlib.import_module("jsonschema")
            importlib.import_module("referencing")
        finally:
            sys.path.remove(DEPS)
            sys.path.append(DEPS)
    return apischema
