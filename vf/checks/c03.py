"""C03 — deserialize is total, pure and crash-free on arbitrary (also non-JSON) input.
Boundary monitor: exception class escaping deserialize, input / class fingerprints before and after,
errors computable + JSON-serialisable, logical step budget (sys.monitoring PY_START)."""
import copy
import dataclasses
import itertools
import json
import sys

from vf import gen_data, gen_types, harness
from vf.gen_data import fingerprint
from vf.spec import Ctx, Program, Ref, Unspecified, jtype

PROP = "C03"
SHARDS = {"quick": 8, "thorough": 16}
TIME_CAP = {"quick": 70, "thorough": 900}
RECURSION_LIMIT = 3000
REQUIRED = ["discriminated_purity_checks", "probe_type_calls", "returned", "rejected", "programs", "hostile_calls", "coerce_calls", "no_copy_calls", "purity_checks", "class_fp_checks", "step_counted_calls", "deep_calls", "digraph_calls"]
RULE = ("C01 program space x {type-relevant atoms, hostile non-JSON objects (NaN/inf, 10**400, str/int/float/list/dict subclasses, tuples, bytes, sets, "
        "non-string / mixed / unhashable keys and values, lone surrogates) substituted at every position of model-valid data, random non-JSON trees, "
        "nesting up to depth 2000 on recursive types} x coerce x additional_properties x fall_back_on_default x no_copy. "
        "A case = (type signature, options, datum repr); non-trivial when the datum is not a bare JSON atom; distinct by hash.")
ASSUMPTIONS = ["user callbacks never raise anything but ValidationError (none are generated here)",
               "termination is a bounded claim: <= 2*10^5 + 4000*size(datum)*size(type) Python function entries per call; wall-clock watchdog separate (inconclusive)",
               "RecursionError is a known finding only for data nested deeper than 200 levels (interpreter recursion budget); below that it is always a violation"]

TOOL = 2


class StepBudget(BaseException):
    pass


class Steps:
    """logical step counter: Python function entries while a monitored call runs"""

    def __init__(self):
        self.n = 0
        self.limit = 0
        self.on = False
        mon = sys.monitoring
        mon.use_tool_id(TOOL, "vf-steps")
        mon.register_callback(TOOL, mon.events.PY_START, self._cb)

    def _cb(self, code, off):
        self.n += 1
        if self.n > self.limit:
            sys.monitoring.set_events(TOOL, 0)
            raise StepBudget()

    def run(self, fn, arg, limit):
        self.n, self.limit = 0, limit
        sys.monitoring.set_events(TOOL, sys.monitoring.events.PY_START)
        try:
            return harness.call(fn, arg)
        except StepBudget:
            return harness.Outcome("exc", exc="StepBudgetExceeded", msg=f"more than {limit} function entries", site="steps")
        finally:
            sys.monitoring.set_events(TOOL, 0)


def size(d):
    n, stack = 0, [d]
    while stack and n < 6000:
        x = stack.pop()
        n += 1
        if isinstance(x, dict):
            stack.extend(x.values())
        elif isinstance(x, (list, tuple, set, frozenset)):
            stack.extend(x)
    return n


def set_at_spine(d, path, v):
    """copy of d (spine only) with v grafted at path -- no deep copy, so v may be arbitrarily deep"""
    if not path:
        return v
    c = dict(d) if isinstance(d, dict) else list(d)
    c[path[0]] = set_at_spine(d[path[0]], path[1:], v)
    return c


def depth_of(d):
    """maximal nesting depth (iterative)"""
    best, stack = 0, [(d, 0)]
    n = 0
    while stack and n < 20000:
        x, k = stack.pop()
        n += 1
        if k > best:
            best = k
        if isinstance(x, dict):
            stack.extend((v, k + 1) for v in x.values())
        elif isinstance(x, (list, tuple)):
            stack.extend((v, k + 1) for v in x)
    return best


def datum_kind(d):
    jt = jtype(d)
    if jt:
        if jt == "number" and (d != d or d in (float("inf"), float("-inf"))):
            return "nan/inf"
        if jt == "integer" and abs(d) > 2**1000:
            return "hugeint"
        return jt
    return type(d).__name__


def hostile_positions(valid, rng, hostile, n):
    out = []
    ps = list(gen_data.paths(valid))
    for _ in range(n):
        p = rng.choice(ps)
        h = rng.choice(hostile)
        try:
            out.append((gen_data.set_at(valid, p, h), datum_kind(h)))
        except Exception:
            pass
        # hostile key
        if p and isinstance(p[-1], str) and rng.random() < 0.3:
            parent = gen_data.get_at(valid, p[:-1])
            c = dict(parent)
            k = rng.choice([1, None, ("t",), 2.5, True, gen_data.MyStr("k"), b"k"])
            c[k] = c.get(p[-1])
            if rng.random() < 0.5:
                c.pop(p[-1], None)
            try:
                out.append((gen_data.set_at(valid, p[:-1], c), "key:" + type(k).__name__))
            except Exception:
                pass
    return out


def random_nonjson(rng, hostile, depth=0):
    k = rng.random()
    if depth > 3 or k < 0.35:
        return rng.choice(hostile + [None, 1, "a", 0.5, True])
    if k < 0.6:
        return [random_nonjson(rng, hostile, depth + 1) for _ in range(rng.randint(0, 3))]
    if k < 0.7:
        return tuple(random_nonjson(rng, hostile, depth + 1) for _ in range(rng.randint(0, 2)))
    out = {}
    for _ in range(rng.randint(0, 3)):
        key = rng.choice(["a", "f1", 1, None, "zz", ("t",), 2.5])
        out[key] = random_nonjson(rng, hostile, depth + 1)
    return out


def class_fp(prog):
    out = {}
    for name, obj in vars(prog.module).items():
        if isinstance(obj, type) and obj.__module__ == prog.module.__name__:
            d = {k: id(v) for k, v in vars(obj).items() if k not in ("__weakref__", "__dict__")}
            if dataclasses.is_dataclass(obj):
                d["$defaults"] = tuple((f.name, fingerprint(f.default) if f.default is not dataclasses.MISSING else None) for f in dataclasses.fields(obj))
            out[name] = d
    return out


def check_program(env, prog, steps, hostile, label, ndata):
    from apischema import deserialization_method

    rng = env.rng
    t = prog.t
    sig = t.sig()
    tsize = sum(1 for _ in t.walk())
    recursive = any(isinstance(n, Ref) for n in t.walk())
    combos = [dict(coerce=c, additional_properties=ap, fall_back_on_default=fb, no_copy=nc)
              for c, ap, fb, nc in itertools.product([False, True], [False, True], [False, True], [True, False])]
    chosen = [combos[0], combos[8]] + rng.sample(combos, 2 if env.quick() else 4)
    cx0 = prog.ctx()
    atoms = gen_data.atoms_for(t, cx0)
    valid = gen_data.valid_data(t, cx0, rng, 3)
    for kw in chosen:
        harness.reset_all()
        # the constructor-bypassing compilation (global setting read at compile time) for a quarter of the option sets
        odc = rng.random() < 0.25
        if odc:
            from apischema import settings
            settings.deserialization.override_dataclass_constructors = True
            env.count("override_dataclass_constructors_option_sets")
        try:
            o = harness.call(deserialization_method, prog.T, **kw)
        finally:
            if odc:
                settings.deserialization.override_dataclass_constructors = False
        kw = dict(kw, override_dataclass_constructors=odc)
        if o.kind != "ok":
            env.violation({"kind": "compile", "exc": o.exc or "ValidationError"}, {"program": prog.source, "options": kw, "outcome": o.brief()})
            continue
        method = o.value
        harness.tree_classes(method, env.counters)
        cases = [(a, datum_kind(a)) for a in atoms] + [(h, datum_kind(h)) for h in hostile]
        for v in valid:
            cases += hostile_positions(v, rng, hostile, max(3, ndata // 3))
            cases += [(m, "mutant") for m in gen_data.mutants(v, rng, atoms + hostile, max(2, ndata // 6))]
        cases += [(random_nonjson(rng, hostile), "random-nonjson") for _ in range(max(2, ndata // 5))]
        deep = []
        if recursive and valid:
            for dpt in (30, 50, 400, 2000):
                for v in valid[:1]:
                    for p in list(gen_data.paths(v))[:40]:
                        leaf = gen_data.get_at(v, p)
                        if isinstance(leaf, (list, dict)) and not leaf:
                            kind = "list" if isinstance(leaf, list) else "dict"
                            try:
                                deep.append((set_at_spine(v, p, gen_data.nested(dpt, [] if kind == "list" else {}, kind)), f"deep{dpt}"))
                            except Exception:
                                pass
                            break
            deep += [(gen_data.nested(dpt, 0, k), f"deep{dpt}") for dpt in (50, 2000) for k in ("list", "dict")]
        cfp = class_fp(prog)
        for d, dk in cases + deep:
            is_deep = dk.startswith("deep")
            if is_deep:
                env.count("deep_calls")
            fp = fingerprint(d)
            try:
                snapshot = repr(d)[:400]
            except Exception:
                snapshot = "<unrepresentable>"
            use_steps = is_deep or rng.random() < 0.25
            if use_steps:
                env.count("step_counted_calls")
                real = steps.run(method, d, 200_000 + 4000 * min(size(d), 5000) * tsize)
            else:
                real = harness.call(method, d)
            env.case(sig, tuple(sorted(kw.items())), snapshot, dk, nontrivial=jtype(d) in (None, "array", "object"))
            if kw["coerce"]:
                env.count("coerce_calls")
            if not kw["no_copy"]:
                env.count("no_copy_calls")
            if jtype(d) is None or dk not in ("null", "boolean", "integer", "number", "string", "array", "object", "mutant"):
                env.count("hostile_calls")
            wit = {"program": prog.source, "label": label, "options": kw, "datum": d, "datum_kind": dk}
            if real.kind == "exc":
                feats = {"kind": "exception", "exc": real.exc, "coerce": kw["coerce"], "site": real.site, "datum_kind": dk if (is_deep or real.exc == "RecursionError") else None}
                if real.exc == "RecursionError":
                    feats["deep"] = depth_of(d) > 200
                    feats["datum_kind"] = None
                env.violation({k: v for k, v in feats.items() if v is not None}, {**wit, "observed": real.brief()})
            elif real.kind == "verr":
                env.count("rejected")
                try:
                    json.dumps(real.errors)
                    str(real.error)
                except Exception as e:
                    env.violation({"kind": "errors-not-json", "exc": type(e).__name__, "datum_kind": dk}, {**wit, "errors": repr(real.errors)[:500]})
            else:
                env.count("returned")
            env.count("purity_checks")
            if fingerprint(d) != fp:
                env.violation({"kind": "input-mutated", "no_copy": kw["no_copy"]}, {**wit, "before": snapshot, "after": harness.safe_repr(d)[:400]})
        env.count("class_fp_checks")
        cfp2 = class_fp(prog)
        if cfp2 != cfp:
            changed = sorted(n for n in cfp if cfp[n] != cfp2.get(n))
            env.violation({"kind": "class-modified"}, {"program": prog.source, "options": kw, "classes": changed})
    env.count("programs")


PROBE_TYPES = [
    # well-formed types whose acceptance the reference model does not decide (Any inside sets / as key, float multipleOf,
    # constraints given twice): crash-freedom needs no model
    "Set[Any]", "FrozenSet[Any]", "Set[Union[int, Any]]", "Dict[Any, int]", "List[Set[Any]]", "Dict[str, FrozenSet[Any]]", "Optional[Set[Any]]",
    "Annotated[int, schema(mult_of=0.5)]", "Annotated[float, schema(mult_of=0.1)]", "Annotated[Annotated[int, schema(mult_of=2)], schema(mult_of=3)]",
    "List[Annotated[int, schema(mult_of=0.25, min=0)]]", "Annotated[Any, schema(mult_of=0.5, min_len=1, min_items=1, min_props=1)]",
    "Annotated[Any, schema(unique=True)]", "Annotated[List[Any], schema(unique=True)]", "Tuple[Any, ...]", "Mapping[str, Any]",
    "Annotated[Union[int, str, None], schema(min=0, max_len=2)]", "Dict[Annotated[str, schema(pattern='^a')], Any]", "re.Pattern", "List[str]", "Union[str, float]",
]


def check_probe_types(env, steps):
    import sys
    import types
    from apischema import deserialization_method
    from vf.spec import PRELUDE

    rng = env.rng
    mod = types.ModuleType(f"vfprobe_{env.shard}")
    sys.modules[mod.__name__] = mod
    exec(compile(PRELUDE, "<vfprobe>", "exec"), mod.__dict__)
    big = 10 ** 400
    data = [None, True, 0, -1, 1.5, float("nan"), float("inf"), big, -big, 10 ** 5000, "a{99999999999999999999}", "", "a", "12", [], [[]], [[1], [1]], [{}], [{"a": 1}, {"a": 1}], [1, "a", None, 2.5], [big, 1e308],
            {}, {"a": []}, {"a": {"b": [1]}}, {1: 2}, {None: 1}, {(1, 2): 3}, [float("nan"), float("nan")], [0, -0.0, False], [[1, 2], [2, 1]], (1, 2), {1, 2}, b"x", object()]
    try:
        for i, expr in enumerate(PROBE_TYPES):
            if i % env.nshards != env.shard % len(PROBE_TYPES) and env.nshards <= len(PROBE_TYPES):
                continue
            T = eval(expr, mod.__dict__)
            for coerce in (False, True):
                for no_copy in (True, False):
                    harness.reset_all()
                    om = harness.call(deserialization_method, T, coerce=coerce, no_copy=no_copy)
                    if om.kind != "ok":
                        env.violation({"kind": "compile", "family": "probe-types", "exc": om.exc or "ValidationError", "site": om.site}, {"type": expr, "outcome": om.brief()})
                        continue
                    for d in data:
                        fp = fingerprint(d)
                        real = steps.run(om.value, d, 400_000)
                        env.count("probe_type_calls")
                        env.case("probe", expr, coerce, no_copy, harness.safe_repr(d)[:80])
                        if real.kind == "exc":
                            env.violation({"kind": "exception", "exc": real.exc, "coerce": coerce, "site": real.site, "family": "probe-types"},
                                          {"program": PRELUDE + f"\nT = {expr}\n", "type": expr, "options": {"coerce": coerce, "no_copy": no_copy}, "datum": d, "observed": real.brief()})
                        elif real.kind == "verr":
                            try:
                                json.dumps(real.errors)
                                str(real.error)
                            except Exception as e:
                                env.violation({"kind": "errors-not-json", "exc": type(e).__name__, "family": "probe-types"}, {"type": expr, "datum": d, "errors": repr(real.errors)[:500]})
                        if fingerprint(d) != fp:
                            env.violation({"kind": "input-mutated", "no_copy": no_copy, "family": "probe-types"}, {"type": expr, "datum": d})
    finally:
        sys.modules.pop(mod.__name__, None)


def check_digraph(env, j):
    """mutually recursive classes with overlapping cycles (random digraph), first uses in random order, shallow data:
    compiling / analysing the recursion must never end in RecursionError"""
    import sys
    import types
    from apischema import deserialize, serialize
    from apischema.json_schema import deserialization_schema

    rng = env.rng
    n = rng.choice([2, 3, 3, 4, 5, 6])
    tag = f"{env.shard}_{j}"
    names = [f"K{tag}_{i}" for i in range(n)]
    edges = {a: [b for b in names if rng.random() < 0.4] for a in names}
    src = "from dataclasses import dataclass, field\nfrom typing import List, Optional, Dict\n"
    for a in names:
        src += f"@dataclass\nclass {a}:\n" + ("    x: int = 0\n" if not edges[a] else "")
        for k, b in enumerate(edges[a]):
            w = rng.choice(["Optional['{}']", "Optional[List['{}']]", "Optional[Dict[str, '{}']]", "List['{}']"]).format(b)
            src += f"    f{k}: {w} = " + ("None\n" if w.startswith("Optional") else "field(default_factory=list)\n")
    mod = types.ModuleType(f"vfdigraph_{tag}")
    sys.modules[mod.__name__] = mod
    harness.reset_all()
    try:
        exec(compile(src, f"<{mod.__name__}>", "exec"), mod.__dict__)
        order = names[:]
        rng.shuffle(order)
        for a in order:
            cls = getattr(mod, a)
            datum = {}
            if edges[a]:
                datum = {"f0": None}
            for fn, args in ((deserialize, (cls, datum)), (deserialization_schema, (cls,))):
                o = harness.call(fn, *args)
                env.count("digraph_calls")
                env.case("digraph", src, a, fn.__name__)
                if o.kind == "exc":
                    env.violation({"kind": "exception", "exc": o.exc, "family": "recursive-digraph", "op": fn.__name__}, {"program": src, "order": order, "class": a, "observed": o.brief()})
                    return
                if fn is deserialize and o.kind == "ok":
                    s = harness.call(serialize, cls, o.value)
                    if s.kind == "exc":
                        env.violation({"kind": "exception", "exc": s.exc, "family": "recursive-digraph", "op": "serialize"}, {"program": src, "order": order, "class": a, "observed": s.brief()})
                        return
    finally:
        sys.modules.pop(mod.__name__, None)


def run(env):
    from vf import disc
    disc.run_family(env, disc.check_purity, env.n(64, 2000))  # discriminated-union families first (their own budget)
    harness.tag_errors(False)
    rng = env.rng
    steps = Steps()
    hostile = gen_data.hostile_atoms()
    check_probe_types(env, steps)
    for j in range(env.n(400, 8000)):
        check_digraph(env, j)
    n = env.n(2600, 60000)
    small = [b for i, (_, b) in enumerate(gen_types.enumerate_small(depth2=False))]
    for j in range(n):
        if env.out_of_time():
            env.notes.append("time cap reached")
            break
        g = gen_types.Gen(rng, max_depth=rng.choice([2, 3, 4]), pattern_overlap=True)
        k = rng.random()
        if k < 0.2:
            t = rng.choice(small)(g)
            if t is None:
                continue
        elif k < 0.55:
            t = g.type(0)
        elif k < 0.8:
            t = g.object(0)
        else:  # force a recursive shape
            o = g.object(0, kind="dataclass", nfields=rng.choice([1, 2]))
            from vf.spec import F, Coll, MapT, Prim, opt
            o.fields.append(F(g.fresh("f"), rng.choice([opt(Ref(o.name)), Coll("list", Ref(o.name)), MapT("dict", Prim("str"), Ref(o.name))]), default=None))
            o.fields[-1].factory = None
            o.fields[-1].default = "None" if isinstance(o.fields[-1].t, type(opt(Prim("int")))) else None
            if o.fields[-1].default is None:
                o.fields[-1].factory = "list" if isinstance(o.fields[-1].t, Coll) else "dict"
            o.fields.sort(key=lambda f: (f.has_default and not f.init_false) * 1)
            t = o
        prog = Program(t)
        try:
            prog.load()
        except Exception as e:
            env.count("program_load_failed")
            continue
        try:
            check_program(env, prog, steps, hostile, f"random#{env.shard}.{j}", ndata=24)
            if len(env.samples) < 3 and rng.random() < 0.05:
                env.sample({"type": t.ann(), "sig": t.sig()})
        finally:
            prog.unload()


def finish_coverage(cov, counters, tier):
    cov["exhaustive"] = False


def replay(env, rep):
    from vf.replay import generic
    generic(env, rep)
