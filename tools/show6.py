#!/usr/bin/env python3
import json,glob,sys
only=sys.argv[2:]
for p in sorted(glob.glob(f'/verif/replays/{sys.argv[1]}-*.json'), key=lambda s:int(s.split('-')[-1].split('.')[0])):
    if only and p.split('-')[-1].split('.')[0] not in only: continue
    r=json.load(open(p)); w=r['witness']; f=r['features']
    print('==',p.split('/')[-1],json.dumps(f), 'x', r['count_in_run']); print(w['program'].split('NoneType = type(None)\n')[-1].strip())
    for k,v in w.items():
        if k!='program': print('  ',k,':',json.dumps(v)[:900])
