#!/usr/bin/env python3
"""tools/seedall.py [jobs] : re-evaluate every stored seeded change against the quick check(s) named in its meta.json
(`caught_by`, default: the check of its own property) on a scratch copy of /repo; writes seeded/RESULTS.json.
Exit 0 iff every change is caught by at least one of its checks."""
import concurrent.futures as cf
import glob
import json
import os
import re
import subprocess
import sys

jobs = int(sys.argv[1]) if len(sys.argv) > 1 else 3


def one(d):
    m = json.load(open(os.path.join(d, "meta.json")))
    checks = m.get("caught_by") or [m["breaks_property"]]
    r = subprocess.run(["python3", "/verif/tools/seedeval.py", d, "1", *checks], capture_output=True, text=True)
    out = r.stdout
    demo = re.search(r"demo clean: exit (\d+); demo with change: exit (\d+)", out)
    res = {c: (int(mm.group(1)) if (mm := re.search(rf"^{c}: exit (\d+)", out, re.M)) else None) for c in checks}
    return os.path.basename(d), {"demo_clean": int(demo.group(1)) if demo else None, "demo_changed": int(demo.group(2)) if demo else None, "checks": res,
                                 "caught": any(v == 1 for v in res.values()), "patch_failed": "PATCH FAILED" in out, "recorded_status": m.get("status", "caught")}


seeds = sorted(glob.glob("/verif/seeded/S*"))
results = {}
only = [x for x in os.environ.get("SEEDALL_ONLY", "").split(",") if x]  # re-evaluate these ids only and merge into RESULTS.json
if only:
    seeds = [d for d in seeds if os.path.basename(d).split("-")[0] in only]
    prev = json.load(open("/verif/seeded/RESULTS.json"))
    results = {k: v for k, v in prev.items() if k != "_run" and os.path.isdir("/verif/seeded/" + k)}
with cf.ThreadPoolExecutor(jobs) as ex:
    for name, res in ex.map(one, seeds):
        results[name] = res
        print(name, res, flush=True)
json.dump({"_run": {"VERIF_SEED": os.environ.get("VERIF_SEED", "0"), "tier": os.environ.get("SEEDEVAL_TIER", "quick"), "repo_head": subprocess.run(["git", "-C", "/repo", "log", "--format=%h", "-1"], capture_output=True, text=True).stdout.strip()}, **results},
          open("/verif/seeded/RESULTS.json", "w"), indent=1, sort_keys=True)
open_ = [n for n, r in results.items() if not r["caught"] and r["recorded_status"] == "not-caught-yet"]  # stored as not caught yet: listed, not a regression
missed = [n for n, r in results.items() if not r["caught"] and n not in open_]
print(f"{len(results) - len(missed) - len(open_)} / {len(results)} caught; recorded as not caught yet: {open_}; missed: {missed}")
sys.exit(1 if missed else 0)
