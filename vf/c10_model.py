"""C10 executable model of the documented run / skip / discard / merge rule (docs/validation.md + the property statement).

predict(spec, case, ...) -> Prediction for one (class, datum, outcome table) case.
case = {"status": {"a": "A|V|I"}, "fail": [validator names], "extra": None|"zz"|"<field name>"}
"""
from vf.c10_gen import (DEFAULT, INVALID, POST_INIT_DELTA, VALID, aliaser_fn, error_paths, ext_name, field_of, field_validator_names, is_initvar,
                        is_required)


def datum(spec, case):
    d = {}
    for f in spec["fields"]:
        st = case["status"][f["n"]]
        if st == "V":
            d[ext_name(spec, f["n"])] = VALID[f["n"]]
        elif st == "I":
            d[ext_name(spec, f["n"])] = INVALID
    if case.get("extra"):
        d[case["extra"]] = 0
    return d


def validator_order(spec, mode="sub-first"):
    own = [v for v in spec["validators"] if v["where"] == "own"] + [v for v in spec["validators"] if v["where"] == "ext"]
    base = [v for v in spec["validators"] if v["where"] == "base"]
    return own + base if mode == "sub-first" else base + own


def deps_of(v):
    return {fn for fn, _ in v["reads"]} | set(v.get("params") or [])


def discard_of(v):
    if v.get("discard"):
        return set(v["discard"])
    if v.get("field"):
        return {v["field"]}
    return set()


class Prediction:
    __slots__ = ("field_runs", "class_runs", "why_skipped", "errors", "structural", "ctor", "value", "bad", "provided_ok", "f16_shape",
                 "arg_validator_runs")

    def brief(self):
        return {"field_validators_run": sorted(self.field_runs), "class_validators_run": [[n, list(map(list, r))] for n, r in self.class_runs],
                "skipped": self.why_skipped, "errors": [[list(p), m] for p, m in sorted(self.errors, key=repr)], "ctor": self.ctor}


def predict(spec, case, order_mode="sub-first", post_init_skip=True) -> Prediction:
    al = aliaser_fn(spec.get("aliaser"))
    status, fail = case["status"], set(case["fail"])
    P = Prediction()
    errors = []
    bad, provided_ok = set(), set()
    field_runs = set()
    for f in spec["fields"]:
        fn, st, ext = f["n"], status[f["n"]], ext_name(spec, f["n"])
        if st == "A":
            if is_required(f):
                bad.add(fn)
                errors.append(((ext,), "missing"))
        elif st == "I":
            bad.add(fn)
            errors.append(((ext,), "type"))
        else:
            ok = True
            for name, style in zip(field_validator_names(f), list(f.get("fv") or []) + list(f.get("nt") or [])):
                field_runs.add(name)  # every function validator of a well-typed provided field value executes
                if name in fail:
                    ok = False
                    for path, msg in error_paths(style, name, None, al):
                        errors.append(((ext,) + path, msg))
            if ok:
                provided_ok.add(fn)
            else:
                bad.add(fn)
    extra = case.get("extra")
    if extra:
        errors.append(((extra,), "unexpected"))
    structural = bool(errors)
    post_init_fields = {f["n"] for f in spec["fields"] if f.get("post_init")}
    discarded = set()
    runs, why = [], {}
    f16 = False
    for v in validator_order(spec, order_mode):
        deps = deps_of(v)
        if not deps:
            why[v["n"]] = "no-deps"
        elif deps & bad:
            why[v["n"]] = "invalid-dep"
        elif deps & discarded:
            why[v["n"]] = "discarded-dep"
        elif not deps & provided_ok:
            why[v["n"]] = "all-default"
        elif structural and post_init_skip and deps & post_init_fields:
            why[v["n"]] = "post-init-dep"
        else:
            reads = []
            for fn, _ in v["reads"]:
                val = VALID[fn] if fn in provided_ok else DEFAULT[fn]
                if fn in post_init_fields:
                    val = None  # unspecified: value before or after __post_init__
                reads.append((fn, val))
            for p in v.get("params") or []:
                reads.append((p, VALID[p] if p in provided_ok else DEFAULT[p]))
            runs.append((v["n"], tuple(reads)))
            if v["n"] in fail:
                pf_alias = (field_of(spec, v["pf"]).get("alias") or v["pf"]) if v.get("pf") else None
                prefix = (ext_name(spec, v["field"]),) if v.get("field") else ()
                for path, msg in error_paths(v["style"], v["n"], pf_alias, al):
                    errors.append((prefix + path, msg))
                d = discard_of(v)
                if d and not d & deps:
                    f16 = True  # the failing validator does not read what it discards (mechanism of F16)
                discarded |= d
    P.field_runs, P.class_runs, P.why_skipped = field_runs, runs, why
    P.errors, P.structural = errors, structural
    P.bad, P.provided_ok, P.f16_shape = bad, provided_ok, f16
    P.ctor = 0 if errors else 1
    P.value = None
    if not errors:
        val = {}
        for f in spec["fields"]:
            if is_initvar(f):
                continue
            x = VALID[f["n"]] if f["n"] in provided_ok else DEFAULT[f["n"]]
            if f.get("post_init"):
                x += POST_INIT_DELTA
            val[f["n"]] = x
        P.value = val
    # unregistered function validator given through the `validators=` argument: reads attributes of the object
    av = spec.get("arg_validator")
    P.arg_validator_runs = None
    if av:
        deps = set(av["reads"])
        P.arg_validator_runs = bool(deps) and not deps & bad and bool(deps & provided_ok)
    return P


def relevant_validators(spec, status):
    """validators whose pass/fail outcome can matter for this field-status vector (the others are never invoked, whatever the
    discards): field-level validators of provided well-typed fields; class validators with deps all non-bad and one provided.
    Over-approximation (ignores field-validator failures making a field bad)."""
    out = []
    bad = {f["n"] for f in spec["fields"] if status[f["n"]] == "I" or (status[f["n"]] == "A" and is_required(f))}
    prov = {f["n"] for f in spec["fields"] if status[f["n"]] == "V"}
    for f in spec["fields"]:
        if status[f["n"]] == "V":
            out += field_validator_names(f)
    for v in spec["validators"]:
        d = deps_of(v)
        if d and not d & bad and d & prov:
            out.append(v["n"])
    av = spec.get("arg_validator")
    if av and not set(av["reads"]) & bad and set(av["reads"]) & prov:
        out.append(av["n"])
    return out
