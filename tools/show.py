#!/usr/bin/env python3
"""Compact view of replays/<PROP>-*.json"""
import glob, json, sys
prop = sys.argv[1]
only = sys.argv[2:] 
for p in sorted(glob.glob(f"/verif/replays/{prop}-*.json"), key=lambda s:int(s.split('-')[-1].split('.')[0])):
    if only and p.split('-')[-1].split('.')[0] not in only: continue
    r = json.load(open(p)); w = r["witness"]
    print("==", p.split('/')[-1], json.dumps(r["features"], sort_keys=True), "x", r.get("count_in_run"))
    for k, v in w.items():
        if k == "program":
            src = v.split("CLASS_ALIASERS\n", 1)[-1].strip()
            print("   program:\n      " + src.replace("\n", "\n      "))
        else:
            print(f"   {k}: {json.dumps(v)[:700]}")
