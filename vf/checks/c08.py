"""C08 — options that are optimizations never change results.
Pairwise boundary monitor: the same call with and without one optimisation option; container-identity walker; input fingerprints."""
import itertools
import json

from vf import gen_data, gen_types, harness
from vf.gen_data import fingerprint
from vf.spec import AnyT, ObjectT, Program, Unspecified, canon

PROP = "C08"
SHARDS = {"quick": 8, "thorough": 16}
TIME_CAP = {"quick": 70, "thorough": 900}
REQUIRED = ["directed_shape_programs", "constructor_shape_cases", "discriminated_purity_checks", "deser_pass_through_json_pairs", "deser_pairs", "deser_no_copy_pairs", "deser_ctor_pairs", "deser_method_vs_function", "deser_pass_through", "alias_walks", "purity_checks", "ser_pairs", "ser_no_copy_pairs", "ser_check_type_pairs", "ser_pass_through_pairs", "ser_alias_walks", "programs"]
# compiled-tree node classes this workload is expected to reach: reported as coverage gaps when missing, never a verdict
# (a renamed internal class must not turn into an alarm)
EXPECTED_NODES = ["node:ListCheckOnlyMethod", "node:ListMethod", "node:MappingCheckOnly", "node:MappingMethod", "node:SimpleObjectMethod", "node:ObjectMethod", "node:FieldsConstructor"]
RULE = ("C01 program space (programs mixing copying and check-only sub-trees) x atoms/valid/mutant data (valid and invalid: errors must be identical) x "
        "{no_copy, override_dataclass_constructors, function vs precomputed method, deserialization pass_through}; values obtained by deserializing valid data x "
        "{no_copy, check_type, function vs method, all 2^5 PassThroughOptions flag sets (+ types sets) completed with serialization_default}. "
        "A case = (type signature, pair kind, datum/value repr); distinct by hash; non-trivial when the datum is a container.")
ASSUMPTIONS = ["Any-typed positions are documented as untouched: the no-sharing clause is evaluated on programs without Any (and without TypedDict extra keys)",
               "pass-through results are compared after completion with json.dumps(default=serialization_default(...))",
               "values for the serialization pairs are drawn from the image of deserialize (well-typed by construction)"]


def mutable_ids(x, out, depth=0):
    if depth > 60:
        return
    if isinstance(x, (list, dict, set)):
        out.add(id(x))
    if isinstance(x, dict):
        for v in x.values():
            mutable_ids(v, out, depth + 1)
    elif isinstance(x, (list, tuple, set, frozenset)):
        for v in x:
            mutable_ids(v, out, depth + 1)
    elif hasattr(x, "__dict__") and not isinstance(x, type):
        for v in vars(x).values():
            mutable_ids(v, out, depth + 1)


def out_sig(o):
    if o.kind == "ok":
        try:
            return ("ok", canon(o.value))
        except Unspecified:
            return ("ok", "?")
    if o.kind == "verr":
        return ("verr", json.dumps(o.errors, sort_keys=True, default=str))
    return ("exc", o.exc)


def container_classes(x, depth=0):
    """classes of the containers of a serialized value, position by position"""
    if depth > 60:
        return "<deep>"
    if isinstance(x, dict):
        return (type(x).__name__, tuple(sorted(((repr(k), container_classes(v, depth + 1)) for k, v in x.items()))))
    if isinstance(x, (list, tuple, set, frozenset)):
        return (type(x).__name__, tuple(container_classes(e, depth + 1) for e in x))
    return None


def out_sig_unordered(o):
    """errors as a multiset: the relative order of the messages reported at one location by the alternatives of a union is not
    part of the claim (wrapping one alternative in a type check moves its message)"""
    if o.kind == "verr":
        return ("verr", sorted(json.dumps(e, sort_keys=True, default=str) for e in o.errors))
    return out_sig(o)


def family(a):
    """runtime-class family of a union alternative (what isinstance-based dispatch sees)"""
    from vf.spec import Coll, EnumT, Lit, MapT, Prim, SubPrim, Tup, strip as _strip
    a = _strip(a)
    if isinstance(a, Prim):
        return {"none": {"none"}, "bool": {"bool", "int"}, "int": {"int", "bool"}, "float": {"float"}, "str": {"str", "abcseq"}}[a.p]
    if isinstance(a, SubPrim):
        return {a.base, "abcseq"} if a.base == "str" else {a.base}
    if isinstance(a, Lit):
        return {("str" if type(v) is str else "int") for v in a.vals} | ({"abcseq"} if any(type(v) is str for v in a.vals) else set())
    if isinstance(a, EnumT):
        return {"enum:" + a.name} | ({"str", "abcseq"} if a.mixin == "str" else {"int"} if a.mixin == "int" else set())
    if isinstance(a, Coll):
        return {"seq": {"abcseq", "list", "tuple", "deque"}, "coll": {"abcseq", "list", "tuple", "set", "dict", "deque"}, "mutseq": {"list", "deque"}, "list": {"list"}, "blist": {"list"},
                "vartuple": {"tuple"}, "set": {"set"}, "absset": {"set"}, "mutset": {"set"}, "frozenset": {"set"}, "deque": {"deque"}}[a.c]
    if isinstance(a, Tup):
        return {"tuple"}
    if isinstance(a, MapT):
        return {"dict"}
    if isinstance(a, ObjectT):
        return {"dict"} if a.kind == "typeddict" else ({"tuple", "obj:" + a.name} if a.kind == "namedtuple" else {"obj:" + a.name})
    return {"any"}


def ambiguous_union(t):
    """some union where a value of one alternative is also an instance of another alternative's class:
    the class-based dispatch of serialization may then legitimately pick the other alternative, and what
    check_type / pass-through do there is not fixed by the statement (abstain)"""
    from vf.spec import Union_, flat_alts
    for n in t.walk():
        if isinstance(n, Union_):
            fams = [family(a) for a in flat_alts(n)]
            for i in range(len(fams)):
                for j in range(i + 1, len(fams)):
                    if "any" in fams[i] or "any" in fams[j] or fams[i] & fams[j]:
                        return True
    return False


def has_any(t):
    """positions excluded from the no-sharing check: none any more (Any positions and the undeclared keys kept by a TypedDict are
    copied under no_copy=False since the repairs of F112 / F113)"""
    return False


def check_deser(env, prog, label, ndata):
    from apischema import deserialization_method, deserialize, settings

    rng = env.rng
    t, T = prog.t, prog.T
    sig = t.sig()
    cx = prog.ctx(additional_properties=rng.random() < 0.3, fall_back_on_default=rng.random() < 0.15, aliaser=rng.choice(["identity", "identity", "camel"]))
    base_kw = harness.options(cx)
    harness.reset_all()
    variants = {
        "base": dict(base_kw, no_copy=True),
        "no_copy_off": dict(base_kw, no_copy=False),
        "coerce+no_copy_off": dict(base_kw, no_copy=False, coerce=True),
        "coerce": dict(base_kw, no_copy=True, coerce=True),
    }
    methods = {}
    for name, kw in variants.items():
        o = harness.call(deserialization_method, T, **kw)
        if o.kind != "ok":
            env.violation({"kind": "compile", "exc": o.exc or "ValidationError", "variant": name}, {"program": prog.source, "options": repr(kw)})
            return []
        methods[name] = o.value
        harness.tree_classes(o.value, env.counters)
    settings.deserialization.override_dataclass_constructors = True
    try:
        o = harness.call(deserialization_method, T, **variants["base"])
        ctor_method = o.value if o.kind == "ok" else None
        if ctor_method is not None:
            harness.tree_classes(ctor_method, env.counters)
        o2 = harness.call(deserialization_method, T, **variants["no_copy_off"])
        ctor_method2 = o2.value if o2.kind == "ok" else None
    finally:
        settings.deserialization.override_dataclass_constructors = False
    if ctor_method is None:
        env.violation({"kind": "compile", "variant": "override_dataclass_constructors"}, {"program": prog.source})
        return []
    atoms = gen_data.atoms_for(t, cx)
    valid = gen_data.valid_data(t, cx, rng, 4)
    data = list(atoms[:: max(1, len(atoms) // 10)]) + valid
    for v in valid:
        data += gen_data.mutants(v, rng, atoms, max(2, ndata // 4))
    check_alias = not has_any(t)
    values = []
    wit0 = {"program": prog.source, "label": label, "options": {k: v for k, v in base_kw.items() if k != "aliaser"} | {"aliaser": cx.aliaser}}
    for d in data:
        fp = fingerprint(d)
        r_base = harness.call(methods["base"], d)
        env.case(sig, "deser", repr(d), nontrivial=isinstance(d, (list, dict)))
        pairs = [("no_copy", methods["no_copy_off"], "deser_no_copy_pairs"), ("override_dataclass_constructors", ctor_method, "deser_ctor_pairs")]
        for pname, m, ctr in pairs:
            r = harness.call(m, d)
            env.count("deser_pairs")
            env.count(ctr)
            if out_sig(r) != out_sig(r_base):
                env.violation({"kind": "result-depends-on-option", "option": pname, "base": r_base.kind, "variant": r.kind}, {**wit0, "datum": d, "base": r_base.brief(), "variant": r.brief()})
        if ctor_method2 is not None:
            r = harness.call(ctor_method2, d)
            if out_sig(r) != out_sig(r_base):
                env.violation({"kind": "result-depends-on-option", "option": "override_dataclass_constructors+no_copy", "base": r_base.kind, "variant": r.kind}, {**wit0, "datum": d, "base": r_base.brief(), "variant": r.brief()})
        # coerce variants against each other
        rc1, rc2 = harness.call(methods["coerce"], d), harness.call(methods["coerce+no_copy_off"], d)
        env.count("deser_pairs")
        if out_sig(rc1) != out_sig(rc2):
            env.violation({"kind": "result-depends-on-option", "option": "no_copy(coerce=True)", "base": rc1.kind, "variant": rc2.kind}, {**wit0, "datum": d, "base": rc1.brief(), "variant": rc2.brief()})
        # function vs precomputed method
        if rng.random() < 0.3:
            rf = harness.call(deserialize, T, d, **variants["base"])
            env.count("deser_method_vs_function")
            if out_sig(rf) != out_sig(r_base):
                env.violation({"kind": "function-differs-from-method", "side": "deserialize"}, {**wit0, "datum": d, "method": r_base.brief(), "function": rf.brief()})
        # input never modified (also with no_copy=True)
        env.count("purity_checks")
        if fingerprint(d) != fp:
            env.violation({"kind": "input-mutated", "side": "deserialize"}, {**wit0, "datum": d})
        # no_copy=False => no shared mutable container
        if check_alias and isinstance(d, (list, dict)):
            r = harness.call(methods["no_copy_off"], d)
            if r.kind == "ok":
                env.count("alias_walks")
                a, b = set(), set()
                mutable_ids(d, a)
                mutable_ids(r.value, b)
                if a & b:
                    env.violation({"kind": "result-shares-container-with-input", "side": "deserialize"}, {**wit0, "datum": d, "result": r.brief()})
        if r_base.kind == "ok" and len(values) < 12:
            r = harness.call(methods["no_copy_off"], d)
            if r.kind == "ok":
                values.append(r.value)
    # deserialization pass_through of every class of the type that no JSON datum is an instance of: JSON data (valid and
    # invalid) contain no such instance, so results and errors must be identical
    classes = json_free_classes(prog)
    if classes:
        harness.reset_all()
        kw = dict(base_kw)
        plain = harness.call(deserialization_method, T, **kw)
        pt = harness.call(deserialization_method, T, pass_through=tuple(classes), **kw)
        if plain.kind == "ok" and pt.kind != "ok":
            env.violation({"kind": "compile", "variant": "pass_through", "exc": pt.exc or "ValidationError", "site": pt.site}, {**wit0, "classes": [c.__name__ for c in classes], "outcome": pt.brief()})
        elif plain.kind == "ok":
            for d in data:
                r1, r2 = harness.call(plain.value, d), harness.call(pt.value, d)
                env.count("deser_pass_through_json_pairs")
                if out_sig_unordered(r1) != out_sig_unordered(r2):
                    env.violation({"kind": "pass-through-changes-result", "side": "deserialize", "data": "json-only", "plain": r1.kind, "with_pass_through": r2.kind},
                                  {**wit0, "datum": d, "classes": [c.__name__ for c in classes], "plain": r1.brief(), "with_pass_through": r2.brief()})
                    break
    # deserialization pass_through for dataclass instances appearing in the data
    if isinstance(t, ObjectT) and t.kind == "dataclass" and valid:
        from typing import List, get_origin
        cls = get_origin(T) or T  # pass_through names classes: a specialised generic is checked through its origin
        harness.reset_all()
        kw = dict(base_kw)
        plain = harness.call(deserialization_method, List[T], **kw)
        pt = harness.call(deserialization_method, List[T], pass_through=(cls,), **kw)
        if plain.kind == "ok" and pt.kind == "ok":
            for v in valid[:3]:
                inst = harness.call(methods["no_copy_off"], v)
                if inst.kind != "ok":
                    continue
                env.count("deser_pass_through")
                r1 = harness.call(plain.value, [v, v])
                r2 = harness.call(pt.value, [v, inst.value])
                r3 = harness.call(pt.value, [v, v])
                if out_sig(r1) != out_sig(r2) or out_sig(r1) != out_sig(r3):
                    env.violation({"kind": "pass-through-changes-result", "side": "deserialize"}, {**wit0, "datum": v, "plain": r1.brief(), "with_instance": r2.brief(), "json_only": r3.brief()})
                elif r2.kind == "ok" and r2.value[1] is not inst.value:
                    env.violation({"kind": "pass-through-instance-not-left-untouched"}, {**wit0, "datum": v})
    return values


def json_free_classes(prog):
    """runtime classes met in the type that no JSON datum is an instance of (so passing them through changes nothing for JSON data)"""
    import datetime, decimal, ipaddress, pathlib, re, uuid
    from vf.spec import Coll, EnumT, Std, SubPrim, Tup
    std = {"uuid": uuid.UUID, "date": datetime.date, "datetime": datetime.datetime, "time": datetime.time, "decimal": decimal.Decimal, "bytes": bytes,
           "path": pathlib.PurePath, "ipv4": ipaddress.IPv4Address, "ipv6": ipaddress.IPv6Address, "pattern": re.Pattern}
    out = []
    for n in prog.t.walk():
        c = None
        if isinstance(n, ObjectT) and n.kind in ("dataclass", "namedtuple"):
            c = getattr(prog.module, n.name, None)
        elif isinstance(n, (EnumT, SubPrim)):
            c = getattr(prog.module, n.name, None)
        elif isinstance(n, Std):
            c = std.get(n.s)
        elif isinstance(n, Tup) or (isinstance(n, Coll) and n.c in ("vartuple", "tuple")):
            c = tuple
        elif isinstance(n, Coll) and n.c in ("set", "mutset"):
            c = set
        elif isinstance(n, Coll) and n.c == "frozenset":
            c = frozenset
        if isinstance(c, type) and c not in out:
            out.append(c)
    return out


PT_FLAGS = ["any", "collections", "dataclasses", "enums", "tuple"]


def check_ser(env, prog, values, label):
    from apischema import PassThroughOptions, serialization_default, serialization_method, serialize

    rng = env.rng
    t, T = prog.t, prog.T
    sig = t.sig()
    extra = [c for v in values[:3] for c in harness.sequence_variants(t, v)]
    if extra:
        env.count("sequence_class_variants", len(extra))
        values = list(values) + extra
    aliaser = rng.choice(["identity", "identity", "camel"])
    from vf.spec import ALIASERS
    common = dict(additional_properties=rng.random() < 0.3, exclude_none=rng.random() < 0.3, exclude_defaults=rng.random() < 0.3)
    if aliaser != "identity":
        common["aliaser"] = ALIASERS[aliaser]
    harness.reset_all()

    def compile_(**kw):
        o = harness.call(serialization_method, T, **common, **kw)
        return o

    base = compile_(no_copy=True)
    if base.kind != "ok":
        env.violation({"kind": "compile", "side": "serialize", "exc": base.exc or "ValidationError", "site": base.site}, {"program": prog.source, "options": repr(common), "outcome": base.brief()})
        return
    variants = {"no_copy": compile_(no_copy=False), "check_type": compile_(no_copy=True, check_type=True), "check_type+no_copy": compile_(no_copy=False, check_type=True)}
    for name, o in variants.items():
        if o.kind != "ok":
            env.violation({"kind": "compile", "side": "serialize", "variant": name, "exc": o.exc or "ValidationError", "site": o.site}, {"program": prog.source, "outcome": o.brief()})
            return
    flagsets = [dict(zip(PT_FLAGS, bits)) for bits in itertools.product([False, True], repeat=5)]
    chosen = flagsets if not env.quick() else [flagsets[0], flagsets[-1]] + rng.sample(flagsets[1:-1], 6)
    ser_def_kw = {k: v for k, v in common.items()}
    default = serialization_default(**ser_def_kw)
    check_alias = not has_any(t)
    ambiguous = ambiguous_union(t)
    if ambiguous:
        env.count("abstain:serialization side on class-ambiguous union")
        return
    wit0 = {"program": prog.source, "label": label, "options": {k: (v if k != "aliaser" else aliaser) for k, v in common.items()}}

    def complete(x, depth=0):
        """what a JSON encoder with default=serialization_default (and non-str key support, as orjson has) would emit"""
        import enum
        if depth > 80:
            raise ValueError("too deep")
        if isinstance(x, enum.Enum):
            return complete(default(x), depth + 1)
        if x is None or isinstance(x, (bool, int, float, str)):
            return x
        if isinstance(x, dict):
            return {(k if isinstance(k, str) and not isinstance(k, enum.Enum) else complete(k, depth + 1)): complete(v, depth + 1) for k, v in x.items()}
        if isinstance(x, (list, tuple)):
            return [complete(e, depth + 1) for e in x]
        return complete(default(x), depth + 1)

    def norm(o, completed=False):
        if o.kind != "ok":
            return (o.kind, o.exc)
        try:
            return ("ok", json.dumps(complete(o.value) if completed else o.value, sort_keys=True))
        except Exception as e:
            return ("not-json", type(e).__name__)

    for v in values:
        fp = fingerprint(v) if isinstance(v, (list, dict)) else None
        r0 = harness.call(base.value, v)
        env.case(sig, "ser", harness.safe_repr(v)[:200], nontrivial=True)
        n0 = norm(r0)
        wit = {**wit0, "value": harness.safe_repr(v)[:400], "base": r0.brief()}
        if r0.kind != "ok":
            env.violation({"kind": "serialize-exception", "exc": r0.exc or "ValidationError", "site": r0.site}, wit)
            continue
        for name, o in variants.items():
            if ambiguous:
                env.count("abstain:serialization pair on class-ambiguous union")
                continue
            r = harness.call(o.value, v)
            env.count("ser_pairs")
            env.count("ser_no_copy_pairs" if "no_copy" in name else "ser_check_type_pairs")
            if norm(r) != n0:
                env.violation({"kind": "result-depends-on-option", "side": "serialize", "option": name, "variant": r.kind, "exc": r.exc}, {**wit, "variant": r.brief()})
            elif name == "no_copy" and r.kind == "ok" and container_classes(r.value) != container_classes(r0.value):
                # same JSON text, but another container class (a tuple / set kept as is with no_copy=True): the results differ
                env.violation({"kind": "result-depends-on-option", "side": "serialize", "option": name, "difference": "container-class"}, {**wit, "variant": r.brief()})
        if rng.random() < 0.3:
            rf = harness.call(serialize, T, v, **common, no_copy=True)
            if norm(rf) != n0:
                env.violation({"kind": "function-differs-from-method", "side": "serialize"}, {**wit, "function": rf.brief()})
        if check_alias:
            r = harness.call(variants["no_copy"].value, v)
            if r.kind == "ok":
                env.count("ser_alias_walks")
                a, b = set(), set()
                mutable_ids(v, a)
                mutable_ids(r.value, b)
                if a & b:
                    env.violation({"kind": "result-shares-container-with-input", "side": "serialize"}, {**wit, "result": r.brief()})
        if fp is not None and fingerprint(v) != fp:
            env.violation({"kind": "input-mutated", "side": "serialize"}, wit)
        n0c = norm(r0, completed=True)
        if ambiguous:
            env.count("abstain:pass_through on class-ambiguous union")
            continue
        for flags in chosen:
            types = rng.choice([(), (), (int,), (str, float)])
            try:
                pto = PassThroughOptions(**flags, types=types)
            except Exception as e:
                env.violation({"kind": "pass-through-options-exception", "exc": type(e).__name__}, wit)
                continue
            o = harness.call(serialization_method, T, **common, pass_through=pto)
            env.count("ser_pass_through_pairs")
            fl = sorted(k for k, x in flags.items() if x)
            if o.kind != "ok":
                env.violation({"kind": "compile", "side": "serialize", "variant": "pass_through", "exc": o.exc or "ValidationError", "site": o.site}, {**wit, "flags": flags, "outcome": o.brief()})
                continue
            r = harness.call(o.value, v)
            if norm(r, completed=True) != n0c:
                feats = {"kind": "pass-through-changes-result", "side": "serialize", "variant": r.kind, "exc": r.exc, "site": r.site}
                if r.kind == "exc" and flags["dataclasses"] and any(isinstance(n, ObjectT) and any(f.flatten for f in n.fields) for n in t.walk()):
                    # explanatory defect model F23: a flattened dataclass field whose class is left as is by dataclasses=True
                    feats = {"kind": "pass-through-changes-result", "side": "serialize", "variant": "exc", "exc": r.exc, "cause": "flattened-field+dataclasses-passthrough"}
                env.violation(feats, {**wit, "flags": flags, "types": repr(types), "variant": r.brief(), "completed": norm(r, True)[1][:300], "expected": n0c[1][:300]})


CTOR_SRC = """
import dataclasses
from dataclasses import dataclass, field, InitVar
from typing import List, Optional


@dataclass
class Plain:
    a: int
    b: str = "d"


@dataclass(init=False)
class OwnInit:  # hand-written constructor with the very signature dataclass would have generated
    a: int
    b: str = "d"

    def __init__(self, a, b="d"):
        self.a = a * 2
        self.b = b.strip()


class SubInit(Plain):  # plain subclass overriding the constructor, same signature
    def __init__(self, a, b="d"):
        super().__init__(a + 1, b.upper())


@dataclass
class PostBase:
    a: int
    b: str = "d"

    def __post_init__(self):
        self.b = self.b.lower()


@dataclass
class PostInherited(PostBase):  # __post_init__ only inherited
    pass


class PostMixin:
    def __post_init__(self):
        self.total = self.a + len(self.b)


@dataclass
class PostFromMixin(PostMixin):
    a: int
    b: str = "d"


@dataclass
class OwnNew:
    a: int
    b: str = "d"

    def __new__(cls, *args, **kwargs):
        self = super().__new__(cls)
        self.made_by_new = True
        return self


@dataclass
class OwnSetattr:
    a: int
    b: str = "d"

    def __setattr__(self, name, value):
        object.__setattr__(self, name, value * 2 if name == "a" else value)


@dataclass(frozen=True)
class Frozen:
    a: int
    b: str = "d"


@dataclass
class Slotted:
    __slots__ = ("a", "b")
    a: int
    b: str


@dataclass
class InheritedInit(Plain):  # adds nothing: inherits the generated constructor through a regenerated one
    pass


@dataclass(init=False)
class NoInitInherited(Plain):  # init=False without own constructor: Plain's generated one is inherited
    pass


@dataclass
class KwOnlyInit:
    a: int
    b: str = field(default="d", kw_only=True)


@dataclass
class DefaultFactory:
    a: int
    b: List[int] = field(default_factory=lambda: [7])


@dataclass
class Holder:
    own: OwnInit
    subs: List[SubInit]
    post: Optional[PostInherited] = None
"""


def constructor_workload(env):
    """every way a dataclass can be given a construction that differs from assigning the deserialized fields: the result of
    deserialize must not depend on settings.deserialization.override_dataclass_constructors"""
    import sys
    import types
    from typing import List
    from apischema import deserialize, deserialization_method, settings

    mod = types.ModuleType(f"vfc08ctor_{env.shard}")
    sys.modules[mod.__name__] = mod
    try:
        exec(compile(CTOR_SRC, f"<{mod.__name__}>", "exec"), mod.__dict__)
        names = ["Plain", "OwnInit", "SubInit", "PostInherited", "PostFromMixin", "OwnNew", "OwnSetattr", "Frozen", "Slotted", "InheritedInit", "NoInitInherited",
                 "KwOnlyInit", "DefaultFactory", "Holder"]
        data = [{"a": 3, "b": " Xy "}, {"a": 3}, {"a": "bad"}, {}, {"a": 1, "b": "q", "extra": 0}]
        hdata = [{"own": {"a": 1, "b": " Z "}, "subs": [{"a": 1}, {"a": 2, "b": "q"}], "post": {"a": 1, "b": "QQ"}}, {"own": {"a": 1}, "subs": []}, {"own": {}, "subs": [{"a": "bad"}]}]

        def state(v, depth=0):
            if isinstance(v, list):
                return [state(e, depth + 1) for e in v]
            if dataclasses_is(v) and depth < 5:
                d = {k: state(getattr(v, k, "<unset>"), depth + 1) for k in sorted(set(getattr(v, "__dict__", {})) | {f for f in getattr(type(v), "__dataclass_fields__", {})})}
                return [type(v).__name__, d]
            return repr(v)

        def dataclasses_is(v):
            import dataclasses
            return dataclasses.is_dataclass(v) and not isinstance(v, type)

        for name in names:
            cls = getattr(mod, name)
            for wrap, T, mk in (("bare", cls, lambda d: d), ("list", List[cls], lambda d: [d, d])):
                for d0 in (hdata if name == "Holder" else data):
                    d = mk(d0)
                    outs = {}
                    for override in (False, True):
                        for how in ("function", "method"):
                            harness.reset_all()
                            settings.deserialization.override_dataclass_constructors = override
                            try:
                                if how == "function":
                                    r = harness.call(deserialize, T, json.loads(json.dumps(d)))
                                else:
                                    m = harness.call(deserialization_method, T)
                                    r = harness.call(m.value, json.loads(json.dumps(d))) if m.kind == "ok" else m
                            finally:
                                settings.deserialization.override_dataclass_constructors = False
                            outs[(override, how)] = (r.kind, state(r.value) if r.kind == "ok" else r.brief())
                    env.count("constructor_shape_cases")
                    env.case("constructor-shape", name, wrap)
                    ref = outs[(False, "function")]
                    for (override, how), o in outs.items():
                        if o != ref:
                            env.violation({"kind": "result-depends-on-option", "option": "override_dataclass_constructors" if override else "precomputed-method", "family": "constructor-shapes",
                                           "shape": name}, {"program": CTOR_SRC, "type": f"{wrap}[{name}]", "datum": d, "reference": ref, "variant": o, "how": how})
                            break
    finally:
        sys.modules.pop(mod.__name__, None)
        harness.reset_all()


def run(env):
    from vf import disc
    if env.shard == 0:
        constructor_workload(env)
    disc.run_family(env, disc.check_purity, env.n(96, 3000))  # discriminated-union families first (their own budget)
    harness.tag_errors(False)
    rng = env.rng
    for i, (label, build) in enumerate(gen_types.directed_shapes()):
        if i % env.nshards != env.shard:
            continue
        prog = Program(build(gen_types.Gen(rng, max_depth=2)))
        try:
            prog.load()
        except Exception:
            env.count("program_load_failed")
            continue
        try:
            values = check_deser(env, prog, "directed:" + label, ndata=20)
            if values:
                check_ser(env, prog, values, "directed:" + label)
            env.count("directed_shape_programs")
        finally:
            prog.unload()
    n = env.n(2600, 60000)
    small = [b for _, b in gen_types.enumerate_small(depth2=False)]
    for j in range(n):
        if env.out_of_time():
            env.notes.append("time cap reached")
            break
        g = gen_types.Gen(rng, max_depth=rng.choice([2, 3, 4]))
        k = rng.random()
        if k < 0.2:
            t = rng.choice(small)(g)
            if t is None:
                continue
        elif k < 0.45:
            g.feats = {"alias", "field_cons"}
            t = g.object(0, kind="dataclass")  # raw dataclasses: FieldsConstructor / SimpleObjectMethod candidates
        elif k < 0.7:
            t = g.type(0)
        else:
            t = g.object(0)
        prog = Program(t)
        try:
            prog.load()
        except Exception:
            env.count("program_load_failed")
            continue
        try:
            values = check_deser(env, prog, f"random#{env.shard}.{j}", ndata=20)
            if values:
                check_ser(env, prog, values, f"random#{env.shard}.{j}")
            env.count("programs")
            if len(env.samples) < 3 and rng.random() < 0.03:
                env.sample({"type": t.ann(), "sig": t.sig()})
        finally:
            prog.unload()


def finish_coverage(cov, counters, tier):
    cov["exhaustive"] = False


def replay(env, rep):
    from vf.replay import generic
    generic(env, rep)
