"""Runtime support imported by the programs generated for C12 (conversions compose).

Opaque classes are *plain* classes (no dataclass, no annotations) so that apischema does not
support them without a conversion.  Every converter of the workload is a pure function built
from `mk` / `unmk`: a deserializer wraps its argument into the opaque class and stamps the
*tag* of the conversion that was applied; a serializer unwraps and checks the stamp, so the
monitors can observe which conversion was used at which position.
"""
import collections
import re
import zlib


class OpBase:
    """opaque payload carrier: v = converted source value, tag = which converter built it"""
    _vf_opaque = True
    __hash__ = None  # holes are never generated under sets / as mapping keys

    def __init__(self, v, tag="?"):
        self.v = v
        self.tag = tag

    def __eq__(self, other):
        return type(other) is type(self) and other.tag == self.tag and other.v == self.v

    def __repr__(self):
        return f"{type(self).__name__}<{self.tag}>({self.v!r})"


class WrongRole(Exception):
    """a serializer was applied to a value built by another conversion (tag mismatch)"""


_SUFFIX = re.compile(r"__s\d*$")


def cname(cls):
    if getattr(cls, "_vf_ml", False):
        return "list"
    return _SUFFIX.sub("", cls.__name__)


def canon12(v, depth=0):
    """Canonical typed image (like vf.spec.canon) that also knows opaque instances:
    (class, ('opq', tag, image-of-payload)).  Reference classes `X__s<k>` are imaged as `X`,
    collection subclasses with a registered conversion (`_vf_ml`) as `list`."""
    import dataclasses
    import enum

    if depth > 200:
        raise RecursionError("canon12: too deep")
    t = type(v)
    if v is None:
        return ("NoneType", None)
    if isinstance(v, OpBase):
        return (cname(t), ("opq", v.tag, canon12(v.v, depth + 1)))
    if isinstance(v, enum.Enum):
        return (t.__name__, ("member", v.name))
    if t is float:
        return ("float", "nan" if v != v else v)
    if t in (bool, int, str, bytes):
        return (t.__name__, v)
    if isinstance(v, (bool, int, float, str)):
        return (t.__name__, v)
    if hasattr(v, "_fields") and isinstance(v, tuple):
        return (cname(t), tuple(sorted((n, canon12(getattr(v, n), depth + 1)) for n in v._fields)))
    if isinstance(v, (list, tuple)) or t is collections.deque:
        return (cname(t), tuple(canon12(e, depth + 1) for e in v))
    if isinstance(v, (set, frozenset)):
        return (t.__name__, frozenset(canon12(e, depth + 1) for e in v))
    if isinstance(v, dict):
        return (t.__name__, tuple(sorted(((canon12(k, depth + 1), canon12(x, depth + 1)) for k, x in v.items()), key=repr)))
    if dataclasses.is_dataclass(v):
        return (cname(t), tuple(sorted((f.name, canon12(getattr(v, f.name, ("<unset>",)), depth + 1)) for f in dataclasses.fields(v))))
    return (t.__name__, ("repr", repr(v)))


def erase_img(c):
    """image with every opaque wrapper removed (payload image in its place)"""
    if isinstance(c, tuple):
        if len(c) == 2 and isinstance(c[1], tuple) and len(c[1]) == 3 and c[1][0] == "opq":
            return erase_img(c[1][2])
        return tuple(erase_img(x) for x in c)
    if isinstance(c, frozenset):
        return frozenset(erase_img(x) for x in c)
    return c


def trig(s, salt=""):
    """deterministic pure predicate on a (possibly opaque-carrying) value: ~1/3 of the values"""
    return zlib.crc32((salt + repr(erase_img(canon12(s)))).encode("utf-8", "backslashreplace")) % 3 == 0


def mk(cls, tag, s, mode=None):
    """deserializer body.  mode: None | 'verr' | 'value' (raises on trig(s))"""
    if mode is not None and trig(s):
        if mode == "verr":
            from apischema import ValidationError

            raise ValidationError(f"conv-rejects:{tag}")
        raise ValueError(f"conv-value-error:{tag}")
    return cls(s, tag)


def unmk(o, tags):
    """serializer body: payload of o, provided o was built by one of the expected converters"""
    if o.tag not in tags:
        raise WrongRole(f"serializer of {tags} applied to a value tagged {o.tag}")
    return o.v


def unmk_ml(o, tags):
    if getattr(o, "tag", None) not in tags:
        raise WrongRole(f"serializer of {tags} applied to a value tagged {getattr(o, 'tag', None)}")
    return o


def untyped(f):
    """same function without annotations (source/target then come from the Conversion object)"""
    def conv(x):
        return f(x)

    conv.__name__ = getattr(f, "__name__", "conv") + "_untyped"
    return conv


def contains_opaque(v, depth=0):
    import dataclasses

    if depth > 60:
        return False
    if isinstance(v, OpBase):
        return True
    if isinstance(v, (list, tuple, set, frozenset)):
        return any(contains_opaque(e, depth + 1) for e in v)
    if isinstance(v, dict):
        return any(contains_opaque(e, depth + 1) for e in v.values())
    if dataclasses.is_dataclass(v) and not isinstance(v, type):
        return any(contains_opaque(getattr(v, f.name, None), depth + 1) for f in dataclasses.fields(v))
    return False
