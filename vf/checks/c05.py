"""C05 — round trip: deserialize after serialize is the identity on values (bijective fragment), also through json,
and dually serialize(deserialize(d)) is d completed with defaults and re-deserializes to an equal value."""
import copy
import json

from vf import gen_data, gen_types, harness
from vf.checks.c08 import ambiguous_union
from vf.spec import ALIASERS, AnyT, Coll, ObjectT, Program, Unspecified, canon

PROP = "C05"
SHARDS = {"quick": 8, "thorough": 16}
TIME_CAP = {"quick": 70, "thorough": 900}
REQUIRED = ["as_names_round_trips", "std_constructed_round_trips", "value_round_trips_default_no_copy", "value_round_trips", "json_round_trips", "dual_round_trips", "fixpoint_checks", "completion_checks", "programs", "std_programs", "aliaser_programs",
            "fields_set_programs", "discriminated_round_trips", "discriminated_families", "discriminated_roundtrips", "discriminated_class_checks"]
RULE = ("bijective fragment of the C01 program space (no one-way conversion, serialized method, asymmetric skip, init=False / InitVar field, class-ambiguous union; exclude_* off) "
        "+ standard-library converted types (UUID, date/datetime/time, Decimal, bytes, Path, ip addresses, Pattern) + discriminated unions; values = images of model-valid data; "
        "aliaser in {identity, camelCase, custom} on both sides, additional_properties. A case = (type signature, options, datum); distinct by hash; non-trivial when the datum is a container."
        ' Plus discriminated-union families (vf/disc.py): class selected by the tag, deserialize(serialize(v)) == v.')
ASSUMPTIONS = ["values are drawn from the image of deserialize (canonical runtime classes)", "equality = canonical typed image (runtime classes at every node, NaN-aware)",
               "dual direction compared on data without duplicate items at set-typed positions; integers given for floats compare numerically"]

FEATS = {"flatten", "pattern", "additional", "class_aliaser", "frozen", "alias", "alias_no_override", "field_cons", "required_md", "undefined",
         "none_as_undefined", "fbod", "fields_set"}


def loose_json(x):
    """JSON value with ints given for floats normalised (numeric comparison), order of dict keys irrelevant"""
    if type(x) is bool or x is None or type(x) is str:
        return x
    if isinstance(x, (int, float)):
        return ("num", float(x)) if abs(x) < 2**1000 else ("num", x)
    if type(x) is list:
        return [loose_json(e) for e in x]
    if type(x) is dict:
        return {k: loose_json(v) for k, v in x.items()}
    return x


def subsumes(s, d):
    """every key / item of d is in s with an equal value; s may carry more keys (defaults)"""
    if type(d) is dict:
        return type(s) is dict and all(k in s and subsumes(s[k], v) for k, v in d.items())
    if type(d) is list:
        return type(s) is list and len(s) == len(d) and all(subsumes(a, b) for a, b in zip(s, d))
    return loose_json(s) == loose_json(d)


def has_dups(d):
    from vf.checks.c06 import has_duplicates, has_py_duplicates
    return has_duplicates(d) or has_py_duplicates(d) or has_py_duplicates(d, unordered=True)


def check_program(env, prog, label, ndata, std):
    from apischema import deserialization_method, serialization_method

    rng = env.rng
    t, T = prog.t, prog.T
    sig = t.sig()
    aliaser = rng.choice(["identity", "identity", "camel", "custom"])
    ap = rng.random() < 0.3
    harness.reset_all()
    cx = prog.ctx(additional_properties=ap, aliaser=aliaser)
    kw = {"additional_properties": ap}
    if aliaser != "identity":
        kw["aliaser"] = ALIASERS[aliaser]
        env.count("aliaser_programs")
    od = harness.call(deserialization_method, T, no_copy=False, **kw)
    osr = harness.call(serialization_method, T, exclude_unset=True, **kw)
    if od.kind != "ok" or osr.kind != "ok":
        bad = od if od.kind != "ok" else osr
        env.violation({"kind": "compile", "exc": bad.exc or "ValidationError", "site": bad.site}, {"program": prog.source, "outcome": bad.brief()})
        return
    deser, ser = od.value, osr.value
    od2 = harness.call(deserialization_method, T, **kw)  # the default (no_copy=True) compilation: other method classes
    deser_default = od2.value if od2.kind == "ok" else None
    if std:
        env.count("std_programs")
    has_fs = any(isinstance(n, ObjectT) and n.fields_set for n in t.walk())
    if has_fs:
        env.count("fields_set_programs")
    has_sets = any(isinstance(n, Coll) and n.c in ("set", "absset", "mutset", "frozenset") for n in t.walk())
    valid = gen_data.valid_data(t, cx, rng, ndata)
    wit0 = {"program": prog.source, "label": label, "options": {"aliaser": aliaser, "additional_properties": ap}}
    for d in valid:
        if has_sets and has_dups(d):
            env.count("outside-fragment:duplicate items at a set-typed position")
            continue
        r = harness.call(deser, d)
        if r.kind != "ok":
            continue  # acceptance of model-valid data is C01's
        v = r.value
        try:
            cv = canon(v)
        except Unspecified:
            continue
        env.case(sig, aliaser, ap, repr(d), nontrivial=isinstance(d, (list, dict)))
        s = harness.call(ser, v)
        wit = {**wit0, "datum": d, "value": harness.safe_repr(v)[:400], "serialized": s.brief()}
        if s.kind != "ok":
            env.violation({"kind": "serialize-exception", "exc": s.exc or "ValidationError", "site": s.site}, wit)
            continue
        # ---- value round trip
        back = harness.call(deser, s.value)
        env.count("value_round_trips")
        if back.kind != "ok":
            env.violation({"kind": "serialized-value-rejected", "errs": sorted({harness.err_kind(e["err"]) for e in back.errors})[:3] if back.kind == "verr" else [back.exc]}, {**wit, "back": back.brief()})
            continue
        try:
            cb = canon(back.value)
        except Unspecified:
            continue
        if cb != cv:
            env.violation({"kind": "round-trip-differs"}, {**wit, "back": back.brief(), "expected_image": repr(cv)[:400], "observed_image": repr(cb)[:400]})
            continue
        if deser_default is not None:
            # the value was drawn through the copying compilation; it must also come back through the default one
            back2 = harness.call(deser_default, copy.deepcopy(s.value))
            env.count("value_round_trips_default_no_copy")
            try:
                ok2 = back2.kind == "ok" and canon(back2.value) == cv
            except Unspecified:
                ok2 = True
            if not ok2:
                env.violation({"kind": "round-trip-differs", "deserialization": "default no_copy"}, {**wit, "back": back2.brief(), "expected_image": repr(cv)[:400]})
                continue
        # ---- through json
        try:
            text = json.dumps(s.value)
        except Exception as e:
            env.violation({"kind": "serialized-not-json", "exc": type(e).__name__}, wit)
            continue
        bj = harness.call(deser, json.loads(text))
        env.count("json_round_trips")
        nan = "NaN" in text or "Infinity" in text
        if bj.kind != "ok" or (canon(bj.value) != cv and not nan):
            env.violation({"kind": "json-round-trip-differs"}, {**wit, "json": text[:400], "back": bj.brief()})
            continue
        # ---- dual direction: s = serialize(deserialize(d)) is d completed with defaults, a fixpoint
        env.count("dual_round_trips")
        s2 = harness.call(ser, back.value)
        env.count("fixpoint_checks")
        if s2.kind != "ok" or json.dumps(s2.value, sort_keys=True) != json.dumps(s.value, sort_keys=True):
            if not has_sets:
                env.violation({"kind": "not-a-fixpoint"}, {**wit, "second": s2.brief()})
                continue
        if not (has_sets and has_dups(d)):
            env.count("completion_checks")
            d_cmp, s_cmp = d, s.value
            if has_sets:
                continue  # order of set items is not fixed
            if not subsumes(s_cmp, d_cmp):
                env.violation({"kind": "serialized-loses-input", "fields_set": has_fs}, {**wit})
    env.count("programs")


DISC = """
@discriminator("kind")
class Base{n}:
    pass

@dataclass
class A{n}(Base{n}):
    x: int
    y: List[str] = field(default_factory=list)

@dataclass
class B{n}(Base{n}):
    z: Optional[float] = None

@dataclass
class C{n}:
    kind: Literal["c", "cc"]
    w: str = "w"

@dataclass
class E{n}:
    v: int = 0

T1 = Base{n}
T2 = List[Union[A{n}, B{n}]]
T3 = Annotated[Union[C{n}, E{n}], discriminator("kind", {{"e": E{n}}})]
T4 = Dict[str, T3]
"""


def check_discriminated(env, n):
    from apischema import deserialize, serialize
    from vf.spec import PRELUDE
    import sys, types

    name = f"vfdisc5_{env.shard}_{n}"
    mod = types.ModuleType(name)
    sys.modules[name] = mod
    harness.reset_all()
    rng = env.rng
    try:
        exec(compile(PRELUDE + DISC.format(n=n), f"<{name}>", "exec"), mod.__dict__)
        A, B, C, E = (getattr(mod, f"{c}{n}") for c in "ABCE")
        vals = [(mod.T1, A(rng.randint(0, 9), ["a"] * rng.randint(0, 2))), (mod.T1, B(rng.choice([None, 1.5]))), (mod.T2, [A(1), B(), A(2, ["q"])]),
                (mod.T3, C("c", "ww")), (mod.T3, C("cc", "x")), (mod.T3, E(4)), (mod.T4, {"k": C("cc"), "l": E()})]
        for T, v in vals:
            s = harness.call(serialize, T, v)
            env.count("discriminated_round_trips")
            env.case("disc", repr(v))
            wit = {"program": DISC.format(n=n), "value": repr(v), "serialized": s.brief()}
            if s.kind != "ok":
                env.violation({"kind": "serialize-exception", "family": "discriminated", "exc": s.exc, "site": s.site}, wit)
                continue
            back = harness.call(deserialize, T, json.loads(json.dumps(s.value)))
            if back.kind != "ok" or canon(back.value) != canon(v):
                env.violation({"kind": "round-trip-differs", "family": "discriminated"}, {**wit, "back": back.brief()})
    finally:
        sys.modules.pop(name, None)


def bijective(t):
    for n in t.walk():
        if isinstance(n, ObjectT):
            if n.methods:
                return False
            for f in n.fields:
                if f.init_false or f.initvar or f.skip_deser != f.skip_ser or f.ser_if or f.ser_default:
                    return False
                if f.has_default and (f.cons or has_constraint(f.t)):
                    return False  # a default that may violate the field's own constraints is not a value of the type
        if isinstance(n, AnyT):
            pass
    from vf.spec import Ann
    if any((isinstance(n, Ann) and n.cons.get("unique")) or (isinstance(n, ObjectT) and any((f.cons or {}).get("unique") for f in n.fields)) for n in t.walk()):
        return False  # uniqueness is evaluated on the raw items, which completion with defaults may merge
    from vf.checks.c07 import props_constraint_on_object
    if props_constraint_on_object(t):
        return False  # property counts are evaluated on the input keys, which completion with defaults changes
    return not ambiguous_union(t) and not json_ambiguous(t)


def has_constraint(t):
    from vf.spec import Ann
    return any(isinstance(n, Ann) for n in t.walk())


def json_ambiguous(t):
    """unions whose alternatives have overlapping JSON images (not injective): str vs str-Enum/Literal, int vs IntEnum, two objects, two arrays, ..."""
    from vf.spec import EnumT, Lit, MapT, Prim, Std, SubPrim, Tup, Union_, flat_alts, strip

    def jfam(a):
        a = strip(a)
        if isinstance(a, Prim):
            return {"none": {"null"}, "bool": {"bool"}, "int": {"int"}, "float": {"int", "float"}, "str": {"str"}}[a.p]
        if isinstance(a, SubPrim):
            return {"str": {"str"}, "int": {"int"}, "float": {"int", "float"}}[a.base]
        if isinstance(a, (Lit,)):
            return {("str" if type(v) is str else "bool" if type(v) is bool else "int") for v in a.vals}
        if isinstance(a, EnumT):
            return {("str" if type(v) is str else "int") for _, v in a.members}
        if isinstance(a, (Coll, Tup)):
            return {"array"}
        if isinstance(a, (MapT, ObjectT)):
            return {"object"}
        if isinstance(a, Std):
            return {"str"} if a.s != "decimal" else {"int", "float"}
        return {"any"}

    for n in t.walk():
        if isinstance(n, Union_):
            fams = [jfam(a) for a in flat_alts(n)]
            for i in range(len(fams)):
                for j in range(i + 1, len(fams)):
                    if "any" in fams[i] or "any" in fams[j] or fams[i] & fams[j]:
                        return True
    return False


def check_std_constructed(env):
    """values of the standard-library types built directly (not through deserialize): deserialize(serialize(v)) == v"""
    import datetime as dt
    import decimal
    import ipaddress
    import pathlib
    import uuid
    from collections import deque
    from typing import Deque, Dict, List, Optional
    from apischema import deserialize, serialize

    D = decimal.Decimal
    values = {
        decimal.Decimal: [D(0.1), D(2 ** 63), D(2 ** 70), D(-(2 ** 64)), D(1) / D(2 ** 30), D(1.5), D(0), D(-0.25), D(1e-07), D(123456789.125),
                          # decimals that are not the exact expansion of any float (the JSON image of Decimal is a number read as float)
                          D("0.1"), D("1e-30"), D("123456789012345678901234567890.5"), D("2.675")],
        uuid.UUID: [uuid.UUID(int=0), uuid.UUID("12345678-1234-5678-1234-567812345678")],
        dt.date: [dt.date(2020, 1, 31), dt.date(1, 1, 1), dt.date(9999, 12, 31)],
        dt.datetime: [dt.datetime(2020, 1, 31, 12, 30), dt.datetime(2020, 1, 31, 12, 30, 0, 123), dt.datetime(2021, 6, 30, 23, 59, 59, tzinfo=dt.timezone(dt.timedelta(hours=5, minutes=30))),
                      dt.datetime(1999, 12, 1, tzinfo=dt.timezone.utc)],
        dt.time: [dt.time(12, 30), dt.time(0, 0, 1), dt.time(23, 59, 59, 500)],
        bytes: [b"", b"abc", b"\xfb\xff", b"\x00" * 5, bytes(range(256))],
        pathlib.Path: [pathlib.Path("/tmp/x"), pathlib.Path("a/b"), pathlib.Path(".")],
        ipaddress.IPv4Address: [ipaddress.IPv4Address("127.0.0.1"), ipaddress.IPv4Address("255.255.255.255")],
        ipaddress.IPv6Address: [ipaddress.IPv6Address("::1"), ipaddress.IPv6Address("fe80::1")],
    }
    harness.reset_all()
    for cls, vs in values.items():
        for wrap_name, T, mk, un in (("bare", cls, lambda v: v, lambda r: r), ("list", List[cls], lambda v: [v, v], lambda r: r[0]), ("optional", Optional[cls], lambda v: v, lambda r: r),
                                     ("dict", Dict[str, cls], lambda v: {"k": v}, lambda r: r["k"]), ("deque", Deque[cls], lambda v: deque([v]), lambda r: r[0])):
            for v in vs:
                s = harness.call(serialize, T, mk(v))
                env.count("std_constructed_round_trips")
                env.case("std-constructed", cls.__name__, wrap_name, repr(v))
                wit = {"type": f"{wrap_name}[{cls.__name__}]", "value": repr(v), "serialized": s.brief()}
                if s.kind != "ok":
                    env.violation({"kind": "serialize-exception", "family": "std-constructed", "exc": s.exc or "ValidationError"}, wit)
                    continue
                try:
                    text = json.dumps(s.value)
                except Exception as e:
                    env.violation({"kind": "serialized-not-json", "family": "std-constructed", "exc": type(e).__name__}, wit)
                    continue
                back = harness.call(deserialize, T, json.loads(text))
                if back.kind != "ok" or un(back.value) != v or type(un(back.value)) is not type(v) or (cls is decimal.Decimal and repr(un(back.value)) != repr(v)):
                    feats = {"kind": "round-trip-differs", "family": "std-constructed", "cls": cls.__name__}
                    if cls is decimal.Decimal:
                        feats["float_exact"] = D(float(v)) == v
                    env.violation(feats, {**wit, "back": back.brief()})


def check_as_names(env):
    """enums (de)serialized by member name through apischema.conversions.as_names, under an identity and a renaming aliaser"""
    import enum
    from typing import Dict, List, Optional
    from apischema import deserialize, serialize
    from apischema.conversions import as_names, reset_deserializers, reset_serializer
    from apischema.utils import to_camel_case

    for label, al in (("identity", None), ("camelCase", to_camel_case), ("upper", str.upper)):
        E = enum.Enum("VfNamed", {"my_value": 1, "other": 2, "x_y_z": "s"})
        harness.reset_all()
        try:
            as_names(E, al) if al else as_names(E)
            for wrap_name, T, mk, un in (("bare", E, lambda v: v, lambda r: r), ("list", List[E], lambda v: [v], lambda r: r[0]), ("optional", Optional[E], lambda v: v, lambda r: r),
                                         ("dict", Dict[str, E], lambda v: {"k": v}, lambda r: r["k"])):
                for m in E:
                    env.count("as_names_round_trips")
                    env.case("as_names", label, wrap_name, m.name)
                    s = harness.call(serialize, T, mk(m))
                    wit = {"enum": "Enum('VfNamed', {'my_value': 1, 'other': 2, 'x_y_z': 's'})", "aliaser": label, "type": wrap_name, "member": m.name, "serialized": s.brief()}
                    if s.kind != "ok":
                        env.violation({"kind": "serialize-exception", "family": "as_names", "exc": s.exc or "ValidationError"}, wit)
                        continue
                    back = harness.call(deserialize, T, json.loads(json.dumps(s.value)))
                    if back.kind != "ok" or un(back.value) is not m:
                        env.violation({"kind": "round-trip-differs", "family": "as_names", "aliaser": "identity" if al is None else "renaming", "exc": back.exc}, {**wit, "back": back.brief()})
        finally:
            reset_deserializers(E)
            reset_serializer(E)
    harness.reset_all()


def run(env):
    harness.tag_errors(True)
    if env.shard == 0:
        check_std_constructed(env)
        check_as_names(env)
    from vf import disc
    disc.run_family(env, disc.check_c05, env.n(96, 4000))  # discriminated-union families first (their own budget)
    rng = env.rng
    n = env.n(12000, 200000)
    small = [b for _, b in gen_types.enumerate_small(depth2=False)]
    for j in range(n):
        if env.out_of_time():
            env.notes.append("time cap reached")
            break
        std = rng.random() < 0.35
        g = gen_types.Gen(rng, max_depth=rng.choice([2, 3, 4]), std=std, feats=FEATS)
        k = rng.random()
        if k < 0.15:
            t = rng.choice(small)(g)
            if t is None:
                continue
        elif k < 0.5:
            t = g.type(0)
        else:
            t = g.object(0)
        if not bijective(t):
            env.count("outside-fragment")
            continue
        prog = Program(t)
        try:
            prog.load()
        except Exception:
            env.count("program_load_failed")
            continue
        try:
            check_program(env, prog, f"random#{env.shard}.{j}", ndata=6, std=std and "std:" in t.sig())
            if len(env.samples) < 3 and rng.random() < 0.03:
                env.sample({"type": t.ann(), "sig": t.sig()})
        finally:
            prog.unload()
    for j in range(env.n(40, 400)):
        check_discriminated(env, j)


def finish_coverage(cov, counters, tier):
    cov["exhaustive"] = False


def replay(env, rep):
    from vf.replay import generic
    generic(env, rep)
