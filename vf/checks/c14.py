"""C14 — coercion only widens acceptance, per the documented table.
Monitors the strict run and the coerced run of the same (T, d): monotonicity (model-free), reference model extended with the
documented coercion table, custom coercers (result still type-checked), settings.deserialization.coerce == coerce=True."""
from vf import gen_data, gen_types, harness
from vf.spec import Ok, Prim, Program, Union_, Unspecified, canon, match_img

PROP = "C14"
SHARDS = {"quick": 8, "thorough": 16}
TIME_CAP = {"quick": 70, "thorough": 900}
REQUIRED = ["custom_coercer_polite_wrong", "monotonic_checks", "strict_reject_coerced_accept", "model_agree_accept", "model_agree_reject", "custom_coercer_wrong", "custom_coercer_right", "global_setting_checks", "programs", "discriminated_families", "discriminated_monotonic_checks"]
RULE = ("C01 program space x (type-relevant atoms + numeric strings (' 12 ', '1_000', '1e3', 'nan', '1.5', '-3') + every boolean word in lower/upper/mixed "
        "case + near-misses ('maybe', '2') + '' and whitespace), also substituted at every position of model-valid data; each datum is run strict and "
        "with coerce=True. A case = (type signature, datum); non-trivial when the two runs differ or the type is not a bare primitive; distinct by hash.")
ASSUMPTIONS = ["coercion table = int()/float()/str() between str and numbers, case-insensitive boolean words, int -> bool, '' -> None (docs/de_serialization.md + statement); "
               "float -> int through int() is in the table; bool where float is expected is unspecified (abstain)",
               "with unions the coerced result may legitimately come from an earlier alternative: any accepting alternative's image is accepted"]

WORDS = ["0", "1", "f", "t", "n", "y", "no", "yes", "false", "true", "off", "on", "ko", "ok"]
COERCE_ATOMS = ([" 12 ", "1_000", "1e3", "nan", "inf", "1.5", "-3", "12", "0x10", "", " ", "maybe", "2", "None", "null", "[]", 1.0, 1.5, 0.0, 2, 10, -1]
                + WORDS + [w.upper() for w in WORDS] + [w.capitalize() for w in WORDS if len(w) > 1]
                + ["ja", "nein", "si", "oui", "non", "enable", "disable", "enabled", "disabled", "active", "yep", "nope", "nil", "none", "~", "NaN",
                   "Infinity", "-inf", "+1", "1.", ".5", "1e", "\u0661\u0662", "T", "F", "Y", "N", "-", "+", "01", "1 ", "tr", "fa", "o", "k", "-0", "0.0"])


FEATS = {"flatten", "pattern", "additional", "class_aliaser", "frozen", "dep_req", "alias", "alias_no_override", "field_cons", "required_md", "skip",
         "init_false", "initvar", "undefined", "none_as_undefined"}


def wrong_coercer(cls, data):
    return {int: "s", float: "s", str: 1, bool: "s", type(None): 0, list: {}, dict: []}[cls]


def polite_wrong_coercer(cls, data):
    """identity on data already of the expected class (as the documented coercers are), a wrong-typed -- and falsy where
    possible -- result otherwise: since results are type-checked, coercing with it must change nothing"""
    if cls is float and type(data) is int:
        return data
    if isinstance(data, cls) and not (cls in (int, float) and isinstance(data, bool)):
        return data
    return {int: "", float: "", str: 0, bool: "", type(None): 0, list: {}, dict: []}.get(cls, 0)


def right_coercer(cls, data):
    return {int: 0, float: 0.0, str: "", bool: False, type(None): None, list: [], dict: {}}[cls]


def union_free(t):
    return not any(isinstance(n, Union_) for n in t.walk())


def check_program(env, prog, label, ndata):
    from apischema import deserialization_method, settings

    rng = env.rng
    t = prog.t
    sig = t.sig()
    cxs = prog.ctx(additional_properties=rng.random() < 0.3, aliaser=rng.choice(["identity", "identity", "camel"]))
    cxc = prog.ctx(additional_properties=cxs.additional_properties, aliaser=cxs.aliaser, coerce=True)
    harness.reset_all()
    os_ = harness.call(deserialization_method, prog.T, **harness.options(cxs))
    oc = harness.call(deserialization_method, prog.T, **harness.options(cxc))
    if os_.kind != "ok" or oc.kind != "ok":
        env.violation({"kind": "compile", "exc": (oc.exc or os_.exc or "ValidationError")}, {"program": prog.source})
        return
    strict, coerced = os_.value, oc.value
    harness.tree_classes(coerced, env.counters)
    atoms = gen_data.atoms_for(t, cxs) + COERCE_ATOMS
    valid = gen_data.valid_data(t, cxs, rng, 3)
    data = list(atoms)
    for v in valid:
        data += gen_data.mutants(v, rng, atoms, max(4, ndata // 3))
    ufree = union_free(t)
    base = {"program": prog.source, "label": label, "options": {"additional_properties": cxs.additional_properties, "aliaser": cxs.aliaser}}
    for d in data:
        rs = harness.call(strict, d)
        rc = harness.call(coerced, d)
        env.case(sig, repr(d), nontrivial=(rs.kind != rc.kind) or len(sig) > 6)
        if rc.kind == "exc" or rs.kind == "exc":
            bad = rc if rc.kind == "exc" else rs
            env.violation({"kind": "exception", "exc": bad.exc, "coerce": rc.kind == "exc", "site": bad.site}, {**base, "datum": d, "observed": bad.brief()})
            continue
        # (1) monotonicity, model-free
        env.count("monotonic_checks")
        if rs.kind == "ok":
            if rc.kind != "ok":
                env.violation({"kind": "not-monotonic"}, {**base, "datum": d, "strict": rs.brief(), "coerced": rc.brief()})
                continue
            if ufree:
                try:
                    same = canon(rs.value) == canon(rc.value)
                except Unspecified:
                    same = True
                if not same:
                    env.violation({"kind": "result-changed-by-coercion"}, {**base, "datum": d, "strict": rs.brief(), "coerced": rc.brief()})
        elif rc.kind == "ok":
            env.count("strict_reject_coerced_accept")
        # (2) explanation by the documented table
        try:
            m = t.deser(d, cxc)
        except Unspecified as u:
            env.count("unspecified:" + str(u))
            continue
        except RecursionError:
            continue
        if isinstance(m, Ok):
            if rc.kind != "ok":
                env.violation({"kind": "table-accepts-code-rejects", "errs": sorted({harness.err_kind(e["err"]) for e in rc.errors})[:3]}, {**base, "datum": d, "model_image": repr(m.v)[:300], "coerced": rc.brief()})
            else:
                try:
                    c = canon(rc.value)
                except Unspecified:
                    continue
                if match_img(m.v, c):
                    env.count("model_agree_accept")
                else:
                    env.violation({"kind": "coerced-image"}, {**base, "datum": d, "model_image": repr(m.v)[:400], "observed_image": repr(c)[:400]})
        else:
            if rc.kind == "ok":
                env.violation({"kind": "accepted-outside-table", "model_errs": sorted({f"{k}@{e}" for _, k, e in m.errs})[:3]}, {**base, "datum": d, "model": repr(m.errs)[:300], "coerced": rc.brief()})
            else:
                env.count("model_agree_reject")
    # (3) custom coercers: result still type-checked; never anything but ValidationError
    for name, fn in (("wrong", wrong_coercer), ("right", right_coercer)):
        o = harness.call(deserialization_method, prog.T, coerce=fn, additional_properties=cxs.additional_properties)
        if o.kind != "ok":
            env.violation({"kind": "compile", "exc": o.exc or "ValidationError", "coercer": name}, {"program": prog.source})
            continue
        for d in data[:: max(1, len(data) // 12)]:
            r = harness.call(o.value, d)
            env.count("custom_coercer_" + name)
            if r.kind == "exc":
                env.violation({"kind": "custom-coercer-exception", "exc": r.exc, "coercer": name}, {**base, "datum": d, "observed": r.brief()})
            elif isinstance(t, Prim) and t.p != "none":
                if name == "wrong" and r.kind == "ok":
                    env.violation({"kind": "wrong-typed-coercer-result-accepted"}, {**base, "datum": d, "observed": r.brief()})
                if name == "right" and (r.kind != "ok" or canon(r.value) != canon(right_coercer({"int": int, "float": float, "str": str, "bool": bool}[t.p], None))):
                    env.violation({"kind": "right-typed-coercer-result-rejected"}, {**base, "datum": d, "observed": r.brief()})
    # (3b) a coercer whose results are wrong-typed whenever it has something to do: same verdicts and values as strict mode
    o = harness.call(deserialization_method, prog.T, coerce=polite_wrong_coercer, additional_properties=cxs.additional_properties, **({"aliaser": harness.options(cxs)["aliaser"]} if "aliaser" in harness.options(cxs) else {}))
    if o.kind == "ok":
        for d in data[:: max(1, len(data) // 24)]:
            rs, r = harness.call(strict, d), harness.call(o.value, d)
            env.count("custom_coercer_polite_wrong")
            if r.kind == "exc":
                env.violation({"kind": "custom-coercer-exception", "exc": r.exc, "coercer": "polite-wrong"}, {**base, "datum": d, "observed": r.brief()})
            elif rs.kind in ("ok", "verr") and r.kind != rs.kind:
                env.violation({"kind": "wrong-typed-coercer-result-changes-verdict", "strict": rs.kind, "coerced": r.kind}, {**base, "datum": d, "strict": rs.brief(), "with_coercer": r.brief()})
    # (4) global setting == coerce=True
    if rng.random() < 0.2:
        settings.deserialization.coerce = True
        try:
            g = harness.call(deserialization_method, prog.T, **harness.options(cxs))
            if g.kind == "ok":
                for d in data[:: max(1, len(data) // 10)]:
                    a, b = harness.call(g.value, d), harness.call(coerced, d)
                    env.count("global_setting_checks")
                    if a.kind != b.kind or (a.kind == "verr" and a.errors != b.errors) or (a.kind == "ok" and _c(a.value) != _c(b.value)):
                        env.violation({"kind": "global-setting-differs"}, {**base, "datum": d, "global": a.brief(), "argument": b.brief()})
        finally:
            settings.deserialization.coerce = False
    env.count("programs")


def _c(v):
    try:
        return canon(v)
    except Unspecified:
        return None


def table_monitor(env):
    """invariant hook: the boolean-word table the default coercer consults is exactly the documented one"""
    try:
        from apischema.deserialization import coercion
        table = coercion.STR_TO_BOOL
    except Exception:
        env.count("table_monitor_unavailable")
        return
    from vf.spec import STR_TO_BOOL as DOC
    try:
        table = dict(table)
    except Exception:
        env.count("table_monitor_unavailable")
        return
    env.count("table_monitor_evaluations")
    if table != DOC:
        diff = sorted(set(table.items()) ^ set(DOC.items()))
        env.violation({"kind": "bool-word-table-differs-from-documentation"}, {"difference": diff[:10]})
    none_vals = getattr(coercion, "STR_NONE_VALUES", None)
    if none_vals is not None and set(none_vals) != {""}:
        env.violation({"kind": "none-values-differ-from-documentation"}, {"values": sorted(map(repr, none_vals))})


def run(env):
    from vf import disc
    disc.run_family(env, disc.check_c14, env.n(96, 4000))  # discriminated-union families first (their own budget)
    harness.tag_errors(True)
    table_monitor(env)
    rng = env.rng
    n = env.n(14000, 250000)
    small = [b for _, b in gen_types.enumerate_small(depth2=False)]
    for j in range(n):
        if env.out_of_time():
            env.notes.append("time cap reached")
            break
        g = gen_types.Gen(rng, max_depth=rng.choice([1, 2, 3, 4]), feats=FEATS)  # no fall_back_on_default: it couples with coercion
        k = rng.random()
        if k < 0.3:
            t = rng.choice(small)(g)
            if t is None:
                continue
        elif k < 0.7:
            t = g.type(0)
        else:
            t = g.object(0)
        prog = Program(t)
        try:
            prog.load()
        except Exception:
            env.count("program_load_failed")
            continue
        try:
            check_program(env, prog, f"random#{env.shard}.{j}", ndata=24)
            if len(env.samples) < 3 and rng.random() < 0.03:
                env.sample({"type": t.ann(), "sig": t.sig()})
        finally:
            prog.unload()


def finish_coverage(cov, counters, tier):
    cov["exhaustive"] = False


def replay(env, rep):
    from vf.replay import generic
    generic(env, rep)
