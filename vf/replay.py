"""Generic replay of a witness written by the boundary-monitor checks: re-executes the recorded program source and
call (deserialize / serialize / *_schema) on the current tree and prints the outcome next to the recorded one.
The violation is reported again (exit 1) when the recorded observed outcome reproduces."""
import json
import sys
import types


def untag(x):
    """inverse of vf.core.jsonable for the JSON-like part of a datum"""
    if isinstance(x, list):
        return [untag(e) for e in x]
    if isinstance(x, dict):
        if "$py" in x:
            k = x["$py"]
            if k == "nan":
                return float("nan")
            if k in ("inf", "-inf"):
                return float(k)
            if k == "bigint":
                return int(x["v"], 0)
            if k == "tuple":
                return tuple(untag(e) for e in x["v"])
            if k in ("dict", "MyDict") and "items" in x:
                return {untag(a) if not isinstance(a, list) else tuple(untag(a)): untag(b) for a, b in x["items"]}
            return x
        return {k: untag(v) for k, v in x.items()}
    return x


def generic(env, rep):
    from vf import harness
    from vf.spec import ALIASERS

    w = rep["witness"]
    print("features:", json.dumps(rep["features"]))
    if "program" not in w:
        print("witness has no program source; nothing to re-execute")
        return
    mod = types.ModuleType("vfreplay")
    sys.modules["vfreplay"] = mod
    exec(compile(w["program"], "<replay>", "exec"), mod.__dict__)
    import apischema

    opts = dict(w.get("options") or w.get("settings") or {}) if isinstance(w.get("options") or w.get("settings"), dict) else {}
    kw = {}
    for k in ("additional_properties", "fall_back_on_default", "coerce", "no_copy", "exclude_none", "exclude_defaults", "exclude_unset"):
        if k in opts and opts[k] is not None:
            kw[k] = opts[k]
    if opts.get("aliaser") in ALIASERS and opts["aliaser"] != "identity":
        kw["aliaser"] = ALIASERS[opts["aliaser"]]
    if "coerce" in w:
        kw["coerce"] = w["coerce"]
    T = getattr(mod, "T", None)
    print("type:", T, "| options:", {k: (v if not callable(v) else v.__name__) for k, v in kw.items()})
    if "datum" in w and T is not None:
        d = untag(w["datum"])
        dk = {k: v for k, v in kw.items() if k in ("additional_properties", "fall_back_on_default", "coerce", "no_copy", "aliaser")}
        now = harness.call(apischema.deserialize, T, d, **dk)
        print("deserialize now :", json.dumps(now.brief(), default=str)[:600])
        rec = w.get("observed") or w.get("deserialize") or w.get("union") or w.get("coerced")
        print("recorded        :", json.dumps(rec, default=str)[:600])
        if rec is not None and json.dumps(now.brief(), default=str) == json.dumps(rec, default=str):
            env.violation(rep["features"], w)
            return
    if "schema" in w and T is not None:
        from apischema.json_schema import deserialization_schema, serialization_schema
        fn = serialization_schema if "serial" in str(w.get("entry", "")) and "deserial" not in str(w.get("entry", "")) else deserialization_schema
        sk = {k: v for k, v in kw.items() if k in ("additional_properties", "aliaser")}
        now = harness.call(fn, T, **sk)
        print("schema now      :", json.dumps(now.value if now.kind == "ok" else now.brief(), default=str)[:800])
        print("schema recorded :", json.dumps(w["schema"], default=str)[:800])
    print("(outcome differs from the recorded one, or the witness kind needs the check's own oracle: re-run the check with the same VERIF_SEED to re-evaluate it)")
