"""Conversion graphs (the C12 workload: opaque classes whose (de)serializers are registered, handed out by a default_conversion
function, passed with conversion=, declared on fields or as sub-conversions) offered to the schema/behaviour properties:

  C06  deserialize(T, d, **opts) accepts d  <=>  d validates against deserialization_schema(T, **opts)
  C07  serialize(T, v, **opts) validates against serialization_schema(T, **opts)

with opts = the placement (registered conversions / default_conversion= / conversion=).  The oracle on the schema side is
jsonschema; the *reference type* of the placement (every opaque occurrence replaced by the source type of the conversion that
the placement laws select, vf.c12_graph.erase) is only used to tell apart what a disagreement is about:

  * the reference type disagrees with its own schema on the same datum -> not about conversions (plain C06 / C07 and their
    known findings): counted, not reported here;
  * the schema accepts, deserialize rejects and the reference type accepts: the converter itself refused the value
    (converters of the workload reject about a third of their inputs; a schema cannot know): counted, not reported.
"""
import copy
import json

from vf import gen_types, harness
from vf.c12_graph import Abstain, GraphGen, all_classes_deep, exp_nodes
from vf.spec import Unspecified


def _c12():
    from vf.checks import c12
    return c12


def _int_valued_float(d):
    if type(d) is float:
        return d.is_integer()
    if type(d) is list:
        return any(_int_valued_float(x) for x in d)
    if type(d) is dict:
        return any(_int_valued_float(x) for x in d.values())
    return False


def _validator(env, fn, tp, kw, jo):
    o = harness.call(fn, tp, **kw)
    if o.kind != "ok":
        return None, o
    doc = json.loads(json.dumps(o.value))
    if jo.meta_errors(doc, "2020-12") or jo.in_place_cycle(doc):
        return None, o
    return jo.make_validator(doc, "2020-12"), o


def _valid(jo, v, d):
    try:
        return jo.is_valid(v, d)
    except (RecursionError, jo.SchemaOracleError):
        return None


def run_family(env, side, count, ndata=14):
    """side: 'deserialize' (C06) or 'serialize' (C07).  Uses at most a third of the check's time cap."""
    import time

    t0 = time.time()
    for j in range(count):
        # (the discriminated families come first and may use a third as well: this share is counted from its own start)
        if env.out_of_time() or (j > 0 and time.time() - t0 > 0.25 * env.time_cap):
            env.count("conversion_graphs_stopped_by_time_share")
            break
        one_graph(env, side, ndata)


def one_graph(env, side, ndata):
    c12 = _c12()
    rng = env.rng
    g = gen_types.Gen(rng, max_depth=rng.choice([2, 2, 3]), recursion=True)
    gg = GraphGen(rng, g)
    try:
        fam, top, bare = gg.build()
    except Unspecified:
        return
    classes = all_classes_deep(top)
    case = c12.Case(env, fam, top, bare, classes)
    case.plan(rng)
    if not case.plans or case.union_order_conflict():
        return
    try:
        prog = c12.load_source(case.source())
    except Exception:
        env.count("conversion_program_load_failed")
        return
    mod = prog.module
    try:
        for pl in case.plans:
            if pl["expect"] != "ok":
                continue
            c12.cleanup(mod)
            kw_d, kw_s = {}, {}
            if pl["name"] == "def":
                kw_d["default_conversion"], kw_s["default_conversion"] = c12.default_conv_fns(mod, pl["reg"])
            else:
                c12.register(mod, pl["reg"])
                from apischema import cache
                cache.reset()
            if pl["dyn"]:
                dd = tuple(mod.DES[r.tag] for r in pl["dyn"])
                ss = tuple(mod.SER[r.tag] for r in pl["dyn"])
                kw_d["conversion"], kw_s["conversion"] = (dd[0], ss[0]) if len(dd) == 1 else (dd, ss)
            wit = {"program": prog.source, "family": "conversions", "graph_family": fam, "placement": pl["name"], "type": top.ann(),
                   "dynamic": [r.tag for r in pl["dyn"]], "registered": {k.name: [r.tag for r in v] for k, v in pl["reg"].items()}}
            try:
                placement(env, side, case, pl, mod, kw_d, kw_s, wit, ndata)
            finally:
                c12.cleanup(mod)
        env.count("conversion_graphs")
    finally:
        c12.cleanup(mod)
        prog.unload()


def placement(env, side, case, pl, mod, kw_d, kw_s, wit, ndata):
    from apischema import cache, deserialization_method, serialization_method
    from apischema.json_schema import deserialization_schema, serialization_schema
    from vf import jsonschema_o as jo

    c12 = _c12()
    feat = {"family": "conversions", "placement": pl["name"]}
    i = pl["i"]
    ref = pl["refs"]["T_s%d" % i]
    T_op, T_s = mod.T_op, getattr(mod, "T_s%d" % i)
    m_op = harness.call(deserialization_method, T_op, **kw_d)
    cache.reset()
    m_s = harness.call(deserialization_method, T_s)
    if m_op.kind != "ok" or m_s.kind != "ok":
        env.count("conversion_abstain:method does not compile (C12)")
        return
    data, _ = c12.make_data(env, ref, ndata)
    if "T_sx%d" % i in pl["refs"]:
        # the reference in which the converted classes' own schema annotations are merged everywhere: its boundary data tell
        # whether those annotations are (not) applied under a dynamic conversion, on both sides alike
        data += c12.make_data(env, pl["refs"]["T_sx%d" % i], ndata)[0]
    data = [d for d in data if not _int_valued_float(d)]
    if side == "deserialize":
        v_op, o_op = _validator(env, deserialization_schema, T_op, kw_d, jo)
        cache.reset()
        v_s, _ = _validator(env, deserialization_schema, T_s, {}, jo)
        if v_op is None or v_s is None:
            env.count("conversion_abstain:schema not generated or ill-formed (C17)")
            return
        env.count("conversion_placements:" + pl["name"])
        for d in data:
            a = harness.call(m_op.value, copy.deepcopy(d))
            if a.kind == "exc":
                env.count("conversion_abstain:exception (C03 / C12)")
                continue
            acc, val = a.kind == "ok", _valid(jo, v_op, d)
            if val is None:
                continue
            env.count("conversion_agreement_checks")
            env.case("conversions", case.top.sig(), pl["name"], repr(d))
            if acc == val:
                continue
            b = harness.call(m_s.value, copy.deepcopy(d))
            acc_s, val_s = b.kind == "ok", _valid(jo, v_s, d)
            if b.kind == "exc" or val_s is None or acc_s != val_s:
                env.count("conversion_abstain:reference type disagrees with its own schema (plain C06)")
                continue
            if val and not acc and acc_s:
                env.count("conversion_converter_rejected_value")
                continue
            env.violation({**feat, "kind": "deserialize-accepts-schema-rejects" if acc else "schema-accepts-deserialize-rejects"},
                          {**wit, "datum": d, "observed": a.brief(), "schema": o_op.value, "reference_type": ref.ann(), "reference_accepts": acc_s})
        return
    # ---- serialize side
    if not all(len(n.alts) == 1 for n in exp_nodes(pl["exp"])) or c12.ambiguous_union_serialization(pl["exp"]):
        env.count("conversion_abstain:serialization not determined (several deserializers / container unions)")
        return
    s_op = harness.call(serialization_method, T_op, **kw_s)
    v_op, o_op = _validator(env, serialization_schema, T_op, kw_s, jo)
    cache.reset()
    s_s = harness.call(serialization_method, T_s)
    v_s, _ = _validator(env, serialization_schema, T_s, {}, jo)
    if s_op.kind != "ok" or s_s.kind != "ok" or v_op is None or v_s is None:
        env.count("conversion_abstain:serialization method or schema not available (C12 / C17)")
        return
    env.count("conversion_placements:" + pl["name"])
    for d in data:
        a = harness.call(m_op.value, copy.deepcopy(d))
        b = harness.call(m_s.value, copy.deepcopy(d))
        if a.kind != "ok" or b.kind != "ok":
            continue
        out = harness.call(s_op.value, a.value)
        if out.kind != "ok" or not c12.is_json(out.value):
            env.count("conversion_abstain:serialize fails or returns non-JSON (C04 / C12)")
            continue
        val = _valid(jo, v_op, out.value)
        if val is None:
            continue
        env.count("conversion_agreement_checks")
        env.case("conversions", case.top.sig(), pl["name"], repr(d))
        if val:
            continue
        out_s = harness.call(s_s.value, b.value)
        if out_s.kind != "ok" or not c12.is_json(out_s.value) or not _valid(jo, v_s, out_s.value):
            env.count("conversion_abstain:reference type disagrees with its own schema (plain C07)")
            continue
        errs = sorted({e.validator for e in v_op.iter_errors(out.value)})[:4]
        env.violation({**feat, "kind": "serialized-data-invalid-for-schema", "keywords": errs},
                      {**wit, "datum": d, "value": repr(a.value)[:300], "serialized": out.value, "schema": o_op.value, "reference_type": ref.ann()})
