"""C10 — validators run exactly when their inputs are valid; all errors are merged; construction only without error.

Monitors: the call log written by the generated validators themselves (name + every value read), a constructor counter
(__post_init__ or wrapped __init__), the raised ValidationError (.errors), the escaping exception class, a logical step budget.
Oracle: vf/c10_model.py (run / skip / discard / merge rule of docs/validation.md and the property statement)."""
import itertools
import json
import random
import sys
from collections import Counter

from vf import harness
from vf.c10_gen import (FIELD_NAMES, VALID, Loaded, all_validator_names, aliaser_fn, core_count, core_shapes, decorate, ext_name, is_initvar,
                        plain_spec, random_shape)
from vf.c10_model import Static, datum, deps_of, predict, relevant_validators
from vf.core import h64

PROP = "C10"
SHARDS = {"quick": 8, "thorough": 16}
TIME_CAP = {"quick": 60, "thorough": 900}
RECURSION_LIMIT = 500
STEP_BUDGET = 60_000
CALL_DEPTH = 200  # frames allowed above the monitored call
REQUIRED = ["aggregate_validator_cases", "cycle_validator_cases", "programs", "cases", "class_validator_ran", "skipped:invalid-dep", "skipped:discarded-dep", "skipped:all-default", "outcome:ok",
            "outcome:verr", "ctor_checks", "mock_path_runs", "real_path_runs", "errors_compared", "order_checked", "values_compared",
            "cases_static_alias", "cases_dynamic_aliaser", "cases_initvar", "cases_inherited", "cases_field_validators", "cases_newtype",
            "cases_yield_style", "cases_field_decl", "cases_discard_decl", "cases_external_function", "cases_transitive_reads",
            "cases_post_init_field", "cases_extra_key", "discard_effective", "step_counted_calls", "newtype_toplevel_cases", "validator_failed"]
RULE = ("generated dataclasses with 1-4 int fields (required / defaulted / statically aliased / InitVar / post_init-modified / NewType with "
        "registered validators / `validators` metadata) and 1-4 class validators (dependency set read directly, through a helper method, "
        "a property or two hops; InitVar parameters; `field=` / `discard=` by field object or name; raise / yield styles with alias, index, "
        "raw, AliasedStr, tuple, empty paths; declared in the class, a base class or as an external function; optional `validators=` argument) "
        "x every {absent, valid, invalid} assignment x every pass/fail vector of the validators that can be invoked x optional unexpected key "
        "x dynamic aliaser. A case = (class spec, field statuses, failing set, extra key); all cases are non-trivial (>= 1 validator); "
        "distinct by hash of the case. Thorough: every core shape (<=3 fields, <=3 validators, non-empty deps, optional one-field discard; up to renaming of same-kind fields) "
        "is executed completely in plain form, then random decorated 4x4 programs, then one seeded decorated form of every core shape (complete table; "
        "cut by the time cap only on an overloaded machine, reported in coverage); quick: seeded sample of the decorated space up to 4x4.")
ASSUMPTIONS = ["validators only raise ValidationError / yield errors; helper methods and properties are plain attribute readers",
               "termination is a bounded claim: each call finishes within 60000 Python function entries and without RecursionError "
               "(at most 200 frames above the monitored call, data depth <= 2); wall-clock watchdog separate (inconclusive)",
               "order between validators of a class and of its base class is only required to be fixed (detected once per program); "
               "order among function validators attached to one field value is not checked",
               "validators depending on a post_init-modified field while structural errors exist: run or skip both accepted (statement silent); "
               "the value such a validator reads (before / after __post_init__) is not checked",
               "an unregistered function validator passed through `validators=` depends on the attributes it reads on its first parameter"]

TOOL = 2


class StepBudget(BaseException):
    pass


class Steps:
    def __init__(self):
        self.n = 0
        self.limit = 0
        mon = sys.monitoring
        mon.use_tool_id(TOOL, "vf-c10-steps")
        mon.register_callback(TOOL, mon.events.PY_START, self._cb)

    def _cb(self, code, off):
        self.n += 1
        if self.n > self.limit:
            sys.monitoring.set_events(TOOL, 0)
            raise StepBudget()

    def run(self, fn, *a, **kw):
        self.n, self.limit = 0, STEP_BUDGET
        # bounded recursion: CALL_DEPTH frames above the call site (flat data, <= 4 validators need < 40); keeps a runaway recursion cheap
        depth, f = 0, sys._getframe()
        while f is not None:
            depth, f = depth + 1, f.f_back
        old = sys.getrecursionlimit()
        sys.setrecursionlimit(depth + CALL_DEPTH)
        sys.monitoring.set_events(TOOL, sys.monitoring.events.PY_START)
        try:
            return harness.call(fn, *a, **kw)
        except StepBudget:
            return harness.Outcome("exc", exc="StepBudgetExceeded", msg=f"more than {STEP_BUDGET} function entries", site="steps")
        finally:
            sys.monitoring.set_events(TOOL, 0)
            sys.setrecursionlimit(old)


_steps = None


def steps():
    global _steps
    if _steps is None:
        _steps = Steps()
    return _steps


def norm_errors(errs):
    out = []
    for e in errs:
        m = e["err"]
        if isinstance(m, str) and m.startswith("V:"):
            k = m
        elif m == "§missing":
            k = "missing"
        elif m == "§unexpected":
            k = "unexpected"
        else:
            k = "type"
        out.append((tuple(e["loc"]), k))
    return out


class Prog:
    """a loaded spec + compiled method + per-program observations"""

    def __init__(self, spec, env):
        from apischema import deserialization_method

        self.spec = spec
        self.loaded = Loaded(spec)
        self.H = self.loaded.H
        self.kw = {}
        if spec.get("aliaser"):
            self.kw["aliaser"] = aliaser_fn(spec["aliaser"])
        self.tp = self.loaded.T
        av = spec.get("arg_validator")
        if av and av.get("via", "arg") == "arg":
            self.kw["validators"] = [getattr(self.loaded.module, av["n"])]
        elif av:
            from typing import Annotated

            from apischema.metadata import validators as vmeta

            self.tp = Annotated[self.loaded.T, vmeta(getattr(self.loaded.module, av["n"]))]
        self.compile = harness.call(deserialization_method, self.tp, **self.kw)
        self.method = self.compile.value if self.compile.kind == "ok" else None
        self.order_mode = "sub-first"
        self.aliased = {f["n"] for f in spec["fields"] if ext_name(spec, f["n"]) != f["n"]}
        self.cls_names = [v["n"] for v in spec["validators"]]
        self.vby = {v["n"]: v for v in spec["validators"]}
        self.sig = h64(json.dumps(spec, sort_keys=True))
        self.static = Static(spec)
        self.T = self.loaded.T
        self.counts = Counter()

    def count(self, key, n=1):
        self.counts[key] += n

    def flush(self, env):
        n = self.counts["cases"]
        self.counts["step_counted_calls"] += n
        for fl in self.flags:
            self.counts["cases_" + fl] += n
        env.counters.update(self.counts)
        self.counts.clear()

    def close(self):
        self.loaded.unload()


def observe(prog, case, use_function=False):
    from apischema import deserialize

    H = prog.H
    H["log"].clear()
    H["fail"] = set(case["fail"])
    H["ctor"] = 0
    d = datum(prog.spec, case)
    if use_function:
        out = steps().run(deserialize, prog.tp, d, **prog.kw)
    else:
        out = steps().run(prog.method, d)
    return d, out, list(H["log"]), H["ctor"]


def detect_order(prog, env):
    """cross-class order is only required to be fixed: learn it from one all-valid / all-pass run"""
    spec = prog.spec
    if not (any(v["where"] == "base" for v in spec["validators"]) and any(v["where"] != "base" for v in spec["validators"])):
        return
    case = {"status": {f["n"]: "V" for f in spec["fields"]}, "fail": [], "extra": None}
    _, out, log, _ = observe(prog, case)
    names = [n for n, _ in log if n in prog.vby]
    for mode in ("sub-first", "base-first"):
        if names == [n for n, _ in predict(spec, case, mode).class_runs]:
            prog.order_mode = mode
            env.count("order_mode:" + mode)
            return
    env.count("order_mode:undetermined")


def spec_flags(spec):
    fl = set()
    if any(f.get("alias") for f in spec["fields"]):
        fl.add("static_alias")
    if spec.get("aliaser"):
        fl.add("dynamic_aliaser")
    if any(is_initvar(f) for f in spec["fields"]):
        fl.add("initvar")
    if any(v["where"] == "base" for v in spec["validators"]):
        fl.add("inherited")
    if any(f.get("fv") for f in spec["fields"]):
        fl.add("field_validators")
    if any(f.get("nt") for f in spec["fields"]):
        fl.add("newtype")
    if any(v["style"].startswith("y_") for v in spec["validators"]):
        fl.add("yield_style")
    if any(v.get("field") for v in spec["validators"]):
        fl.add("field_decl")
    if any(v.get("discard") for v in spec["validators"]):
        fl.add("discard_decl")
    if any(v["where"] == "ext" for v in spec["validators"]):
        fl.add("external_function")
    if any(via != "direct" for v in spec["validators"] for _, via in v["reads"]):
        fl.add("transitive_reads")
    if any(f.get("post_init") for f in spec["fields"]):
        fl.add("post_init_field")
    if spec.get("arg_validator"):
        fl.add("validators_arg")
    return fl


def check_case(env, prog, case, label, use_function=False):
    """evaluate every monitor on one case; returns number of violations reported"""
    spec = prog.spec
    d, out, log, ctor = observe(prog, case, use_function)
    nviol = [0]
    C = prog.count
    base_wit = {"spec": spec, "case": case, "order_mode": prog.order_mode, "label": label, "datum": d, "source": prog.loaded.source,
                "options": {"aliaser": spec.get("aliaser"), "validators_arg": bool(spec.get("arg_validator")), "via": "deserialize" if use_function else "deserialization_method"}}

    def viol(features, **more):
        nviol[0] += 1
        env.violation(features, {**base_wit, "observed": {"outcome": out.brief(), "log": log, "ctor": ctor}, **more})

    env.case(prog.sig, "".join(case["status"].values()), case["fail"], case.get("extra"))
    C("cases")
    if case.get("extra"):
        C("cases_extra_key")
    C("outcome:" + out.kind)

    post_init_fields = {f["n"] for f in spec["fields"] if f.get("post_init")}
    P = predict(spec, case, prog.order_mode, True, prog.static)
    obs_cls = [(n, r) for n, r in log if n in prog.vby]
    obs_names = [n for n, _ in obs_cls]
    if P.structural and post_init_fields:
        P2 = predict(spec, case, prog.order_mode, False, prog.static)
        if [n for n, _ in P2.class_runs] != [n for n, _ in P.class_runs]:
            C("abstain_post_init_gating")
            if Counter(obs_names) == Counter(n for n, _ in P2.class_runs):
                P = P2
    extra_kind = None
    if case.get("extra"):
        extra_kind = "field-name" if case["extra"] in FIELD_NAMES else "other"
    aliased_bad = bool(P.bad & prog.aliased)

    # ---- 1. termination / escaping exception
    if out.kind == "exc":
        if out.exc == "RecursionError":
            viol({"kind": "recursion", "failing_validator_discards_unread_field": P.f16_shape}, expected=P.brief())
        elif out.exc == "StepBudgetExceeded":
            viol({"kind": "step-budget", "failing_validator_discards_unread_field": P.f16_shape}, expected=P.brief())
        else:
            viol({"kind": "exception", "exc": out.exc, "aliased_invalid_field": aliased_bad}, expected=P.brief(), message=out.msg, site=out.site,
                 initvar="initvar" in prog.flags, extra_key=extra_kind)
        C("ctor_check_skipped_exception")
        return nviol[0]

    # ---- 2. which validators ran (function validators attached to field values)
    run_ok = True
    obs_field = Counter(n for n, _ in log if n.startswith(("fv_", "nt_")))
    for n, k in obs_field.items():
        if k > 1:
            run_ok = False
            viol({"kind": "ran-twice", "attach": "field-value"}, validator=n, expected=P.brief())
        if n not in P.field_runs:
            run_ok = False
            viol({"kind": "ran-although-not-runnable", "attach": "field-value", "reason": "field-absent-or-ill-typed"}, validator=n, expected=P.brief())
    for n in P.field_runs:
        if n not in obs_field:
            run_ok = False
            viol({"kind": "not-run-although-runnable", "attach": "field-value"}, validator=n, expected=P.brief())
    C("field_validator_ran", sum(obs_field.values()))
    for n, r in log:
        if n.startswith(("fv_", "nt_")) and r != (("x", VALID[n.split("_")[1]]),):
            viol({"kind": "read-value", "attach": "field-value"}, validator=n, read=r)

    # ---- 3. which class validators ran, how often
    exp_names = [n for n, _ in P.class_runs]
    oc, ec = Counter(obs_names), Counter(exp_names)
    for n in prog.cls_names:
        v = prog.vby[n]
        if oc[n] > 1:
            run_ok = False
            viol({"kind": "ran-twice", "attach": "class"}, validator=n, expected=P.brief())
        if oc[n] and not ec[n]:
            run_ok = False
            why = P.why_skipped.get(n)
            blame = deps_of(v) & (P.bad if why == "invalid-dep" else set())
            viol({"kind": "ran-although-not-runnable", "attach": "class", "reason": why, "aliased_invalid_dep": bool(blame & prog.aliased),
                  "structural_errors": P.structural}, validator=n, expected=P.brief())
        elif ec[n] and not oc[n]:
            run_ok = False
            # external names under which structural errors are reported (bad fields, unexpected key): does one equal a dependency *name*?
            err_keys = {ext_name(spec, b) for b in P.bad} | ({case["extra"]} if case.get("extra") else set())
            viol({"kind": "not-run-although-runnable", "attach": "class", "structural_errors": P.structural,
                  "dep_name_is_error_key": bool(deps_of(v) & err_keys), "aliased_invalid_field": aliased_bad,
                  "earlier_failure": bool(set(case["fail"]) & set(exp_names[:exp_names.index(n)]))}, validator=n, expected=P.brief())
        if ec[n]:
            C("class_validator_ran")
            C("mock_path_runs" if P.structural else "real_path_runs")
            if n in case["fail"]:
                C("validator_failed")
        else:
            C("skipped:" + P.why_skipped[n])
    if any(w == "discarded-dep" for w in P.why_skipped.values()):
        C("discard_effective")
    # unregistered function validator passed as `validators=` argument
    av = spec.get("arg_validator")
    if av:
        ran = sum(1 for n, _ in log if n == av["n"])
        C("arg_validator_cases")
        if ran > 1:
            run_ok = False
            viol({"kind": "ran-twice", "attach": "validators-arg"}, expected=P.brief())
        elif ran and not P.arg_validator_runs:
            if set(av["reads"]) & P.bad:
                run_ok = False
                viol({"kind": "ran-although-not-runnable", "attach": "validators-" + av.get("via", "arg"), "reason": "invalid-dep"}, expected=P.brief())
            else:
                # every attribute it reads is defaulted: "not run on default values" is documented for class validators only
                C("abstain_arg_validator_all_default")
                P.arg_validator_runs = True
        elif P.arg_validator_runs and not ran:
            if P.errors:
                # unregistered function validator while other errors exist: the statement is about class validators; run or not both accepted
                C("abstain_arg_validator_with_other_errors")
                P.arg_validator_runs = False
            else:
                run_ok = False
                viol({"kind": "not-run-although-runnable", "attach": "validators-" + av.get("via", "arg")}, expected=P.brief())
        elif ran:
            C("arg_validator_ran")

    if not run_ok:
        C("derived_checks_skipped")
    else:
        # ---- 4. order
        C("order_checked")
        if obs_names != exp_names:
            viol({"kind": "order", "inheritance": "inherited" in prog.flags}, expected=P.brief())
        # ---- 5. values read
        exp_reads = dict(P.class_runs)
        for n, r in obs_cls:
            C("values_compared")
            er = exp_reads[n]
            if len(r) != len(er) or any(a[0] != b[0] or (b[1] is not None and a[1] != b[1]) for a, b in zip(r, er)):
                viol({"kind": "read-value", "attach": "class", "structural_errors": P.structural}, validator=n, read=r, expected_read=er)
            if any(b[1] is None for b in er):
                C("abstain_post_init_value")
        # ---- 6. errors merged into one ValidationError
        exp_errors = Counter(P.errors)
        if av and P.arg_validator_runs and av["n"] in case["fail"]:
            from vf.c10_gen import error_paths
            exp_errors.update(error_paths(av["style"], av["n"], None, aliaser_fn(spec.get("aliaser"))))
        if out.kind == "ok":
            if exp_errors:
                kinds = sorted({"validator" if m.startswith("V:") else "structural" for _, m in exp_errors})
                viol({"kind": "accepted-despite-errors", "lost": kinds}, expected=P.brief())
            else:
                val = out.value
                got = {f["n"]: getattr(val, f["n"], "<missing>") for f in spec["fields"] if not is_initvar(f)}
                C("result_values_compared")
                if type(val) is not prog.loaded.T or got != P.value:
                    viol({"kind": "result-value"}, got=got, expected_value=P.value)
        else:
            C("errors_compared")
            obs_errors = Counter(norm_errors(out.errors))
            if not exp_errors:
                viol({"kind": "rejected-without-cause"}, expected=P.brief())
            elif obs_errors != exp_errors:
                missing, extra = exp_errors - obs_errors, obs_errors - exp_errors
                mm, em = {m for _, m in missing}, {m for _, m in extra}
                cls = []
                if any(m.startswith("V:") for m in mm & em):
                    cls.append("validator-error-misplaced")
                if any(m.startswith("V:") for m in mm - em):
                    cls.append("validator-error-lost")
                if any(m.startswith("V:") for m in em - mm):
                    cls.append("validator-error-extra")
                if any(not m.startswith("V:") for m in mm - em):
                    cls.append("structural-error-lost")
                if any(not m.startswith("V:") for m in em - mm):
                    cls.append("structural-error-extra")
                if any(not m.startswith("V:") for m in em & mm):
                    cls.append("structural-error-misplaced")
                if not cls:
                    cls.append("multiplicity")
                failing = [prog.vby[n] for n in case["fail"] if n in prog.vby and n in exp_names]
                viol({"kind": "errors", "what": cls, "field_decl": any(v.get("field") for v in failing)},
                     dynamic_aliaser=bool(spec.get("aliaser")), static_alias="static_alias" in prog.flags, missing=[[list(p), m] for p, m in missing.elements()], extra=[[list(p), m] for p, m in extra.elements()], expected=P.brief())

    # ---- 7. constructed only when there is no error at all
    C("ctor_checks")
    exp_ctor = P.ctor
    if av and P.arg_validator_runs and av["n"] in case["fail"]:
        exp_ctor = 0
    if ctor != exp_ctor:
        if ctor == 1 and exp_ctor == 0:
            if P.structural:
                viol({"kind": "constructed-despite-structural-error"}, expected=P.brief())
            else:
                viol({"kind": "constructed-despite-validator-error"}, expected=P.brief())
        elif ctor == 0:
            viol({"kind": "not-constructed", "outcome": out.kind}, expected=P.brief())
        else:
            viol({"kind": "constructed-multiple", "count": min(ctor, 3)}, expected=P.brief())
    elif run_ok and out.kind == "verr" and not P.structural and P.errors:
        C("validator_rejection_without_construction")
    return nviol[0]


def cases_for(spec, rng, n_cases=None, extras=True, extra_prob=0.2):
    """all cases (n_cases None) or a seeded sample: field statuses x failing subsets of the invocable validators x extra key"""
    names = [f["n"] for f in spec["fields"]]
    ext = {ext_name(spec, n) for n in names}
    extra_opts = [None]
    if extras:
        extra_opts.append("zz")
        like = [n for n in names if ext_name(spec, n) != n and n not in ext]
        if like:
            extra_opts.append(like[0])
    if n_cases is None:
        for st in itertools.product("VAI", repeat=len(names)):
            status = dict(zip(names, st))
            rel = relevant_validators(spec, status)
            cls = [x for x in rel if not x.startswith(("fv_", "nt_"))]
            oth = [x for x in rel if x.startswith(("fv_", "nt_"))]
            # every failing subset of the invocable class validators (function validators of field values all passing) ...
            subsets = [s for k in range(len(cls) + 1) for s in itertools.combinations(cls, k)]
            if oth:
                # ... plus each function validator of a field value failing alone / all of them failing, with seeded class outcomes
                # (a failing one makes its field invalid, which removes the dependent class validators from the table anyway)
                more = {(o,) + tuple(x for x in cls if rng.random() < 0.5) for o in oth}
                more.add(tuple(oth) + tuple(cls))
                more.add(tuple(oth))
                subsets += sorted(more)
            for fs in subsets:
                yield {"status": status, "fail": list(fs), "extra": None}
        return
    seen = set()
    for i in range(n_cases * 3):
        if len(seen) >= n_cases:
            break
        status = {n: rng.choice("VVVAI") for n in names}
        rel = relevant_validators(spec, status)
        pf = rng.choice([0.0, 0.3, 0.5, 0.8])
        fs = tuple(x for x in rel if rng.random() < pf)
        ex = rng.choice(extra_opts[1:] if extra_prob >= 1 and len(extra_opts) > 1 else extra_opts) if rng.random() < extra_prob else None
        key = (tuple(status.values()), fs, ex)
        if key in seen:
            continue
        seen.add(key)
        yield {"status": status, "fail": list(fs), "extra": ex}


def run_program(env, spec, rng, label, n_cases=None, extras=True, then_extras=0):
    harness.reset_all()
    try:
        prog = Prog(spec, env)
    except Exception as e:
        env.count("program_load_failed:" + type(e).__name__)
        env.notes.append(f"load failed: {type(e).__name__}: {str(e)[:200]}")
        if len(env.samples) < 8:
            env.sample({"load_failed": str(e)[:300], "spec": spec})
        return
    prog.flags = spec_flags(spec)
    try:
        if prog.method is None:
            env.violation({"kind": "compile", "exc": prog.compile.exc or "ValidationError"}, {"spec": spec, "source": prog.loaded.source, "outcome": prog.compile.brief()})
            return
        env.count("programs")
        env.count(f"programs_{len(spec['fields'])}f{len(spec['validators'])}v")
        detect_order(prog, env)
        k = 0
        for case in cases_for(spec, rng, n_cases, extras):
            k += 1
            check_case(env, prog, case, label, use_function=(k % 10 == 0))
        if then_extras:  # a few more cases with an unexpected key on the same program
            for case in cases_for(spec, rng, then_extras, True, extra_prob=1.0):
                check_case(env, prog, case, label + "+extra")
        if len(env.samples) < 4 and k and rng.random() < 0.02:
            d, out, log, ctor = observe(prog, case)
            env.sample({"label": label, "source": prog.loaded.source, "case": case, "datum": d, "call_log": log, "constructor_calls": ctor,
                        "outcome": out.brief(), "model": predict(spec, case, prog.order_mode, True, prog.static).brief()})
    finally:
        prog.flush(env)
        prog.close()


def newtype_workload(env):
    """function validators registered on a NewType + `validators=` argument + Annotated metadata at top level (no object, no
    dependency notion): every validator runs exactly once on well-typed data, none on ill-typed data, errors are merged."""
    from typing import Annotated, NewType

    from apischema import ValidationError, deserialize, validator
    from apischema.metadata import validators as vmeta

    log, fail = [], set()

    def mk(name, style):
        if style == "raise":
            def f(x):
                log.append(name)
                if name in fail:
                    raise ValidationError("V:" + name)
        else:
            def f(x):
                log.append(name)
                if name in fail:
                    yield ("k", 1), "V:" + name
        f.__name__ = name
        return f

    for nreg, narg, nmeta in itertools.product((0, 1, 2, 3), (0, 1, 2), (0, 1)):
        if nreg + narg + nmeta == 0:
            continue
        harness.reset_all()
        NT = NewType(f"NTtop_{nreg}_{narg}_{nmeta}", int)
        names = []
        for i in range(nreg):
            f = mk(f"r{i}", "raise" if i % 2 == 0 else "yield")
            validator(owner=NT)(f)
            names.append((f"r{i}", i % 2 == 0))
        args = []
        for i in range(narg):
            args.append(mk(f"g{i}", "yield" if i % 2 == 0 else "raise"))
            names.append((f"g{i}", i % 2 == 1))
        tp = NT
        if nmeta:
            tp = Annotated[NT, vmeta(mk("m0", "raise"))]
            names.append(("m0", True))
        for fs in itertools.chain.from_iterable(itertools.combinations(names, k) for k in range(len(names) + 1)):
            for d in (5, "x"):
                log.clear()
                fail.clear()
                fail.update(n for n, _ in fs)
                out = steps().run(deserialize, tp, d, validators=args)
                env.case("newtype-top", nreg, narg, nmeta, tuple(n for n, _ in fs), d)
                env.count("newtype_toplevel_cases")
                wit = {"registered": nreg, "validators_arg": narg, "annotated": nmeta, "fail": [n for n, _ in fs], "datum": d, "log": list(log), "outcome": out.brief()}
                if out.kind == "exc":
                    env.violation({"kind": "exception", "exc": out.exc, "target": "newtype-toplevel"}, wit)
                    continue
                exp_log = Counter(n for n, _ in names) if d == 5 else Counter()
                if Counter(log) != exp_log:
                    env.violation({"kind": "run-set", "target": "newtype-toplevel", "ill_typed": d != 5}, wit)
                    continue
                exp = Counter(((), "V:" + n) if r else (("k", 1), "V:" + n) for n, r in fs) if d == 5 else Counter({((), "type"): 1})
                got = Counter(norm_errors(out.errors)) if out.kind == "verr" else Counter()
                if got != exp:
                    env.violation({"kind": "errors", "target": "newtype-toplevel"}, {**wit, "expected": [[list(p), m] for p, m in exp.elements()]})


AGGREGATE_SRC = """
from dataclasses import dataclass, field
from typing import Dict, Mapping
from apischema import validator
from apischema.metadata import flatten, properties
LOG = []

@dataclass
class Inner:
    x: int
    y: int = 0

@dataclass
class Outer:
    a: int
    inner: Inner = field(metadata=flatten)
    extra: Dict[str, int] = field(default_factory=dict, metadata=properties(pattern=r"^k_"))
    rest: Mapping[str, int] = field(default_factory=dict, metadata=properties)

    @validator
    def reads_flattened(self):
        LOG.append("reads_flattened")
        if self.a > self.inner.x:
            yield "a > x"

    @validator
    def reads_pattern(self):
        LOG.append("reads_pattern")
        if self.a in self.extra.values():
            yield "a in extra"

    @validator
    def reads_additional(self):
        LOG.append("reads_additional")
        if len(self.rest) > self.a:
            yield "too many"

    @validator
    def reads_plain(self):
        LOG.append("reads_plain")
        if self.a < 0:
            yield "negative"
"""


def aggregate_workload(env):
    """validators reading flattened / properties fields: a validator runs iff everything it reads is valid; never an exception"""
    import sys
    import types
    from apischema import deserialize

    import linecache
    mod = types.ModuleType(f"vfc10agg_{env.shard}")
    sys.modules[mod.__name__] = mod
    fn = f"<{mod.__name__}>"
    mod.__file__ = fn
    linecache.cache[fn] = (len(AGGREGATE_SRC), None, AGGREGATE_SRC.splitlines(True), fn)  # the dependency analysis reads the validators' source
    try:
        exec(compile(AGGREGATE_SRC, fn, "exec"), mod.__dict__)
        harness.reset_all()
        # which aggregate is invalid -> validators that must not run
        base = {"a": 1, "x": 2}
        cases = [("all-valid", dict(base, k_1=5, other=7), set()),
                 ("flattened-invalid", dict(base, x="bad"), {"reads_flattened"}), ("flattened-missing", {"a": 1}, {"reads_flattened"}),
                 ("flattened-inner-default-invalid", dict(base, y="bad"), {"reads_flattened"}),
                 ("pattern-invalid", dict(base, k_1="bad"), {"reads_pattern"}), ("additional-invalid", dict(base, other="bad"), {"reads_additional"}),
                 ("plain-invalid", {"a": "bad", "x": 2}, {"reads_flattened", "reads_pattern", "reads_additional", "reads_plain"}),
                 ("two-invalid", dict(base, x="bad", k_1="bad"), {"reads_flattened", "reads_pattern"})]
        every = {"reads_flattened", "reads_pattern", "reads_additional", "reads_plain"}
        for label, d, skipped in cases:
            mod.LOG.clear()
            r = harness.call(deserialize, mod.Outer, d)
            env.count("aggregate_validator_cases")
            env.case("aggregate", label)
            wit = {"program": AGGREGATE_SRC, "datum": d, "case": label, "observed": r.brief(), "validators_run": list(mod.LOG)}
            if r.kind == "exc":
                env.violation({"kind": "exception", "exc": r.exc, "family": "aggregate-fields"}, wit)
                continue
            ran = set(mod.LOG)
            if ran & skipped:
                env.violation({"kind": "ran-although-not-runnable", "family": "aggregate-fields", "reason": "invalid-aggregate-dep"}, wit)
            if (every - skipped) - ran:
                env.violation({"kind": "not-run-although-runnable", "family": "aggregate-fields"}, wit)
            if (r.kind == "ok") != (not skipped):
                env.violation({"kind": "verdict", "family": "aggregate-fields"}, wit)
    finally:
        sys.modules.pop(mod.__name__, None)


def cycle_source(k, order, via_property):
    """a class whose validators read their fields through a cycle of k helper methods h0 -> h1 -> ... -> h0 (bounded by a depth
    argument), one validator entering the cycle at each helper, declared in the given order; `tail` is read directly"""
    L = ["from dataclasses import dataclass", "from apischema import validator", "LOG = []", "", "@dataclass", "class Cyc:"]
    L += [f"    f{i}: int" for i in range(k)] + ["    tail: int = 0"]
    for i in range(k):
        nxt = (i + 1) % k
        L += [f"    def h{i}(self, n=0):", f"        x = self.f{i}", f"        return x + (self.h{nxt}(n + 1) if n < {k + 1} else 0)"]
    if via_property:
        L += ["    @property", "    def entry(self):", "        return self.h0()"]
    for i in order:
        call = "self.entry" if via_property and i == 0 else f"self.h{i}()"
        L += ["    @validator", f"    def enters_{i}(self):", f"        LOG.append('enters_{i}')", f"        if {call} < 0:", f"            yield 'negative {i}'"]
    L += ["    @validator", "    def reads_tail(self):", "        LOG.append('reads_tail')", "        if self.tail < 0:", "            yield 'negative tail'"]
    return "\n".join(L) + "\n"


def cycle_workload(env):
    """dependencies reached *transitively through methods* that call each other in a cycle: every validator entering the cycle
    depends on every field read anywhere in it, whatever the order in which the validators were analysed"""
    import itertools
    import linecache
    import sys
    import types
    from apischema import deserialize

    progs = []
    for k in (2, 3, 4):
        perms = list(itertools.permutations(range(k)))
        if k == 4:
            perms = env.rng.sample(perms, 6)
        for order in perms:
            progs.append((k, order, False))
        progs.append((k, tuple(range(k)), True))
        progs.append((k, tuple(reversed(range(k))), True))
    for pi, (k, order, via_property) in enumerate(progs):
        src = cycle_source(k, order, via_property)
        mod = types.ModuleType(f"vfc10cyc_{env.shard}_{pi}")
        sys.modules[mod.__name__] = mod
        fn = f"<{mod.__name__}>"
        mod.__file__ = fn
        linecache.cache[fn] = (len(src), None, src.splitlines(True), fn)
        try:
            exec(compile(src, fn, "exec"), mod.__dict__)
            harness.reset_all()
            cyc = {f"enters_{i}" for i in range(k)}
            for bad in itertools.product((False, True), repeat=k):
                for tail in ("absent", "valid", "invalid", "failing"):
                    d = {f"f{i}": ("bad" if bad[i] else i + 1) for i in range(k)}
                    if tail != "absent":
                        d["tail"] = {"valid": 5, "invalid": "bad", "failing": -1}[tail]
                    skipped = (cyc if any(bad) else set()) | ({"reads_tail"} if tail in ("absent", "invalid") else set())
                    mod.LOG.clear()
                    r = harness.call(deserialize, mod.Cyc, d)
                    env.count("cycle_validator_cases")
                    env.case("method-cycle", f"k={k} property={via_property} invalid={sum(bad)} tail={tail}")
                    wit = {"program": src, "datum": d, "observed": r.brief(), "validators_run": list(mod.LOG)}
                    feats = {"family": "method-cycle", "cycle": k}
                    if r.kind == "exc":
                        env.violation({"kind": "exception", "exc": r.exc, **feats}, wit)
                        continue
                    ran = list(mod.LOG)
                    if set(ran) & skipped:
                        env.violation({"kind": "ran-although-not-runnable", "reason": "invalid-transitive-dep", **feats}, wit)
                    if (cyc | {"reads_tail"}) - skipped - set(ran):
                        env.violation({"kind": "not-run-although-runnable", **feats}, wit)
                    if len(ran) != len(set(ran)):
                        env.violation({"kind": "ran-twice", **feats}, wit)
                    if [x for x in ran if x in cyc] != [f"enters_{i}" for i in order if f"enters_{i}" in ran]:
                        env.violation({"kind": "order", **feats}, wit)
                    if (r.kind == "ok") != (not any(bad) and tail in ("absent", "valid")):
                        env.violation({"kind": "verdict", **feats}, wit)
        finally:
            sys.modules.pop(mod.__name__, None)
            linecache.cache.pop(fn, None)


def run(env):
    harness.tag_errors(True)
    if env.shard == 0:
        newtype_workload(env)
        aggregate_workload(env)
        cycle_workload(env)
        # the REQUIRED counter is merged by sum, so counting in one shard is enough
    if env.quick():
        nprog = env.n(4400, 0)
        for j in range(nprog):
            if env.out_of_time():
                env.notes.append("time cap reached")
                break
            rng = env.rng
            shape = random_shape(rng)
            if rng.random() < 0.15:
                spec = plain_spec(shape, f"K{env.shard}_{j}")
            else:
                spec = decorate(shape, f"K{env.shard}_{j}", rng)
            run_program(env, spec, rng, f"quick#{env.shard}.{j}", n_cases=24)
        return
    # thorough: (A) the complete core space in plain form; (B) random decorated programs up to 4x4;
    #           (C) one seeded decorated form of every core shape with its complete case table, as far as the time cap allows
    mine = [(i, shape) for i, shape in core_shapes(3, 3) if i % env.nshards == env.shard]
    for i, shape in mine:
        if env.out_of_time():
            env.notes.append(f"time cap reached in the exhaustive part at shape {i}")
            env.inconclusive.append("exhaustive core enumeration (plain form) cut by the time cap")
            break
        rng = random.Random(h64("c10", env.seed, i))
        run_program(env, plain_spec(shape, f"P{i}"), rng, f"core#{i}/plain", n_cases=None, extras=False)
        env.count("core_shapes_done")
    nprog = env.n(0, 12000)
    for j in range(nprog):
        if env.out_of_time():
            env.notes.append("time cap reached in the random part")
            break
        rng = env.rng
        shape = random_shape(rng)
        spec = decorate(shape, f"R{env.shard}_{j}", rng)
        run_program(env, spec, rng, f"random#{env.shard}.{j}", n_cases=32)
    # seeded order, so that a cut by the time cap still leaves a uniform sample of the shapes
    order = list(mine)
    random.Random(h64("c10-order", env.seed, env.shard)).shuffle(order)
    for i, shape in order:
        if env.out_of_time():
            env.notes.append("time cap reached in the decorated pass over the core shapes (coverage reports how many were done)")
            break
        rng = random.Random(h64("c10-dec", env.seed, i))
        spec = decorate(shape, f"D{i}", rng)
        run_program(env, spec, rng, f"core#{i}/decorated", n_cases=None, extras=False, then_extras=6)
        env.count("core_shapes_decorated_done")


def finish_coverage(cov, counters, tier):
    total = core_count(3, 3)
    if tier == "thorough":
        done = counters.get("core_shapes_done", 0)
        dec = counters.get("core_shapes_decorated_done", 0)
        cov["exhaustive"] = {"sub_space": "core shapes up to renaming of fields of the same kind: 1..3 fields (required-first), 1..3 validators, non-empty "
                                          "dependency set, optional one-field discard; x every {absent,valid,invalid}^fields x every failing subset of the "
                                          "invocable validators; plain form (direct reads, raise style, no alias)",
                             "shapes_total": total, "shapes_done": done, "complete": done == total,
                             "decorated_form": {"what": "one seeded decorated form of each core shape, complete status x class-validator failing-subset table "
                                                        "(+ sampled outcomes of function validators on field values, + 6 cases with an unexpected key)",
                                                "shapes_done": dec, "complete": dec == total}}
    else:
        cov["exhaustive"] = False
        cov["core_shapes_total_in_thorough"] = total


def replay(env, rep):
    harness.tag_errors(True)
    w = rep["witness"]
    if "spec" not in w or "case" not in w:
        print("witness has no spec/case (top-level NewType workload): re-run the tier to reproduce")
        return
    harness.reset_all()
    prog = Prog(w["spec"], env)
    prog.flags = spec_flags(w["spec"])
    try:
        if prog.method is None:
            env.violation({"kind": "compile", "exc": prog.compile.exc or "ValidationError"}, {"spec": w["spec"]})
            return
        detect_order(prog, env)
        check_case(env, prog, w["case"], "replay", use_function=w.get("options", {}).get("via") == "deserialize")
    finally:
        prog.flush(env)
        prog.close()
