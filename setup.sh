#!/bin/bash
# Offline, idempotent: third-party oracles (jsonschema, icontract) next to the repo's interpreter.
set -e
cd "$(dirname "$0")"
exec 9>.deps.lock
flock 9
if [ ! -f .deps/.ok ]; then
  rm -rf .deps
  PIP_NO_INDEX=1 /venv/bin/pip install -q --no-index --find-links /opt/veriftools/wheels \
     --target .deps jsonschema icontract >/dev/null 2>&1 || { echo "setup: pip install failed" >&2; exit 3; }
  # apischema must keep seeing the typing_extensions the test-suite sees
  rm -rf .deps/typing_extensions.py .deps/typing_extensions-*.dist-info .deps/bin
  touch .deps/.ok
fi
